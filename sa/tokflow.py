"""TOKFLOW: which parameters of a key-forming function flow into the tokenize(...) call that
forms the key, and which flow into what the function builds/returns (may-flow backward slices
over reaching definitions, including container mutations of names in the slice)."""
from __future__ import annotations

import ast

from .dataflow import reaching_of, mutations
from .srcmodel import call_name, dotted, param_names, unparse, walk_no_nested

TOKENIZERS = {"tokenize", "_tokenize_deterministic", "_tokenize", "base.tokenize", "dask.base.tokenize"}


_PROJECTION_METHODS = {"get", "pop", "setdefault", "index", "count", "startswith", "endswith", "split", "rsplit", "partition", "join", "find", "is_integer", "issubset", "isdisjoint"}


_PROJECTION_FUNCS = {
    "apply_infer_dtype", "funcname", "len", "type", "isinstance", "hasattr", "callable", "typename", "key_split",
    "np.result_type", "result_type", "np.promote_types", "compute_meta", "meta_from_array", "np.ndim", "ndim", "np.shape",
    "is_arraylike", "is_scalar_for_elemwise", "is_dask_collection", "np.isscalar", "bool", "any", "all",
}


def _names_whole(expr):
    """Names whose *whole value* is part of expr: does not look through attribute access
    (x.shape, x.get(...)), subscripts, comparisons or comprehension filters -- those pass on
    only a projection of the value."""
    out = []
    stack = [expr]
    while stack:
        n = stack.pop()
        if isinstance(n, ast.Attribute):
            # the name/key of a collection identifies it completely
            if n.attr in ("name", "_name", "key", "_key", "names"):
                stack.append(n.value)
            continue
        if isinstance(n, ast.Call) and isinstance(n.func, ast.Attribute):
            # method call: the receiver is projected, the arguments are passed whole
            stack.extend(n.args)
            stack.extend(k.value for k in n.keywords)
            # most methods transform the whole receiver (a.astype(..), a.rechunk(..), d.items());
            # a few only look something up in it
            if n.func.attr not in _PROJECTION_METHODS:
                stack.append(n.func.value)
            continue
        if isinstance(n, (ast.Subscript, ast.Compare)):
            continue
        if isinstance(n, ast.Call) and call_name(n) in _PROJECTION_FUNCS:
            # these hand on a summary of their arguments, not the arguments themselves:
            # apply_infer_dtype(op, ...) is a dtype -- it does not identify op
            continue
        if isinstance(n, (ast.ListComp, ast.SetComp, ast.GeneratorExp, ast.DictComp)):
            elts = [n.key, n.value] if isinstance(n, ast.DictComp) else [n.elt]
            inner = [nm for e in elts for nm in _names_whole(e)]
            targets = set()
            for g in n.generators:
                tn = {x.id for x in ast.walk(g.target) if isinstance(x, ast.Name)}
                # the iterated collection is passed on whole only if the element is
                if tn & set(inner):
                    stack.append(g.iter)
                targets |= tn
            out.extend(nm for nm in inner if nm not in targets)
            continue
        if isinstance(n, ast.IfExp):
            stack.extend([n.body, n.orelse])
            continue
        if isinstance(n, ast.Name) and isinstance(n.ctx, ast.Load):
            out.append(n.id)
        stack.extend(ast.iter_child_nodes(n))
    return out


def _names_skipping_handle_out(expr):
    """Load-names in expr, not descending into the first argument of handle_out(out, result):
    `out` is applied to the finished result there and does not shape the named tasks."""
    out = []
    stack = [expr]
    while stack:
        n = stack.pop()
        if isinstance(n, ast.Call) and call_name(n) in ("handle_out",) and n.args:
            stack.extend(n.args[1:])
            stack.extend(k.value for k in n.keywords)
            continue
        if isinstance(n, ast.Name) and isinstance(n.ctx, ast.Load):
            out.append(n.id)
        stack.extend(ast.iter_child_nodes(n))
    return out


_reach_memo: dict = {}


def _can_precede(func, a, b) -> bool:
    """Some execution runs the statement of `a` and later the statement of `b`."""
    from .cfg import cfg_of

    g = cfg_of(func)
    try:
        ia, ib = g.node_of(a), g.node_of(b)
    except Exception:
        return True
    key = (id(func), ia)
    r = _reach_memo.get(key)
    if r is None:
        r = set()
        st = list(g.succ[ia])
        while st:
            x = st.pop()
            if x in r:
                continue
            r.add(x)
            st.extend(g.succ[x])
        _reach_memo[key] = r
    return ib in r


def _controlling_tests(func, st):
    """Tests of the if/while statements of func that enclose statement st."""
    out = []
    n = getattr(st, "_parent", None)
    while n is not None and n is not func:
        if isinstance(n, (ast.If, ast.While)):
            out.append(n.test)
        elif isinstance(n, ast.IfExp):
            out.append(n.test)
        n = getattr(n, "_parent", None)
    return out


def slice_params(func, roots, at_nodes, depth=8, whole=False, control=False):
    """Parameters of func that may flow into the expressions `roots` (evaluated at statements
    `at_nodes`, parallel lists).  Follows plain assignments, tuple-unpackings, for-targets,
    augmented assignments and mutations (x.append(y), x[k] = y, x.update(y)) of names in the slice."""
    rd = reaching_of(func)
    params = set(param_names(func))
    found = set()
    seen = set()
    muts = mutations(func)
    work = []
    names_of = _names_whole if whole else _names_skipping_handle_out
    for r, at in zip(roots, at_nodes):
        for nm in names_of(r):
            work.append((nm, at, depth))
    while work:
        nm, at, d = work.pop()
        key = (nm, id(at))
        if key in seen or d <= 0:
            continue
        seen.add(key)
        defs = rd.reaching(at, nm)
        for name, val, st in defs:
            if val == "param":
                found.add(name)
                continue
            srcs = []
            if isinstance(val, ast.AST):
                srcs.append(val)
            elif isinstance(st, ast.Assign):
                srcs.append(st.value)
            elif isinstance(st, ast.AugAssign):
                srcs.append(st.value)
                work.append((nm, st, d - 1))
            elif isinstance(st, (ast.For, ast.AsyncFor)):
                srcs.append(st.iter)
            elif isinstance(st, (ast.With, ast.AsyncWith)):
                srcs.extend(i.context_expr for i in st.items)
            elif isinstance(st, ast.AnnAssign) and st.value is not None:
                srcs.append(st.value)
            for s in srcs:
                for nm2 in names_of(s):
                    work.append((nm2, st, d - 1))
            if control and isinstance(st, ast.AST):
                # a definition that only happens under a condition depends on that condition
                for t in _controlling_tests(func, st):
                    for nm2 in names_of(t):
                        work.append((nm2, st, d - 1))
        if nm in params and not defs:
            found.add(nm)
        # mutations of this name anywhere in the function contribute their arguments
        for mu in muts:
            if mu["base"] == nm and mu["kind"] in ("insert", "store"):
                n = mu["node"]
                # only mutations that can execute before the point of use
                if not _can_precede(func, n, at):
                    continue
                exprs = list(mu.get("args") or [])
                if mu["kind"] == "store":
                    exprs.append(n.value)
                for e in exprs:
                    for nm3 in names_of(e):
                        work.append((nm3, n, d - 1))
    return found & params


def token_calls(func):
    out = []
    for n in walk_no_nested(func):
        if isinstance(n, ast.Call):
            cn = call_name(n)
            if cn in TOKENIZERS or (cn and cn.split(".")[-1] in ("tokenize", "_tokenize_deterministic")):
                out.append(n)
    return out


def key_forming(func):
    """tokenize calls whose value ends up in a string that names something: inside an f-string,
    a '+' / .format / '%' expression, or assigned to a name containing 'token'/'name'."""
    out = []
    for c in token_calls(func):
        p = getattr(c, "_parent", None)
        ok = False
        while p is not None and not isinstance(p, ast.stmt):
            if isinstance(p, (ast.JoinedStr, ast.BinOp)) or (isinstance(p, ast.Call) and isinstance(p.func, ast.Attribute) and p.func.attr == "format"):
                ok = True
            p = getattr(p, "_parent", None)
        if isinstance(p, ast.Assign) and any(isinstance(t, ast.Name) and any(w in t.id.lower() for w in ("token", "name", "tok", "key")) for t in p.targets):
            ok = True
        if ok:
            out.append(c)
    return out


def analyse(func):
    """-> (token_params, built_params, calls) for a key-forming function, or None."""
    kc = key_forming(func)
    if not kc:
        return None
    roots, ats = [], []
    for c in kc:
        for a in list(c.args) + [k.value for k in c.keywords]:
            roots.append(a.value if isinstance(a, ast.Starred) else a)
            ats.append(c)
    tparams = slice_params(func, roots, ats, whole=True, control=CONTROL)
    # what the function builds: return values
    roots, ats = [], []
    for n in walk_no_nested(func):
        if isinstance(n, ast.Return) and n.value is not None:
            roots.append(n.value)
            ats.append(n)
    bparams = slice_params(func, roots, ats, control=CONTROL)
    return tparams, bparams, kc


CONTROL = True
