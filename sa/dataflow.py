"""Reaching definitions over the CFG, expression inlining (alias resolution), and
simple container provenance."""
from __future__ import annotations

import ast
import copy

from .cfg import CFG, cfg_of
from .srcmodel import (
    AnalysisError,
    Pat,
    _target_names,
    dotted,
    dump,
    clone,
    enclosing_function,
    unparse,
    walk_no_nested,
)

PARAM = "param"


def _defs_in_stmt(st) -> list[tuple[str, object]]:
    """(name, value-or-None) pairs defined by the *header* of statement ``st``."""
    out = []
    if isinstance(st, ast.Assign):
        for t in st.targets:
            if isinstance(t, ast.Name):
                out.append((t.id, st.value))
            else:
                for nm in _target_names(t):
                    out.append((nm, None))
    elif isinstance(st, ast.AnnAssign):
        if isinstance(st.target, ast.Name):
            out.append((st.target.id, st.value))
    elif isinstance(st, ast.AugAssign):
        for nm in _target_names(st.target):
            out.append((nm, None))
    elif isinstance(st, (ast.For, ast.AsyncFor)):
        for nm in _target_names(st.target):
            out.append((nm, None))
    elif isinstance(st, (ast.With, ast.AsyncWith)):
        for it in st.items:
            if it.optional_vars is not None:
                for nm in _target_names(it.optional_vars):
                    out.append((nm, None))
    elif isinstance(st, (ast.FunctionDef, ast.AsyncFunctionDef, ast.ClassDef)):
        out.append((st.name, None))
    elif isinstance(st, (ast.Import, ast.ImportFrom)):
        for a in st.names:
            out.append(((a.asname or a.name).split(".")[0], None))
    elif isinstance(st, ast.ExceptHandler):
        if st.name:
            out.append((st.name, None))
    # walrus anywhere in the header expressions
    hdr = _header_exprs(st)
    for h in hdr:
        for n in ast.walk(h):
            if isinstance(n, ast.NamedExpr):
                out.append((n.target.id, n.value))
    return out


def _header_exprs(st):
    if isinstance(st, (ast.If, ast.While)):
        return [st.test]
    if isinstance(st, (ast.For, ast.AsyncFor)):
        return [st.iter]
    if isinstance(st, (ast.With, ast.AsyncWith)):
        return [it.context_expr for it in st.items]
    if isinstance(st, (ast.Try, ast.FunctionDef, ast.AsyncFunctionDef, ast.ClassDef, ast.ExceptHandler)):
        return []
    if isinstance(st, ast.Match):
        return [st.subject]
    return [st] if isinstance(st, ast.AST) else []


class Reaching:
    """Flow-sensitive reaching definitions for the local names of one function."""

    def __init__(self, func):
        self.func = func
        self.cfg: CFG = cfg_of(func)
        g = self.cfg
        self.gen: dict[int, list[tuple[str, int]]] = {}
        self.defsite: dict[int, tuple[str, object, object]] = {}  # def id -> (name, value, stmt)
        did = 0
        entry_defs = []
        if hasattr(func, "args"):
            a = func.args
            for arg in a.posonlyargs + a.args + a.kwonlyargs + ([a.vararg] if a.vararg else []) + (
                [a.kwarg] if a.kwarg else []
            ):
                self.defsite[did] = (arg.arg, PARAM, arg)
                entry_defs.append((arg.arg, did))
                did += 1
        self.gen[g.entry] = entry_defs
        for n in g.nodes:
            st = None
            if n.kind == "stmt":
                st = n.ast
            elif n.kind == "branch" and n.label[0] == "except" and isinstance(n.ast, ast.ExceptHandler):
                st = n.ast
            if st is None:
                continue
            ds = []
            for name, val in _defs_in_stmt(st):
                self.defsite[did] = (name, val, st)
                ds.append((name, did))
                did += 1
            if ds:
                self.gen[n.idx] = ds
        self._gen_by_name: dict[int, dict[str, int]] = {}
        for i, ds in self.gen.items():
            d = {}
            for name, did_ in ds:
                d[name] = did_  # the last definition of a name in one statement wins
            self._gen_by_name[i] = d
        self._memo: dict[tuple[int, str], frozenset] = {}

    def _reach_in(self, i: int, name: str) -> frozenset:
        """Definitions of ``name`` reaching the *entry* of CFG node i (backward search)."""
        key = (i, name)
        r = self._memo.get(key)
        if r is not None:
            return r
        g = self.cfg
        found = set()
        seen = set()
        stack = list(g.pred[i])
        while stack:
            p = stack.pop()
            if p in seen:
                continue
            seen.add(p)
            d = self._gen_by_name.get(p, {}).get(name)
            if d is not None:
                found.add(d)
                continue
            stack.extend(g.pred[p])
        r = frozenset(found)
        self._memo[key] = r
        return r

    def reaching(self, node, name: str):
        """Definitions (name, value, stmt) of ``name`` reaching the statement that contains node."""
        idxs = self.cfg.nodes_of(node) if not isinstance(node, int) else [node]
        ds = set()
        for i in idxs:
            ds |= self._reach_in(i, name)
        return [self.defsite[d] for d in sorted(ds)]

    def unique_value(self, node, name: str):
        """The value expression if exactly one plain assignment reaches; else None."""
        r = self.reaching(node, name)
        if len(r) == 1 and isinstance(r[0][1], ast.AST):
            return r[0][1], r[0][2]
        return None

    def is_param(self, node, name: str) -> bool:
        r = self.reaching(node, name)
        return len(r) == 1 and r[0][1] is PARAM


_reach_cache: dict[int, Reaching] = {}


def reaching_of(func) -> Reaching:
    r = _reach_cache.get(id(func))
    if r is None or r.func is not func:
        r = Reaching(func)
        _reach_cache[id(func)] = r
    return r


_PURE_CALLS = {"len", "set", "list", "tuple", "dict", "frozenset", "sorted", "min", "max", "abs", "int", "str"}


def _side_effect_free(e) -> bool:
    for n in ast.walk(e):
        if isinstance(n, (ast.Await, ast.Yield, ast.YieldFrom, ast.NamedExpr)):
            return False
        if isinstance(n, ast.Call):
            nm = dotted(n.func)
            if nm in _PURE_CALLS:
                continue
            # method calls that only read
            if isinstance(n.func, ast.Attribute) and n.func.attr in ("get", "keys", "values", "items", "copy"):
                continue
            return False
    return True


_CONTAINER_CTORS = {"set", "list", "dict", "defaultdict", "deque", "OrderedDict", "frozenset", "Queue"}


def _fresh_container(val) -> bool:
    """A definition that creates a new mutable container: the name denotes an object
    that is mutated later, so it must not be replaced by its constructor."""
    if isinstance(val, (ast.List, ast.Dict, ast.Set, ast.ListComp, ast.SetComp, ast.DictComp)):
        return True
    if isinstance(val, ast.Call):
        nm = dotted(val.func)
        if nm and nm.split(".")[-1] in _CONTAINER_CTORS:
            return True
    return False


def inline(expr, at, func=None, depth: int = 4, pure_only: bool = True):
    """Return a copy of ``expr`` in which every local name whose unique reaching
    definition at statement ``at`` is a plain assignment is replaced by that value
    (recursively).  ``at`` is any ast node inside the statement of interest."""
    func = func or enclosing_function(at)
    if func is None:
        return expr
    rd = reaching_of(func)

    class T(ast.NodeTransformer):
        def __init__(self, at, depth):
            self.at = at
            self.depth = depth

        def visit_Name(self, n):
            if not isinstance(n.ctx, ast.Load) or self.depth <= 0:
                return n
            uv = rd.unique_value(self.at, n.id)
            if uv is None:
                return n
            val, st = uv
            if pure_only and not _side_effect_free(val):
                return n
            if isinstance(val, (ast.Lambda,)) or _fresh_container(val):
                return n
            sub = T(st, self.depth - 1)
            return sub.visit(clone(val))

        def visit_Lambda(self, n):
            return n

        def visit_ListComp(self, n):
            return n

        visit_SetComp = visit_DictComp = visit_GeneratorExp = visit_ListComp

    return T(at, depth).visit(clone(expr))


def inline_facts(func, node, depth: int = 4):
    """Facts at ``node`` with locals inlined at the point where each test was evaluated."""
    g = cfg_of(func)
    out = []
    idxs = g.nodes_of(node)
    if not idxs:
        raise AnalysisError(f"no CFG node for {unparse(node)[:60]!r}")
    from .cfg import _atoms

    per_instance = []
    for i in idxs:
        if i not in g.idom:
            continue
        facts = []
        for d in g.dominators(i):
            nd = g.nodes[d]
            if nd.kind == "branch" and nd.label[0] in ("if", "while"):
                origin, expr, outcome = nd.label
                hdr = g.pred[d][0]
                e2 = inline(expr, g.nodes[hdr].ast, func, depth)
                atoms = []
                _atoms(e2, bool(outcome), atoms)
                raw = []
                _atoms(expr, bool(outcome), raw)
                facts.extend(atoms)
                for r in raw:
                    facts.append(r)
        per_instance.append(facts)
    if not per_instance:
        return []
    res = per_instance[0]
    for other in per_instance[1:]:
        keys = {(dump(e), p) for e, p in other}
        res = [(e, p) for e, p in res if (dump(e), p) in keys]
    # de-duplicate
    seen = set()
    uniq = []
    for e, p in res:
        k = (dump(e), p)
        if k not in seen:
            seen.add(k)
            uniq.append((e, p))
    return uniq


def has_fact(facts, pattern: str | Pat, polarity: bool, binds=None):
    """First binding dict if some fact matches ``pattern`` with ``polarity``."""
    p = pattern if isinstance(pattern, Pat) else Pat(pattern)
    for e, pol in facts:
        if pol == polarity:
            b = p.match(e, binds)
            if b is not None:
                return b
    return None


def fact_strs(facts):
    return [("" if p else "not ") + "(" + unparse(e) + ")" for e, p in facts]


# --------------------------------------------------------------------------- container provenance

_INSERT_METHODS = {"add", "append", "insert", "extend", "update", "appendleft", "setdefault"}
_REMOVE_METHODS = {"remove", "discard", "pop", "popitem", "clear", "popleft"}


def method_aliases(func) -> dict[str, tuple[str, str]]:
    """Local aliases of bound methods: ``deps_pop = deps.pop`` -> {"deps_pop": ("deps","pop")}."""
    out = {}
    for n in walk_no_nested(func):
        if isinstance(n, ast.Assign) and len(n.targets) == 1 and isinstance(n.targets[0], ast.Name):
            v = n.value
            if isinstance(v, ast.Attribute) and dotted(v.value) is not None:
                out[n.targets[0].id] = (dotted(v.value), v.attr)
    return out


def mutations(func, nested=False):
    """All container mutations in func: list of dicts
    {kind: insert|remove|store|delete, base: dotted-name, method, node, args, key}"""
    out = []
    aliases = method_aliases(func)
    it = ast.walk(func) if nested else walk_no_nested(func)
    for n in it:
        if isinstance(n, ast.Call):
            base = meth = None
            if isinstance(n.func, ast.Attribute):
                base = dotted(n.func.value) or unparse(n.func.value)
                meth = n.func.attr
            elif isinstance(n.func, ast.Name) and n.func.id in aliases:
                base, meth = aliases[n.func.id]
            if meth in _INSERT_METHODS:
                out.append(dict(kind="insert", base=base, method=meth, node=n, args=n.args))
            elif meth in _REMOVE_METHODS:
                out.append(dict(kind="remove", base=base, method=meth, node=n, args=n.args))
        elif isinstance(n, (ast.Assign, ast.AugAssign, ast.AnnAssign)):
            targets = n.targets if isinstance(n, ast.Assign) else [n.target]
            for t in targets:
                for tt in ([t] if not isinstance(t, (ast.Tuple, ast.List)) else t.elts):
                    if isinstance(tt, ast.Subscript):
                        base = dotted(tt.value) or unparse(tt.value)
                        out.append(dict(kind="store", base=base, method="[]=", node=n, key=tt.slice, args=[tt.slice]))
        elif isinstance(n, ast.Delete):
            for t in n.targets:
                if isinstance(t, ast.Subscript):
                    base = dotted(t.value) or unparse(t.value)
                    out.append(dict(kind="delete", base=base, method="del[]", node=n, key=t.slice, args=[t.slice]))
    out.sort(key=lambda d: (getattr(d["node"], "lineno", 0), getattr(d["node"], "col_offset", 0)))
    return out
