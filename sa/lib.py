"""Small query helpers shared by the rule modules."""
from __future__ import annotations

import ast

from .cfg import cfg_of
from .dataflow import inline, inline_facts, has_fact, fact_strs, reaching_of, mutations
from .srcmodel import (
    AnalysisError,
    AnchorMissing,
    Pat,
    call_name,
    const,
    dotted,
    dump,
    enclosing_function,
    enclosing_stmt,
    enclosing_class,
    module_of,
    qualname_of,
    same,
    unparse,
    walk_no_nested,
)


def find(pattern: str, root, nested=True):
    return Pat(pattern).find(root, nested=nested)


def eqv(node, text: str) -> bool:
    """node is the expression/statement `text` -- exactly, or up to a consistent renaming of local
    variables that no longer occur in the enclosing function (see srcmodel._soft_binds)."""
    if node is None:
        return False
    if unparse(node) == text:
        return True
    try:
        return Pat(text).match(node) is not None
    except (SyntaxError, AssertionError):
        return False


def find1(pattern: str, root, what: str = ""):
    r = Pat(pattern).find(root)
    if not r:
        raise AnchorMissing(f"pattern {pattern!r} not found in {getattr(root, 'name', '?')} {what}")
    return r[0]


def control_equivalent(func, a, b) -> bool:
    """Statements containing a and b execute together: a dominates b and b post-dominates a
    (or the other way round), considering normal (non-exceptional) paths."""
    g = cfg_of(func)
    ia, ib = g.node_of(a), g.node_of(b)
    if ia == ib:
        return True
    return (g.dominates(ia, ib) and g.postdominates(ib, ia)) or (g.dominates(ib, ia) and g.postdominates(ia, ib))


def dominates(func, a, b) -> bool:
    g = cfg_of(func)
    return g.dominates(g.node_of(a), g.node_of(b))


def postdominates(func, a, b) -> bool:
    g = cfg_of(func)
    return g.postdominates(g.node_of(a), g.node_of(b))


def enclosing_loops(node):
    out = []
    n = getattr(node, "_parent", None)
    while n is not None and not isinstance(n, (ast.FunctionDef, ast.AsyncFunctionDef, ast.Lambda)):
        if isinstance(n, (ast.For, ast.While, ast.AsyncFor)):
            # only if node is in body (not in the header or orelse)
            out.append(n)
        n = getattr(n, "_parent", None)
    return out


def in_subtree(node, root) -> bool:
    n = node
    while n is not None:
        if n is root:
            return True
        n = getattr(n, "_parent", None)
    return False


def calls(root, name: str | None = None, nested=True):
    it = ast.walk(root) if nested else walk_no_nested(root)
    out = []
    for n in it:
        if isinstance(n, ast.Call):
            if name is None or call_name(n) == name or (
                isinstance(n.func, ast.Attribute) and n.func.attr == name
            ):
                out.append(n)
    out.sort(key=lambda n: (n.lineno, n.col_offset))
    return out


def kwarg(call: ast.Call, name: str):
    for k in call.keywords:
        if k.arg == name:
            return k.value
    return None


def arg_or_kw(call: ast.Call, pos: int, name: str):
    if len(call.args) > pos and not any(isinstance(a, ast.Starred) for a in call.args[: pos + 1]):
        return call.args[pos]
    return kwarg(call, name)


def returns(func):
    return [n for n in walk_no_nested(func) if isinstance(n, ast.Return)]


def str_set(node) -> set | None:
    """Set of constants in a tuple/list/set literal, else None."""
    if isinstance(node, (ast.Tuple, ast.List, ast.Set)):
        vals = [const(e) for e in node.elts]
        if all(isinstance(v, (str, int, float, bool, type(None))) for v in vals):
            return set(vals)
    return None


def norm(expr, at=None, func=None, depth=4) -> str:
    """Normalised text of an expression with locals inlined."""
    if at is not None:
        expr = inline(expr, at, func, depth)
    return unparse(expr)


def first_line(node) -> int:
    return getattr(node, "lineno", 0)


def dict_literal_keys(node) -> dict | None:
    if isinstance(node, ast.Dict):
        out = {}
        for k, v in zip(node.keys, node.values):
            if k is None or not isinstance(k, ast.Constant):
                return None
            out[k.value] = v
        return out
    if isinstance(node, ast.Call) and call_name(node) == "dict" and not node.args:
        return {k.arg: k.value for k in node.keywords if k.arg}
    return None


def bind_call(call: ast.Call, funcdef) -> dict:
    """Map parameter names of funcdef to the argument expressions of call.
    Starred/double-starred arguments are recorded under '*' / '**'."""
    a = funcdef.args
    pos = [x.arg for x in a.posonlyargs + a.args]
    out = {}
    i = 0
    for arg in call.args:
        if isinstance(arg, ast.Starred):
            out["*"] = arg.value
            break
        if i < len(pos):
            out[pos[i]] = arg
        elif a.vararg:
            out.setdefault("*" + a.vararg.arg, []).append(arg)
        i += 1
    for k in call.keywords:
        if k.arg is None:
            out["**"] = k.value
        else:
            out[k.arg] = k.value
    return out


def is_unmodified_param(func, at, expr, pname: str) -> bool:
    """expr, evaluated at statement `at` of func, is exactly the parameter `pname`."""
    return isinstance(expr, ast.Name) and expr.id == pname and reaching_of(func).is_param(at, pname)


def try_of(node, part: str | None = None):
    """Innermost enclosing ast.Try of node (optionally requiring node to be in `part`:
    'body' | 'handlers' | 'finalbody' | 'orelse')."""
    child = node
    n = getattr(node, "_parent", None)
    while n is not None and not isinstance(n, (ast.FunctionDef, ast.AsyncFunctionDef, ast.Lambda)):
        if isinstance(n, ast.Try):
            for p in ("body", "handlers", "orelse", "finalbody"):
                if any(child is x for x in getattr(n, p)):
                    if part is None or p == part:
                        return n, p
        child = n
        n = getattr(n, "_parent", None)
    return None, None


def tuple_len(node):
    if isinstance(node, ast.Tuple):
        return len(node.elts)
    return None


def resolve(expr, at, func=None, steps: int = 3):
    """Follow a plain local name to the value of its unique reaching assignment
    (also for calls and fresh containers, which `inline` leaves alone)."""
    func = func or enclosing_function(at)
    rd = reaching_of(func)
    cur, where = expr, at
    for _ in range(steps):
        if not isinstance(cur, ast.Name):
            break
        uv = rd.unique_value(where, cur.id)
        if uv is None:
            break
        cur, where = uv
    return cur


def derives_from(func, at, expr, pname: str, depth: int = 6) -> bool:
    """Every way `expr` can be computed at `at` mentions parameter `pname`: expr names the
    (unmodified) parameter, or contains a local all of whose reaching definitions do."""
    if depth <= 0:
        return False
    rd = reaching_of(func)
    for n in ast.walk(expr):
        if isinstance(n, ast.Name) and isinstance(n.ctx, ast.Load):
            defs = rd.reaching(at, n.id)
            if not defs:
                continue
            if n.id == pname and all(v == "param" for _, v, _ in defs):
                return True
            if all(
                (v == "param" and nm_ == pname) or (isinstance(v, ast.AST) and derives_from(func, st, v, pname, depth - 1))
                for nm_, v, st in defs
            ):
                return True
    return False


def all_defs(expr, at, func=None):
    """Value expressions of every reaching definition of a plain name (or [expr] itself)."""
    func = func or enclosing_function(at)
    if not isinstance(expr, ast.Name):
        return [expr]
    out = []
    for nm, val, st in reaching_of(func).reaching(at, expr.id):
        out.append(val if isinstance(val, ast.AST) else None)
    return out or [expr]


def none_default_rebinds(func):
    """For every parameter of func whose default is None: the statements `p = <expr>` that rebind it,
    with the facts that guard them.  Yields (assign node, param name, guarded_by_is_none: bool, facts)."""
    a = func.args
    pos = a.posonlyargs + a.args
    defaults = [None] * (len(pos) - len(a.defaults)) + list(a.defaults)
    none_params = {p.arg for p, d in zip(pos, defaults) if isinstance(d, ast.Constant) and d.value is None}
    none_params |= {p.arg for p, d in zip(a.kwonlyargs, a.kw_defaults) if isinstance(d, ast.Constant) and d.value is None}
    out = []
    for n in walk_no_nested(func):
        if isinstance(n, ast.Assign) and len(n.targets) == 1 and isinstance(n.targets[0], ast.Name) and n.targets[0].id in none_params:
            p = n.targets[0].id
            facts = inline_facts(func, n)
            raw = cfg_of(func).facts(n)
            by_none = any(unparse(e) == f"{p} is None" and pol for e, pol in raw)
            by_truth = any(unparse(e) == p and pol is False for e, pol in raw)
            out.append((n, p, by_none, by_truth, raw))
    return out
