"""Witness self-test on in-memory overlays of the *current* tree (thorough tier).

A rule module lists ``VARIANTS``: (relpath, old_text, new_text, expected_rule_fragment).
Each breaking variant replaces one occurrence of old_text in the current source of
relpath (in memory only) and the property's quick check must then report a violation
whose rule name contains expected_rule_fragment.  A variant whose old_text no longer
occurs exactly once in the current tree is reported as "stale" (the code moved on) and
is neither a pass nor a failure of the repository; it lowers variants_applicable.

Preserving variants: every consulted module is re-formatted through ast.unparse
(comments, layout and parenthesisation vanish) and the verdict must not change.
"""
from __future__ import annotations

import ast

from .srcmodel import AnalysisError, Model


def selftest(ctx, prop, variants, preserve=True):
    from .__main__ import run_check

    root = ctx.model.root
    base_overlay = dict(ctx.model.overlay)
    fired = 0
    applicable = 0
    stale = []
    missed = []
    samples = []
    for rel, old, new, expect in variants:
        src = base_overlay.get(rel) or open(f"{root}/{rel}", encoding="utf-8").read()
        if src.count(old) != 1:
            stale.append(f"{rel}: {old[:50]!r}")
            continue
        applicable += 1
        ov = dict(base_overlay)
        ov[rel] = src.replace(old, new)
        try:
            ast.parse(ov[rel])
        except SyntaxError:
            raise AnalysisError(f"self-test variant does not parse: {rel}: {old[:40]!r}")
        rc, c2 = run_check(prop, "quick", root, overlay=ov, quiet=True, write=False)
        rules = [o.rule for o in c2.obligations if o.status == "violated" and not o.finding]
        if rc == 1 and any(expect in r for r in rules):
            fired += 1
            if len(samples) < 6:
                samples.append({"variant": f"{rel}: {old.strip()[:60]!r} -> {new.strip()[:60]!r}", "reported": [r for r in rules if expect in r][:2]})
        else:
            missed.append(f"{rel}: {old.strip()[:50]!r} -> {new.strip()[:50]!r} (rc={rc}, rules={rules[:3]})")
    stable = total_p = 0
    if preserve:
        base_rc, base_ctx = run_check(prop, "quick", root, overlay=base_overlay, quiet=True, write=False)
        base_v = sorted(o.key() for o in base_ctx.obligations if o.status != "discharged")
        ov = dict(base_overlay)
        for rel in sorted(ctx.model.consulted):
            if rel in ov:
                continue
            src = open(f"{root}/{rel}", encoding="utf-8").read()
            ov[rel] = ast.unparse(ast.parse(src))
        total_p = 1
        rc2, c2 = run_check(prop, "quick", root, overlay=ov, quiet=True, write=False)
        v2 = sorted(o.key() for o in c2.obligations if o.status != "discharged")
        if rc2 == base_rc and v2 == base_v:
            stable = 1
        else:
            missed.append(f"verdict changed under ast.unparse re-formatting: rc {base_rc} -> {rc2}; {v2[:2]}")
    res = {
        "variants_total": len(variants),
        "variants_applicable": applicable,
        "variants_fired": fired,
        "variants_stale": stale,
        "preserving_variants_stable": stable,
        "preserving_variants_total": total_p,
        "variant_samples": samples,
    }
    if missed:
        raise AnalysisError("witness self-test failed (the checker, not the repository): " + " | ".join(missed))
    return res
