"""CLI:  python -m sa check <id> [--tier quick|thorough] [--root /repo]
         python -m sa explain <report.json>
         python -m sa all [--tier quick]          (development helper)

Exit codes: 0 all obligations discharged (known findings printed), 1 VIOLATION,
2 ANALYSIS-ERROR (anchor vanished / idiom not recognised / vacuity guard / crash).
"""
from __future__ import annotations

import importlib
import json
import os
import sys
import time
import traceback

from .report import Ctx, VERIF, apply_known, load_known, write_outputs
from .srcmodel import AnalysisError, Model


def run_check(prop: str, tier: str, root: str, overlay=None, quiet=False, write=True):
    t0 = time.time()
    seed = int(os.environ.get("VERIF_SEED", "0") or 0)
    model = Model(root, overlay)
    ctx = Ctx(prop, model, tier)
    try:
        mod = importlib.import_module(f"sa.rules.{prop}")
    except ModuleNotFoundError:
        print(f"ANALYSIS-ERROR property={prop} no rule module")
        return 2, ctx
    err = None
    try:
        mod.check(ctx)
        from . import common

        common.check(ctx)
        if tier == "thorough" and hasattr(mod, "check_thorough"):
            mod.check_thorough(ctx)
    except AnalysisError as e:
        err = f"{type(e).__name__}: {e}"
    except Exception as e:  # a crash of the analysis is never a verdict
        err = "crash: " + "".join(traceback.format_exception_only(type(e), e)).strip()
        if os.environ.get("SA_DEBUG"):
            traceback.print_exc()
    if err is None and ctx.floor_failures:
        err = "AnalysisError: " + "; ".join(ctx.floor_failures[:3])
    apply_known(ctx.obligations, load_known())
    if not write:
        viol = any(o.status == "violated" and not o.finding for o in ctx.obligations)
        unrec = any(o.status == "unrecognised" for o in ctx.obligations)
        return (1 if viol else (2 if err or unrec else 0)), ctx
    extra = {}
    if tier == "thorough" and err is None and hasattr(mod, "selftest"):
        try:
            extra = mod.selftest(ctx) or {}
        except AnalysisError as e:
            err = f"selftest: {e}"
        except Exception as e:
            err = "selftest crash: " + "".join(traceback.format_exception_only(type(e), e)).strip()
            if os.environ.get("SA_DEBUG"):
                traceback.print_exc()
    report_path, violated, known, unrec = write_outputs(
        ctx,
        time.time() - t0,
        seed,
        getattr(mod, "EXPLANATION", ""),
        list(getattr(mod, "ASSUMPTIONS", [])),
        extra=extra,
        analysis_error=err,
    )
    if not quiet:
        print(
            f"[sa] property={prop} tier={tier} root={root} modules={len(model.consulted)} "
            f"obligations={len(ctx.obligations)} discharged={sum(o.status == 'discharged' for o in ctx.obligations)} "
            f"counters={json.dumps(ctx.counters, sort_keys=True)}"
        )
        for n in ctx.notes:
            print(f"NOTE: {n}")
        for o in known:
            print(f"KNOWN-FINDING: property={prop} {o.finding} {o.rule} at {o.site}: {o.detail}")
        for o in violated:
            print(f"  violated {o.rule} at {o.site}:{o.line} [{o.construct}] {o.detail}")
        for o in unrec:
            print(f"  unrecognised {o.rule} at {o.site}:{o.line} [{o.construct}] {o.detail}")
    if violated:
        print(f"VIOLATION property={prop} replay={report_path}")
        return 1, ctx
    if err or unrec:
        print(f"ANALYSIS-ERROR property={prop} {err or 'unrecognised idiom at ' + unrec[0].site} report={report_path}")
        return 2, ctx
    return 0, ctx


def main(argv):
    if not argv:
        print(__doc__)
        return 2
    cmd = argv[0]
    args = argv[1:]
    root = os.environ.get("SA_ROOT", "/repo")
    tier = os.environ.get("VERIF_TIER", "quick")
    pos = []
    i = 0
    while i < len(args):
        if args[i] == "--tier":
            tier = args[i + 1]
            i += 2
        elif args[i] == "--root":
            root = args[i + 1]
            i += 2
        else:
            pos.append(args[i])
            i += 1
    if cmd == "check":
        rc, _ = run_check(pos[0], tier, root)
        return rc
    if cmd == "all":
        rules = sorted(f[:-3] for f in os.listdir(os.path.join(VERIF, "sa", "rules")) if f.startswith("C") and f.endswith(".py"))
        worst = 0
        for p in pos or rules:
            rc, _ = run_check(p, tier, root)
            worst = max(worst, rc)
        return worst
    if cmd == "selfcheck":
        # setup_cmd: verify the interpreter and that /repo parses
        m = Model(root)
        n = 0
        for rel in m.package_files("dask"):
            m.module(rel)
            n += 1
        print(f"[sa] selfcheck: parsed {n} modules under {root}/dask with {sys.version.split()[0]}")
        return 0
    if cmd == "explain":
        with open(pos[0]) as f:
            rep = json.load(f)
        print(f"property {rep['property']} tier {rep['tier']} root {rep['root']} digest {rep['root_digest']}")
        for k in ("violations", "known", "unrecognised"):
            for o in rep[k]:
                print(f"{k[:-1] if k.endswith('s') else k}: {o['rule']} at {o['site']}:{o['line']}\n    construct: {o['construct']}\n    {o['detail']}")
        if rep.get("analysis_error"):
            print("analysis error:", rep["analysis_error"])
        return 0
    print(__doc__)
    return 2


if __name__ == "__main__":
    try:
        rc = main(sys.argv[1:])
    except Exception:
        traceback.print_exc()
        print("ANALYSIS-ERROR driver crashed")
        rc = 2
    sys.exit(rc)
