"""Source model: parsed modules of /repo (through an optional in-memory overlay),
import resolution, class hierarchy with C3 MRO, attribute lookup through the MRO,
and a small structural pattern matcher over ``ast``.

Nothing here imports or executes dask: everything is derived from source text.
"""
from __future__ import annotations

import ast
import hashlib
import os
import re
from typing import Iterator


class AnalysisError(Exception):
    """The analysis itself cannot proceed (anchor vanished, idiom unknown).

    Mapped to exit code 2 (ANALYSIS-ERROR) -- never to a pass and never to a violation.
    """


class AnchorMissing(AnalysisError):
    pass


# --------------------------------------------------------------------------- helpers


def unparse(node) -> str:
    if node is None:
        return "None"
    if isinstance(node, list):
        return "; ".join(unparse(n) for n in node)
    try:
        return ast.unparse(node)
    except Exception:  # pragma: no cover
        return ast.dump(node)


_CTX_RE = re.compile(r",? ?(Load|Store|Del)\(\)")


def dump(node) -> str:
    """Structural identity of an expression (positions and load/store context ignored)."""
    return _CTX_RE.sub("", ast.dump(node, annotate_fields=False, include_attributes=False))


def same(a, b) -> bool:
    return dump(a) == dump(b)


def clone(node):
    """Deep copy of an ast subtree by fields only (parent/module back-links are not followed)."""
    if isinstance(node, ast.AST):
        new = type(node).__new__(type(node))
        for f in node._fields:
            if hasattr(node, f):
                setattr(new, f, clone(getattr(node, f)))
        for a in ("lineno", "col_offset", "end_lineno", "end_col_offset"):
            if hasattr(node, a):
                setattr(new, a, getattr(node, a))
        return new
    if isinstance(node, list):
        return [clone(x) for x in node]
    return node


def dotted(node) -> str | None:
    """``a.b.c`` for Name/Attribute chains, else None."""
    parts = []
    while isinstance(node, ast.Attribute):
        parts.append(node.attr)
        node = node.value
    if isinstance(node, ast.Name):
        parts.append(node.id)
        return ".".join(reversed(parts))
    return None


def call_name(call: ast.Call) -> str | None:
    return dotted(call.func)


def const(node):
    """Python value of a literal constant node, or a unique sentinel."""
    if isinstance(node, ast.Constant):
        return node.value
    return _NOCONST


class _NoConst:
    def __repr__(self):
        return "<not-constant>"


_NOCONST = _NoConst()


def is_const(node) -> bool:
    return isinstance(node, ast.Constant)


def walk_no_nested(node, *, into_lambda=True) -> Iterator[ast.AST]:
    """Walk the body of a function without descending into nested defs/classes."""
    stack = list(ast.iter_child_nodes(node))
    while stack:
        n = stack.pop()
        yield n
        if isinstance(n, (ast.FunctionDef, ast.AsyncFunctionDef, ast.ClassDef)):
            continue
        if isinstance(n, ast.Lambda) and not into_lambda:
            continue
        stack.extend(ast.iter_child_nodes(n))


def subscript_key(node):
    """For ``x["k"]`` return ("x", "k") (x a dotted name); else None."""
    if isinstance(node, ast.Subscript):
        base = dotted(node.value)
        k = const(node.slice)
        if base is not None and isinstance(k, str):
            return (base, k)
    return None


def stmt_lines(node) -> int:
    return getattr(node, "lineno", 0)


# --------------------------------------------------------------------------- pattern matcher


class Pat:
    """Structural pattern over ast.  Metavariables are names starting with ``M_``:
    ``M_x`` binds any expression (consistently), ``M__`` is an anonymous wildcard.
    ``M_x`` in *attribute* position (``a.M_x``) binds the attribute string.
    A call pattern ending in ``*M_rest`` (any metavariable starting with ``M_r``) as a
    starred argument (``f(a, *M_rest)``) accepts any remaining positional and keyword
    arguments; other starred metavariables match a starred argument.
    """

    def __init__(self, src: str, mode: str = "auto"):
        self.src = src
        tree = ast.parse(src.strip())
        assert len(tree.body) == 1, src
        st = tree.body[0]
        if isinstance(st, ast.Expr) and mode != "stmt":
            self.node = st.value
        else:
            self.node = st

    def _exact(self, node, binds=None):
        b = dict(binds or {})
        if _match(self.node, node, b):
            return {k: v for k, v in b.items() if not k.startswith(("__", "~"))}
        return None

    def match(self, node, binds=None):
        b = self._exact(node, binds)
        if b is not None:
            return b
        sb = _soft_binds(self.node, node)
        if sb is not None:
            sb.update(binds or {})
            return self._exact(node, sb)
        return None

    def _scan(self, root, nested, binds):
        out = []
        it = ast.walk(root) if nested else _walk_same_scope(root)
        for n in it:
            if type(n) is type(self.node) or _is_meta(self.node):
                b = self._exact(n, binds)
                if b is not None:
                    out.append((n, b))
        return out

    def find(self, root, *, nested=True):
        """All (node, bindings) under root (root included) that match.  If nothing matches exactly,
        a second pass lets pattern names that no longer occur anywhere in the enclosing function stand
        for a (consistently) renamed local variable -- see _soft_binds."""
        out = self._scan(root, nested, None)
        if not out:
            soft = _soft_binds(self.node, root)
            if soft is not None:
                out = self._scan(root, nested, soft)
        out.sort(key=lambda nb: (getattr(nb[0], "lineno", 0), getattr(nb[0], "col_offset", 0)))
        return out

    def __repr__(self):
        return f"Pat({self.src!r})"


def _walk_same_scope(root):
    yield root
    yield from walk_no_nested(root)


def _is_meta(p):
    return isinstance(p, ast.Name) and p.id.startswith("M_")


import builtins as _builtins

_BUILTIN_NAMES = frozenset(dir(_builtins))
_SCOPE_CACHE: dict = {}


def _outer_function(node):
    n, outer = node, None
    while n is not None:
        if isinstance(n, (ast.FunctionDef, ast.AsyncFunctionDef)):
            outer = n
        n = getattr(n, "_parent", None)
    return outer


def _scope_facts(fn):
    """(every identifier occurring in fn, names bound locally in fn incl. parameters and nested defs)."""
    got = _SCOPE_CACHE.get(id(fn))
    if got is not None and got[0] is fn:
        return got[1], got[2]
    occurring, bound = set(), set()
    for x in ast.walk(fn):
        if isinstance(x, ast.Name):
            occurring.add(x.id)
            if isinstance(x.ctx, (ast.Store, ast.Del)):
                bound.add(x.id)
        elif isinstance(x, ast.arg):
            occurring.add(x.arg)
            bound.add(x.arg)
        elif isinstance(x, (ast.FunctionDef, ast.AsyncFunctionDef)) and x is not fn:
            bound.add(x.name)
        elif isinstance(x, ast.ExceptHandler) and x.name:
            bound.add(x.name)
        elif isinstance(x, (ast.Global, ast.Nonlocal)):
            occurring.update(x.names)
        elif isinstance(x, ast.alias):
            occurring.add((x.asname or x.name).split(".")[0])
    _SCOPE_CACHE[id(fn)] = (fn, occurring, bound)
    return occurring, bound


def _soft_binds(pattern_node, target):
    """Rename tolerance.  A name of the pattern that occurs nowhere in the function that contains
    ``target`` (and is no builtin, module-level name or import there) can only have been renamed: it may
    then match one local variable of that function, consistently, and two such names never match the
    same variable.  Names that still occur keep their meaning, so a swapped pair of operands does not
    match.  Returns the initial bindings for such a soft match, or None if there is nothing soft."""
    fn = _outer_function(target)
    if fn is None:
        return None
    occurring, bound = _scope_facts(fn)
    try:
        mod = module_of(fn)
        globs = set(mod.defs) | set(mod.imports) | {t.id for st in mod.tree.body if isinstance(st, ast.Assign) for t in st.targets if isinstance(t, ast.Name)}
    except Exception:
        globs = set()
    pnames = {x.id for x in ast.walk(pattern_node) if isinstance(x, ast.Name) and not x.id.startswith("M_")}
    soft = {nm for nm in pnames if nm not in occurring and nm not in _BUILTIN_NAMES and nm not in globs and nm not in ("self", "cls")}
    if not soft:
        return None
    return {"__soft__": soft, "__locals__": bound - pnames, }


def _match(p, n, b) -> bool:
    soft = b.get("__soft__")
    if soft and isinstance(p, ast.Name) and p.id in soft:
        if not isinstance(n, ast.Name) or n.id not in b["__locals__"]:
            return False
        key = "~" + p.id
        if key in b:
            return b[key] == n.id
        if any(k.startswith("~") and v == n.id for k, v in b.items()):
            return False
        b[key] = n.id
        return True
    if _is_meta(p):
        if not isinstance(n, ast.AST):
            return False
        if p.id == "M__":
            return True
        if p.id in b:
            prev = b[p.id]
            return isinstance(prev, ast.AST) and same(prev, n)
        b[p.id] = n
        return True
    if isinstance(p, ast.AST):
        if type(p) is not type(n):
            return False
        if isinstance(p, ast.Call):
            return _match_call(p, n, b)
        if isinstance(p, ast.Attribute) and p.attr.startswith("M_"):
            if not _match(p.value, n.value, b):
                return False
            if p.attr == "M__":
                return True
            if p.attr in b:
                return b[p.attr] == n.attr
            b[p.attr] = n.attr
            return True
        for f in p._fields:
            if f in ("ctx", "type_comment", "kind", "type_params"):
                continue
            if not _match(getattr(p, f, None), getattr(n, f, None), b):
                return False
        return True
    if isinstance(p, list):
        if not isinstance(n, list) or len(p) != len(n):
            return False
        return all(_match(x, y, b) for x, y in zip(p, n))
    return p == n


def _match_call(p: ast.Call, n: ast.Call, b) -> bool:
    if not _match(p.func, n.func, b):
        return False
    pargs = list(p.args)
    rest = False
    if pargs and isinstance(pargs[-1], ast.Starred) and _is_meta(pargs[-1].value) and pargs[-1].value.id.startswith("M_r"):
        rest = True
        pargs = pargs[:-1]
    if rest:
        if len(n.args) < len(pargs):
            return False
    elif len(n.args) != len(pargs):
        return False
    for x, y in zip(pargs, n.args):
        if not _match(x, y, b):
            return False
    nk = {k.arg: k.value for k in n.keywords}
    for k in p.keywords:
        if k.arg not in nk or not _match(k.value, nk[k.arg], b):
            return False
    if not rest and len(p.keywords) != len(n.keywords):
        return False
    return True


# --------------------------------------------------------------------------- modules


class Module:
    def __init__(self, model: "Model", relpath: str, source: str):
        self.model = model
        self.relpath = relpath
        self.modname = relpath[:-3].replace("/", ".")
        if self.modname.endswith(".__init__"):
            self.modname = self.modname[: -len(".__init__")]
        self.source = source
        try:
            self.tree = ast.parse(source, filename=relpath)
        except SyntaxError as e:
            raise AnalysisError(f"{relpath}: does not parse: {e}") from e
        if not os.environ.get("SA_NO_ALPHA"):
            from . import alpha

            alpha.strip_local_annotations(self.tree)
            self.renamed_back = alpha.normalise(self.tree, relpath)
        self.defs: dict[str, ast.AST] = {}
        self.imports: dict[str, str] = {}
        self._index(self.tree, "", None)
        self._collect_imports()

    # -- indexing
    def _index(self, node, prefix, parent):
        for child in ast.iter_child_nodes(node):
            child._parent = node  # type: ignore[attr-defined]
            child._module = self  # type: ignore[attr-defined]
            if isinstance(child, (ast.FunctionDef, ast.AsyncFunctionDef, ast.ClassDef)):
                qn = prefix + child.name
                child._qualname = qn  # type: ignore[attr-defined]
                # first definition wins only if no later redefinition in same scope;
                # python semantics: the last one wins.
                self.defs[qn] = child
                self._index(child, qn + ".", child)
            else:
                self._index(child, prefix, parent)

    def _collect_imports(self):
        pkg = self.modname if self.relpath.endswith("__init__.py") else self.modname.rpartition(".")[0]
        for node in ast.walk(self.tree):
            if isinstance(node, ast.Import):
                for a in node.names:
                    if a.asname:
                        self.imports[a.asname] = a.name
                    else:
                        top = a.name.split(".")[0]
                        self.imports.setdefault(top, top)
            elif isinstance(node, ast.ImportFrom):
                base = node.module or ""
                if node.level:
                    parts = pkg.split(".") if pkg else []
                    up = node.level - 1
                    if up:
                        parts = parts[:-up]
                    base = ".".join(parts + ([node.module] if node.module else []))
                for a in node.names:
                    if a.name == "*":
                        self.imports.setdefault("*", "")
                        self.imports["*"] += ("," if self.imports["*"] else "") + base
                    else:
                        self.imports[a.asname or a.name] = f"{base}.{a.name}"

    # -- lookup
    def has(self, qualname: str) -> bool:
        return qualname in self.defs

    def get(self, qualname: str):
        if qualname not in self.defs:
            raise AnchorMissing(f"{self.relpath}: no definition named {qualname!r}")
        return self.defs[qualname]

    def func(self, qualname: str) -> ast.FunctionDef:
        n = self.get(qualname)
        if not isinstance(n, (ast.FunctionDef, ast.AsyncFunctionDef)):
            raise AnchorMissing(f"{self.relpath}: {qualname!r} is not a function")
        return n

    def cls(self, qualname: str) -> ast.ClassDef:
        n = self.get(qualname)
        if not isinstance(n, ast.ClassDef):
            raise AnchorMissing(f"{self.relpath}: {qualname!r} is not a class")
        return n

    def functions(self):
        for qn, n in self.defs.items():
            if isinstance(n, (ast.FunctionDef, ast.AsyncFunctionDef)):
                yield qn, n

    def classes(self):
        for qn, n in self.defs.items():
            if isinstance(n, ast.ClassDef):
                yield qn, n

    def toplevel_assign(self, name: str):
        """Value node of the last top-level ``name = value`` (also AnnAssign)."""
        val = None
        for st in self.tree.body:
            if isinstance(st, ast.Assign):
                for t in st.targets:
                    if isinstance(t, ast.Name) and t.id == name:
                        val = st.value
            elif isinstance(st, ast.AnnAssign) and isinstance(st.target, ast.Name):
                if st.target.id == name and st.value is not None:
                    val = st.value
        return val

    def site(self, node) -> str:
        return f"{self.relpath}::{qualname_of(node)}"


def qualname_of(node) -> str:
    """Qualified name of the innermost enclosing def/class of ``node``."""
    n = node
    while n is not None:
        qn = getattr(n, "_qualname", None)
        if qn is not None:
            return qn
        n = getattr(n, "_parent", None)
    return "<module>"


def enclosing_function(node):
    n = getattr(node, "_parent", None)
    while n is not None:
        if isinstance(n, (ast.FunctionDef, ast.AsyncFunctionDef)):
            return n
        n = getattr(n, "_parent", None)
    return None


def enclosing_class(node):
    n = getattr(node, "_parent", None)
    while n is not None:
        if isinstance(n, ast.ClassDef):
            return n
        n = getattr(n, "_parent", None)
    return None


def enclosing_stmt(node):
    n = node
    while n is not None and not isinstance(n, ast.stmt):
        n = getattr(n, "_parent", None)
    return n


def module_of(node) -> Module:
    n = node
    while n is not None:
        m = getattr(n, "_module", None)
        if m is not None:
            return m
        n = getattr(n, "_parent", None)
    raise AnalysisError("node without module")


# --------------------------------------------------------------------------- classes


class ClassInfo:
    def __init__(self, model: "Model", module: Module, node: ast.ClassDef):
        self.model = model
        self.module = module
        self.node = node
        self.name = node.name
        self.qualname = getattr(node, "_qualname", node.name)
        self.fqn = f"{module.modname}.{self.qualname}"
        self._bases = None
        self._mro = None
        self.own: dict[str, ast.AST] = {}
        self.own_methods: dict[str, ast.FunctionDef] = {}
        for st in node.body:
            if isinstance(st, ast.Assign):
                for t in st.targets:
                    for nm in _target_names(t):
                        self.own[nm] = st.value
            elif isinstance(st, ast.AnnAssign) and isinstance(st.target, ast.Name):
                if st.value is not None:
                    self.own[st.target.id] = st.value
            elif isinstance(st, (ast.FunctionDef, ast.AsyncFunctionDef)):
                self.own_methods[st.name] = st
                self.own[st.name] = st

    @property
    def bases(self) -> list["ClassInfo"]:
        if self._bases is None:
            out = []
            self.unresolved_bases = []
            for b in self.node.bases:
                ci = self.model.resolve_class(self.module, b, self.node)
                if ci is not None:
                    out.append(ci)
                else:
                    self.unresolved_bases.append(unparse(b))
            self._bases = out
        return self._bases

    @property
    def mro(self) -> list["ClassInfo"]:
        if self._mro is None:
            self._mro = _c3(self)
        return self._mro

    def lookup(self, name: str):
        """(owner ClassInfo, value node) of attribute ``name`` through the MRO."""
        for c in self.mro:
            if name in c.own:
                return c, c.own[name]
        return None, None

    def method(self, name: str):
        for c in self.mro:
            if name in c.own_methods:
                return c, c.own_methods[name]
        return None, None

    def is_subclass_of(self, fqn_or_name: str) -> bool:
        return any(c.fqn == fqn_or_name or c.name == fqn_or_name for c in self.mro)

    def __repr__(self):
        return f"<class {self.fqn}>"


def _target_names(t):
    if isinstance(t, ast.Name):
        yield t.id
    elif isinstance(t, (ast.Tuple, ast.List)):
        for e in t.elts:
            yield from _target_names(e)


def _c3(cls: ClassInfo) -> list[ClassInfo]:
    seqs = [list(b.mro) for b in cls.bases] + [list(cls.bases)]
    res = [cls]
    seqs = [s for s in seqs if s]
    while seqs:
        for s in seqs:
            cand = s[0]
            if not any(cand in t[1:] for t in seqs):
                break
        else:
            # inconsistent hierarchy: fall back to depth-first order (never happens
            # for code that imports)
            cand = seqs[0][0]
        res.append(cand)
        seqs = [[x for x in s if x is not cand] for s in seqs]
        seqs = [s for s in seqs if s]
    return res


# --------------------------------------------------------------------------- model


class Model:
    def __init__(self, root: str = "/repo", overlay: dict[str, str] | None = None):
        self.root = root
        self.overlay = dict(overlay or {})
        self._modules: dict[str, Module] = {}
        self._classinfo: dict[int, ClassInfo] = {}
        self.consulted: dict[str, str] = {}
        self._all_loaded = False

    # -- files
    def read(self, relpath: str) -> str:
        if relpath in self.overlay:
            src = self.overlay[relpath]
        else:
            p = os.path.join(self.root, relpath)
            try:
                with open(p, encoding="utf-8") as f:
                    src = f.read()
            except FileNotFoundError as e:
                raise AnchorMissing(f"source file {relpath} does not exist") from e
        self.consulted[relpath] = hashlib.sha256(src.encode()).hexdigest()
        return src

    def exists(self, relpath: str) -> bool:
        return relpath in self.overlay or os.path.exists(os.path.join(self.root, relpath))

    def module(self, relpath: str) -> Module:
        m = self._modules.get(relpath)
        if m is None:
            m = Module(self, relpath, self.read(relpath))
            self._modules[relpath] = m
        return m

    def module_by_name(self, modname: str) -> Module | None:
        rel = modname.replace(".", "/")
        for cand in (rel + ".py", rel + "/__init__.py"):
            if self.exists(cand):
                return self.module(cand)
        return None

    def package_files(self, prefix: str = "dask", include_tests: bool = False) -> list[str]:
        out = []
        base = os.path.join(self.root, prefix)
        for dirpath, dirnames, filenames in os.walk(base):
            dirnames[:] = sorted(
                d for d in dirnames if d != "__pycache__" and (include_tests or d != "tests")
            )
            for fn in sorted(filenames):
                if fn.endswith(".py"):
                    rel = os.path.relpath(os.path.join(dirpath, fn), self.root)
                    if not include_tests and (fn.startswith("test_") or fn == "conftest.py"):
                        continue
                    out.append(rel)
        for rel in self.overlay:
            if rel.startswith(prefix) and rel not in out:
                out.append(rel)
        return sorted(out)

    def modules(self, prefix: str = "dask") -> list[Module]:
        return [self.module(r) for r in self.package_files(prefix)]

    def digest(self) -> str:
        h = hashlib.sha256()
        for k in sorted(self.consulted):
            h.update(k.encode())
            h.update(self.consulted[k].encode())
        return h.hexdigest()[:16]

    # -- name resolution
    def resolve_name(self, module: Module, name: str, scope=None, _depth=0):
        """Resolve a dotted name used in ``module`` to (Module, def-node) or
        ("ext", qualified-name) or None."""
        if _depth > 8:
            return None
        head, _, rest = name.partition(".")
        # enclosing class / function scopes (nested classes and functions)
        s = scope
        while s is not None:
            qn = getattr(s, "_qualname", None)
            if qn is not None and f"{qn}.{head}" in module.defs and not isinstance(s, ast.ClassDef):
                return self._descend(module, f"{qn}.{head}", rest)
            s = getattr(s, "_parent", None)
        if head in module.defs:
            return self._descend(module, head, rest)
        if head in module.imports:
            q = module.imports[head]
            full = q + ("." + rest if rest else "")
            return self.resolve_qualified(full, _depth + 1)
        if "*" in module.imports:
            for base in module.imports["*"].split(","):
                m = self.module_by_name(base)
                if m is not None:
                    r = self.resolve_name(m, name, None, _depth + 1)
                    if r is not None and r[0] != "ext":
                        return r
        # module-level alias  X = Y
        v = module.toplevel_assign(head)
        if v is not None and dotted(v) and dotted(v) != head and not rest:
            return self.resolve_name(module, dotted(v), None, _depth + 1)
        return None

    def _descend(self, module: Module, qn: str, rest: str):
        if rest:
            full = f"{qn}.{rest}"
            if full in module.defs:
                return (module, module.defs[full])
            # attribute of a class through its MRO
            node = module.defs[qn]
            if isinstance(node, ast.ClassDef):
                ci = self.classinfo(module, node)
                parts = rest.split(".")
                owner, val = ci.lookup(parts[0])
                if val is not None and len(parts) == 1:
                    return (owner.module, val)
            return None
        return (module, module.defs[qn])

    def resolve_qualified(self, full: str, _depth=0):
        """``pkg.mod.Name.attr`` -> (Module, node) | ("ext", full)."""
        parts = full.split(".")
        for i in range(len(parts), 0, -1):
            modname = ".".join(parts[:i])
            if not modname.startswith("dask"):
                break
            m = self.module_by_name(modname)
            if m is not None:
                rest = ".".join(parts[i:])
                if not rest:
                    return (m, m.tree)
                r = self.resolve_name(m, rest, None, _depth + 1)
                if r is not None:
                    return r
                return None
        return ("ext", full)

    def qualified(self, module: Module, node, scope=None) -> str | None:
        """Best-effort fully qualified dotted name for a Name/Attribute expression:
        'numpy.add', 'operator.add', 'dask.utils.M.sum' ..."""
        d = dotted(node)
        if d is None:
            return None
        head, _, rest = d.partition(".")
        if head in module.imports:
            return module.imports[head] + ("." + rest if rest else "")
        if head in module.defs:
            return f"{module.modname}.{d}"
        return d

    # -- classes
    def classinfo(self, module: Module, node: ast.ClassDef) -> ClassInfo:
        ci = self._classinfo.get(id(node))
        if ci is None:
            ci = ClassInfo(self, module, node)
            self._classinfo[id(node)] = ci
        return ci

    def resolve_class(self, module: Module, expr, scope=None) -> ClassInfo | None:
        d = dotted(expr)
        if d is None:
            return None
        r = self.resolve_name(module, d, scope)
        if r is None or r[0] == "ext":
            return None
        m, node = r
        if isinstance(node, ast.ClassDef):
            return self.classinfo(m, node)
        return None

    def klass(self, relpath: str, qualname: str) -> ClassInfo:
        m = self.module(relpath)
        return self.classinfo(m, m.cls(qualname))

    def all_classes(self, prefix: str = "dask") -> list[ClassInfo]:
        out = []
        for m in self.modules(prefix):
            for qn, n in m.classes():
                out.append(self.classinfo(m, n))
        return out

    def subclasses(self, base: ClassInfo, prefix: str = "dask") -> list[ClassInfo]:
        return [c for c in self.all_classes(prefix) if base in c.mro and c is not base]


# --------------------------------------------------------------------------- misc utilities used by rules


def snake(name: str) -> str:
    s = re.sub(r"(.)([A-Z][a-z]+)", r"\1_\2", name)
    return re.sub(r"([a-z0-9])([A-Z])", r"\1_\2", s).lower()


def names_in(node) -> set[str]:
    return {n.id for n in ast.walk(node) if isinstance(n, ast.Name)}


def assigned_names(func) -> dict[str, list[ast.AST]]:
    """name -> list of value-carrying definition statements inside ``func`` (same scope)."""
    out: dict[str, list[ast.AST]] = {}
    for n in walk_no_nested(func):
        if isinstance(n, ast.Assign):
            for t in n.targets:
                for nm in _target_names(t):
                    out.setdefault(nm, []).append(n)
        elif isinstance(n, (ast.AugAssign, ast.AnnAssign)):
            for nm in _target_names(n.target):
                out.setdefault(nm, []).append(n)
        elif isinstance(n, (ast.For, ast.AsyncFor)):
            for nm in _target_names(n.target):
                out.setdefault(nm, []).append(n)
        elif isinstance(n, (ast.With, ast.AsyncWith)):
            for it in n.items:
                if it.optional_vars is not None:
                    for nm in _target_names(it.optional_vars):
                        out.setdefault(nm, []).append(n)
        elif isinstance(n, ast.NamedExpr):
            out.setdefault(n.target.id, []).append(n)
        elif isinstance(n, ast.ExceptHandler) and n.name:
            out.setdefault(n.name, []).append(n)
    return out


def unique_def_value(func, name: str):
    """If ``name`` is assigned exactly once in ``func`` by a plain ``name = value``
    return ``value``; else None."""
    defs = assigned_names(func).get(name, [])
    if len(defs) == 1 and isinstance(defs[0], ast.Assign):
        st = defs[0]
        if len(st.targets) == 1 and isinstance(st.targets[0], ast.Name):
            return st.value
    return None


def params_of(func) -> list[str]:
    a = func.args
    out = [x.arg for x in a.posonlyargs + a.args]
    if a.vararg:
        out.append("*" + a.vararg.arg)
    out += [x.arg for x in a.kwonlyargs]
    if a.kwarg:
        out.append("**" + a.kwarg.arg)
    return out


def param_names(func) -> list[str]:
    return [p.lstrip("*") for p in params_of(func)]
