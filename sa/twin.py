"""Twin cross-check (SIB over whole functions).

dask carries two copies of much array code: the classic engine (dask/array/*.py) and the
array-expression engine (dask/array/_array_expr/*.py).  Property C30 says both engines compute
the same thing; the classic copies are what C19/C20/C22/C24/C26/C28/C35 talk about.  Where the two
copies of a function are meant to be the same algorithm, a divergence between them is a
contradiction in the sense of Engler et al.: one of the two is wrong (or both must change).

canon(func)   the function with its docstring removed and every name bound inside it (parameters,
              assignment/loop/with/comprehension targets, nested defs and their parameters) renamed
              to _v<k> in binding order -- so formatting, comments and consistent renamings do not
              matter, but swapped operands do.
hunks(a, b)   non-equal opcodes of a line diff of the two canonical texts.

The differences that exist today were read one by one and are frozen in twins_accepted.json with
one line of reason each; they are matched by canonical text, never by position.
"""
from __future__ import annotations

import ast
import copy
import difflib
import json
import os
import re


class _Binder(ast.NodeVisitor):
    """Collect names bound in a function, in binding order (pre-order, source order)."""

    def __init__(self):
        self.order: list[str] = []
        self.globals: set[str] = set()

    def bind(self, name):
        if name not in self.order and name not in self.globals:
            self.order.append(name)

    def _args(self, a: ast.arguments):
        for x in a.posonlyargs + a.args:
            self.bind(x.arg)
        if a.vararg:
            self.bind(a.vararg.arg)
        for x in a.kwonlyargs:
            self.bind(x.arg)
        if a.kwarg:
            self.bind(a.kwarg.arg)

    def visit_FunctionDef(self, node):
        self.bind(node.name) if getattr(self, "_depth", 0) else None
        self._depth = getattr(self, "_depth", 0) + 1
        self._args(node.args)
        for s in node.body:
            self.visit(s)
        self._depth -= 1

    visit_AsyncFunctionDef = visit_FunctionDef

    def visit_Lambda(self, node):
        self._args(node.args)
        self.visit(node.body)

    def visit_Global(self, node):
        self.globals.update(node.names)

    def visit_Nonlocal(self, node):
        pass

    def visit_Name(self, node):
        if isinstance(node.ctx, (ast.Store, ast.Del)):
            self.bind(node.id)

    def visit_ExceptHandler(self, node):
        if node.name:
            self.bind(node.name)
        self.generic_visit(node)

    def visit_Import(self, node):
        for a in node.names:
            self.bind((a.asname or a.name).split(".")[0])

    def visit_ImportFrom(self, node):
        for a in node.names:
            self.bind(a.asname or a.name)

    def visit_ClassDef(self, node):
        self.bind(node.name)
        # do not descend: class bodies are their own namespace


class _Renamer(ast.NodeTransformer):
    def __init__(self, mapping, keep_param_names: set[str]):
        self.m = mapping
        self.keep = keep_param_names

    def visit_Name(self, node):
        if node.id in self.m:
            node.id = self.m[node.id]
        return node

    def visit_arg(self, node):
        if node.arg in self.m:
            node.arg = self.m[node.arg]
        return node

    def visit_FunctionDef(self, node):
        if node.name in self.m:
            node.name = self.m[node.name]
        self.generic_visit(node)
        return node

    visit_AsyncFunctionDef = visit_FunctionDef

    def visit_ExceptHandler(self, node):
        if node.name and node.name in self.m:
            node.name = self.m[node.name]
        self.generic_visit(node)
        return node

    def visit_alias(self, node):
        return node

    def visit_keyword(self, node):
        # keyword names belong to the callee, not to this function
        node.value = self.visit(node.value)
        return node


def canon_lines(func: ast.AST, rename: bool = True) -> list[str]:
    # re-parse instead of deepcopy: model nodes carry _parent links that would drag the whole module along
    f = ast.parse(ast.unparse(func)).body[0]
    f.decorator_list = []
    f.returns = None
    for a in f.args.posonlyargs + f.args.args + f.args.kwonlyargs + ([f.args.vararg] if f.args.vararg else []) + ([f.args.kwarg] if f.args.kwarg else []):
        a.annotation = None
    # drop docstrings (also of nested defs)
    for n in ast.walk(f):
        if isinstance(n, (ast.FunctionDef, ast.AsyncFunctionDef, ast.ClassDef)) and n.body and isinstance(n.body[0], ast.Expr) and isinstance(n.body[0].value, ast.Constant) and isinstance(n.body[0].value.value, str):
            n.body = n.body[1:] or [ast.Pass()]
        if isinstance(n, ast.AnnAssign) and n.value is not None:
            pass
    if rename:
        b = _Binder()
        b.visit(f)
        # parameters keep their names: they are the function's interface (callers pass keywords)
        params = {x.arg for x in f.args.posonlyargs + f.args.args + f.args.kwonlyargs}
        if f.args.vararg:
            params.add(f.args.vararg.arg)
        if f.args.kwarg:
            params.add(f.args.kwarg.arg)
        mapping = {}
        k = 0
        for nm in b.order:
            if nm in params:
                continue
            mapping[nm] = f"_v{k}"
            k += 1
        f = _Renamer(mapping, params).visit(f)
    f.name = "F"
    ast.fix_missing_locations(f)
    return ast.unparse(f).splitlines()


_VAR = re.compile(r"_v\d+")


def _abstract(line: str) -> str:
    return _VAR.sub("_v", line.strip())


def hunks(a_lines: list[str], b_lines: list[str]):
    """Differences between two canonical texts.  Lines are aligned on their *abstract* form (local
    numbers erased), so that an engine-specific block that binds a few more locals in one copy does
    not make every later line differ; on the aligned lines the numbering of locals must then be one
    consistent bijection between the copies (a swapped pair of operands breaks it).  Hunks are
    reported in abstract form."""
    aa, bb = [_abstract(l) for l in a_lines], [_abstract(l) for l in b_lines]
    sm = difflib.SequenceMatcher(None, aa, bb, autojunk=False)
    out = []
    fwd, bwd = {}, {}
    for tag, i1, i2, j1, j2 in sm.get_opcodes():
        if tag == "equal":
            for la, lb in zip(a_lines[i1:i2], b_lines[j1:j2]):
                va, vb = _VAR.findall(la), _VAR.findall(lb)
                clash = False
                for x, y in zip(va, vb):
                    if fwd.setdefault(x, y) != y or bwd.setdefault(y, x) != x:
                        clash = True
                if clash:
                    out.append(("[binding] " + _abstract(la) + " :: " + ",".join(va), "[binding] " + _abstract(lb) + " :: " + ",".join(vb)))
            continue
        out.append(("\n".join(aa[i1:i2]), "\n".join(bb[j1:j2])))
    return out, sm.ratio()


_ACCEPTED = None


def accepted():
    global _ACCEPTED
    if _ACCEPTED is None:
        p = os.path.join(os.path.dirname(os.path.abspath(__file__)), "rules", "twins_accepted.json")
        with open(p) as f:
            _ACCEPTED = json.load(f)
    return _ACCEPTED


def pair_key(ra, qa, rb, qb):
    return f"{ra}::{qa} <-> {rb}::{qb}"


def check_pairs(ctx, pairs, rule="TWIN.agree"):
    """pairs: iterable of (relA, qualA, relB, qualB).  One obligation per pair; each hunk that is not
    in the frozen table is reported with both sides."""
    acc = accepted()
    n = 0
    for ra, qa, rb, qb in pairs:
        ma, mb = ctx.model.module(ra), ctx.model.module(rb)
        key = pair_key(ra, qa, rb, qb)
        if not ma.has(qa) or not mb.has(qb):
            missing = f"{ra}::{qa}" if not ma.has(qa) else f"{rb}::{qb}"
            ctx.ob(rule, f"{ra}::{qa}", f"twin pair {key}", None, f"twin vanished: {missing} (re-confirm the pair table)")
            continue
        fa, fb = ma.get(qa), mb.get(qb)
        hs, ratio = hunks(canon_lines(fa), canon_lines(fb))
        ok_h = {(h["a"], h["b"]) for h in acc.get(key, [])}
        new = [h for h in hs if h not in ok_h]
        n += 1
        if not new:
            ctx.ob(rule, fa, f"{key}: the two copies agree (canonical text; {len(hs)} frozen engine-specific difference(s))", True, nontrivial=True)
        else:
            a, b = new[0]
            ctx.ob(
                rule,
                fa,
                f"{key}: the two copies agree (canonical text; {len(hs) - len(new)} frozen engine-specific difference(s))",
                False,
                f"{len(new)} unconfirmed divergence(s); first: classic `{a[:160]}` vs expression engine `{b[:160]}` -- the copies implement one algorithm, so one of them is wrong",
            )
    return n


# --------------------------------------------------------------------------- loose twins
_COMMON = None


def common_table():
    global _COMMON
    if _COMMON is None:
        p = os.path.join(os.path.dirname(os.path.abspath(__file__)), "rules", "twins_common.json")
        with open(p) as f:
            _COMMON = json.load(f)
    return _COMMON


def substantial(line: str) -> bool:
    """A line that says something: long enough and containing a call, an operator or a comparison."""
    l = line.strip()
    return len(l) >= 24 and any(t in l for t in ("(", " if ", "==", "!=", " in ", " + ", " - ", " * ", " // ", "[")) and not l.startswith(("def ", "from ", "import ", "raise ", "warnings."))


def abstract_lines(func) -> list[str]:
    return [_abstract(l) for l in canon_lines(func)]


def check_loose(ctx, pairs, rule="TWIN.shared-line"):
    """Loose twins: two functions that share a core of statements but differ in plumbing too much for
    a whole-function diff.  The statements that both copies contain today (abstract form, only
    substantial ones) are frozen in twins_common.json; each of them must still be in both copies, or
    have left both -- a line that only one copy still has means the copies diverged."""
    tab = common_table()
    n = 0
    for ra, qa, rb, qb in pairs:
        key = pair_key(ra, qa, rb, qb)
        ma, mb = ctx.model.module(ra), ctx.model.module(rb)
        if key not in tab:
            raise_missing = f"loose twin {key} has no frozen common core"
            ctx.ob(rule, f"{ra}::{qa}", key, None, raise_missing)
            continue
        if not ma.has(qa) or not mb.has(qb):
            ctx.ob(rule, f"{ra}::{qa}", f"twin pair {key}", None, "twin vanished (re-confirm the pair table)")
            continue
        fa, fb = ma.get(qa), mb.get(qb)
        la, lb = abstract_lines(fa), abstract_lines(fb)
        ca = {}
        for l in la:
            ca[l] = ca.get(l, 0) + 1
        cb = {}
        for l in lb:
            cb[l] = cb.get(l, 0) + 1
        gone = []
        for line in tab[key]:
            ina, inb = ca.get(line, 0), cb.get(line, 0)
            if (ina > 0) != (inb > 0):
                gone.append((line, "classic" if ina else "expression engine"))
        n += 1
        ctx.ob(
            rule,
            fa,
            f"{key}: the {len(tab[key])} statements shared by both copies are still shared",
            not gone,
            "" if not gone else f"{len(gone)} shared statement(s) now in one copy only; first: `{gone[0][0][:150]}` remains only in the {gone[0][1]} copy -- the copies implement one algorithm, so one of them changed meaning",
        )
    return n
