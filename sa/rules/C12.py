"""C12 -- tokens are deterministic, and distinct values get distinct tokens (partial).

Decided, over every function registered on normalize_token in dask/tokenize.py (enumerated from the
decorators, including the lazily registered numpy/pandas/pyarrow blocks):
 INJ.join          a separator-join of element strings/bytes is never the only thing hashed: the
                   element boundaries (lengths) must be part of the token
 INJ.layout        bytes obtained by flattening an array are taken in logical order ("C"), or the
                   token carries the strides
 INJ.typed-buffer  a normaliser that hashes a raw buffer returns dtype and shape next to the hash
 ORD.canonical     canonicalisation of unordered containers sorts with a key that is not `str` alone
 TAB.type-tag      builtin container normalisers carry a type tag (list vs tuple vs dict vs set)
 EFFECT.entropy    every uuid4()/id() is dominated by _maybe_raise_nondeterministic (entropy only on
                   the documented non-deterministic fallback)
 INJ.alternatives  two encodings of different input kinds that fill one untagged token slot (try/except
                   fast paths) are exclusive: the handler is unreachable by the builtin raise contracts, or
                   the alternatives are tagged
 TOT.registered    the registration table has not shrunk
Not decided: collision freedom of the hash function; pandas/pyarrow internals.
"""
from __future__ import annotations

import ast

from ..lib import *

EXPLANATION = (
    "Injectivity and effect rules over every normalize_token registration in dask/tokenize.py: joins fed to a "
    "hash must come with element lengths, flattened array bytes must be in logical order or come with strides, "
    "raw-buffer hashes must come with dtype and shape, canonical sort keys must not be `str` alone, container "
    "normalisers must carry a type tag, and ambient entropy (uuid4, id) is only reachable after the "
    "non-determinism gate.  Collision freedom of md5/the buffer hash is NOT decided."
)
ASSUMPTIONS = ["hash_buffer_hex and md5 are collision free for the purposes of the property", "Dispatch resolves the most specific registered type"]
TOK = "dask/tokenize.py"


def _registered(mod):
    """(function node, registered-type source text) for every normalize_token registration."""
    out = []
    for f in ast.walk(mod.tree):
        if isinstance(f, (ast.FunctionDef, ast.AsyncFunctionDef)):
            for d in f.decorator_list:
                if isinstance(d, ast.Call) and call_name(d) == "normalize_token.register":
                    out.append((f, unparse(d.args[0]) if d.args else "?"))
    return out


def _hashed_exprs(f):
    """Expressions passed to hash_buffer_hex inside f."""
    return [c for c in calls(f, "hash_buffer_hex")]


def _body_raises(assign):
    """Exception types the value of an assignment can raise, from the builtin contracts of the
    operations it is made of; second result: operations outside the table."""
    raises, unknown = set(), []
    for k in ast.walk(assign.value):
        if not isinstance(k, ast.Call):
            continue
        nm = call_name(k)
        if nm == "hash_buffer_hex":
            continue  # hashing a bytes object does not raise
        if isinstance(k.func, ast.Attribute) and k.func.attr == "join" and isinstance(k.func.value, ast.Constant) and isinstance(k.func.value.value, (str, bytes)):
            raises.add("TypeError")
        elif isinstance(k.func, ast.Attribute) and k.func.attr == "encode":
            raises.add("UnicodeEncodeError")
        elif isinstance(k.func, ast.Attribute) and k.func.attr == "decode":
            raises.add("UnicodeDecodeError")
        else:
            unknown.append(unparse(k)[:40])
    return raises, unknown


def _may_catch(handler_name, raised_name):
    import builtins

    h = getattr(builtins, handler_name.split(".")[-1], None)
    r = getattr(builtins, raised_name, None)
    if not (isinstance(h, type) and isinstance(r, type)):
        return True  # unknown exception class: assume it can catch
    return issubclass(r, h)


def _tag_of(value):
    if isinstance(value, ast.Tuple) and value.elts and isinstance(value.elts[0], ast.Constant) and isinstance(value.elts[0].value, str):
        return value.elts[0].value
    return None


# handlers whose token is deliberately not built from the constructor fields, one reason each
HANDLER_FIELDS_OK = {
    ("dask/highlevelgraph.py", "register_highlevelgraph"): "documented: layer names stand for the graph (dask issue 9888); layers carry tokens in their names",
    ("dask/dataframe/dask_expr/_util.py", "normalize_data_wrapper"): "returns data._token, the cached token of data._data (the only constructor field)",
}


def handler_covers_fields(ctx):
    """INJ.handler-fields: a normalize_token handler registered (outside dask/tokenize.py) for a class
    defined in dask mentions every field that the class stores straight from a constructor parameter --
    two instances that differ in such a field are different values and need different tokens."""
    model = ctx.model
    n = 0
    for rel in ("dask/layers.py", "dask/highlevelgraph.py", "dask/dataframe/dask_expr/_util.py", "dask/array/ma.py"):
        if not model.exists(rel):
            continue
        mod = model.module(rel)
        for f, t in _registered(mod):
            ci = model.resolve_class(mod, ast.parse(t).body[0].value) if t != "?" else None
            if ci is None:
                continue  # a third-party type (numpy, pyarrow)
            if (rel, f.name) in HANDLER_FIELDS_OK:
                ctx.ob("INJ.handler-fields", f, f"{f.name} ({t}): reviewed exception -- {HANDLER_FIELDS_OK[(rel, f.name)]}", True, nontrivial=False)
                continue
            fields = {}
            for c in ci.mro:
                init = c.own_methods.get("__init__")
                if init is None:
                    continue
                params = {a.arg for a in init.args.args + init.args.kwonlyargs} - {"self"}
                for a in walk_no_nested(init):
                    if isinstance(a, ast.Assign) and len(a.targets) == 1 and isinstance(a.targets[0], ast.Attribute) and isinstance(a.targets[0].value, ast.Name) and a.targets[0].value.id == "self" and isinstance(a.value, ast.Name) and a.value.id in params:
                        fields[a.targets[0].attr] = c.name
            if not f.args.args:
                continue
            p0 = f.args.args[0].arg
            used = {x.attr for r in returns(f) for x in ast.walk(r.value) if isinstance(x, ast.Attribute) and isinstance(x.value, ast.Name) and x.value.id == p0}
            missing = sorted(set(fields) - used)
            n += 1
            ctx.ob("INJ.handler-fields", f, f"{f.name} ({t}): the token mentions every constructor field {sorted(fields)}", not missing, "" if not missing else f"not in the token: {missing} -- two {t} values that differ only there get one token; layers/keys built from them collide when they meet in one graph")
    ctx.count("class_token_handlers", n)
    ctx.floor("class_token_handlers", 3, "ArraySliceDep, ArrayBlockIdDep, ArrayValuesDep")


def check(ctx):
    model = ctx.model
    mod = model.module(TOK)
    regs = _registered(mod)
    ctx.count("normalize_token_registrations", len(regs))
    ctx.floor("normalize_token_registrations", 30, "normalize_token.register(...) decorators in dask/tokenize.py")
    funcs = []
    seen = set()
    for f, t in regs:
        if id(f) not in seen:
            seen.add(id(f))
            funcs.append(f)
    helpers = [mod.func(n) for n in ("_normalize_seq_func", "_normalize_pickle", "_normalize_pure_object", "_normalize_dataclass", "_tokenize") if mod.has(n)]

    n_join = n_flat = n_buf = n_sort = n_alt = 0
    for f in funcs + helpers:
        # ---------------- INJ.join
        for c in calls(f, "join"):
            if not (isinstance(c.func, ast.Attribute) and isinstance(c.func.value, ast.Constant)):
                continue
            # is the join (possibly .encode()d) hashed?
            node = c
            hashed = None
            p = getattr(node, "_parent", None)
            while p is not None and not isinstance(p, ast.stmt):
                if isinstance(p, ast.Call) and call_name(p) == "hash_buffer_hex":
                    hashed = p
                    break
                p = getattr(p, "_parent", None)
            if hashed is None:
                continue
            n_join += 1
            src = c.args[0] if c.args else None
            # accepted idiom: the same function also hashes the element lengths of the same source
            ok = False
            for c2 in _hashed_exprs(f):
                if c2 is hashed:
                    continue
                for k in ast.walk(c2):
                    if isinstance(k, ast.Call) and call_name(k) == "map" and len(k.args) == 2 and eqv(k.args[0], "len") and src is not None and same(k.args[1], src):
                        ok = True
                    if isinstance(k, ast.GeneratorExp) and Pat("len(M_e)").match(k.elt) is not None and src is not None and same(k.generators[0].iter, src):
                        ok = True
            # and both hashes are returned
            ctx.ob(
                "INJ.join",
                c,
                f"{unparse(c.func.value)}.join({unparse(src)}) hashed in {f.name}",
                ok,
                "element lengths are hashed alongside" if ok else "a separator-join of variable-length elements is hashed without their lengths: ['a-b','c'] and ['a','b-c'] collide",
            )
        # ---------------- INJ.alternatives
        # try: V = hash(<encoding A>)  except E: V = hash(<encoding B>) -- two encodings of *different
        # input kinds* land in one untagged slot of the token.  That is only injective if at most one
        # of them is live.  Liveness of the handler is decided from what the operations of the try
        # body can raise (builtin contracts: str.join/bytes.join -> TypeError, str.encode ->
        # UnicodeEncodeError, bytes.decode -> UnicodeDecodeError); an operation outside the table
        # makes the question undecidable here (unrecognised, never a guess).
        for t in [n for n in walk_no_nested(f) if isinstance(n, ast.Try)]:
            def _hashed_assigns(stmts):
                out = []
                for s_ in stmts:
                    if isinstance(s_, ast.Assign) and len(s_.targets) == 1 and isinstance(s_.targets[0], ast.Name) and any(isinstance(k, ast.Call) and call_name(k) == "hash_buffer_hex" for k in ast.walk(s_.value)):
                        out.append(s_)
                return out
            body_as = _hashed_assigns(t.body)
            for h in t.handlers:
                for ha in _hashed_assigns(h.body):
                    for ba in body_as:
                        if ba.targets[0].id != ha.targets[0].id:
                            continue
                        if unparse(ba.value) == unparse(ha.value).replace(".copy()", ""):
                            continue  # the same encoding retried on a copy: one function of the value
                        n_alt += 1
                        raises, unknown = _body_raises(ba)
                        names = [unparse(x) for x in (h.type.elts if isinstance(h.type, ast.Tuple) else [h.type])] if h.type is not None else ["BaseException"]
                        live = any(_may_catch(nm, r) for nm in names for r in raises)
                        tagged = _tag_of(ba.value) is not None and _tag_of(ha.value) is not None and _tag_of(ba.value) != _tag_of(ha.value)
                        if tagged:
                            ok, why = True, "alternatives carry distinct tags"
                        elif unknown and not live:
                            ok, why = None, f"cannot decide whether `except {', '.join(names)}` is reachable: operations outside the contract table: {unknown}"
                        elif live:
                            ok, why = False, (f"`except {', '.join(names)}` is reachable ({sorted(raises)} can be raised by the first encoding) and both encodings fill the same untagged token slot "
                                              f"`{ba.targets[0].id}`: values of different kinds with the same encoded bytes (['a','bc'] vs [b'a',b'bc']) share a token")
                        else:
                            ok, why = True, f"the alternative is unreachable: the first encoding raises only {sorted(raises)}, the handler catches {names}"
                        ctx.ob("INJ.alternatives", ha, f"{f.name}: alternative encodings of `{ba.targets[0].id}` ({unparse(ba.value)[:40]}… | {unparse(ha.value)[:40]}…) are distinguishable or exclusive", ok, why)
        # ---------------- INJ.layout
        for c in calls(f, "ravel"):
            inside_hash = False
            p = getattr(c, "_parent", None)
            while p is not None and not isinstance(p, ast.stmt):
                if isinstance(p, ast.Call) and call_name(p) == "hash_buffer_hex":
                    inside_hash = True
                p = getattr(p, "_parent", None)
            if not inside_hash:
                continue
            n_flat += 1
            order = kwarg(c, "order")
            o = const(order) if order is not None else "C"
            if order is None and c.args:
                o = const(c.args[0])
            rets = returns(f)
            has_strides = any("strides" in unparse(r.value) for r in rets if r.value is not None)
            ok = o == "C" or has_strides
            ctx.ob(
                "INJ.layout",
                c,
                f"{unparse(c)[:50]} hashed in {f.name}",
                ok,
                "logical order" if o == "C" else ("token carries strides" if has_strides else f"bytes are flattened in order={o!r} (memory order) but the token carries neither strides nor a C-order copy: arrays of different layout whose memory coincides collide"),
            )
        # ---------------- INJ.typed-buffer
        for c in _hashed_exprs(f):
            arg = unparse(c.args[0]) if c.args else ""
            if any(s in arg for s in ("ravel", "ascontiguousarray", ".view(")):
                n_buf += 1
                rets = [r for r in returns(f) if r.value is not None]
                # the return that carries this hash
                carrying = []
                for r in rets:
                    if any(x is c for x in ast.walk(r.value)):
                        carrying.append(r)
                    else:
                        nm = None
                        st = enclosing_stmt(c)
                        if isinstance(st, ast.Assign) and isinstance(st.targets[0], ast.Name):
                            nm = st.targets[0].id
                        if nm and any(isinstance(x, ast.Name) and x.id == nm for x in ast.walk(r.value)):
                            carrying.append(r)
                def _carries(r, attr):
                    # the attribute itself, not a lossy projection of it (x.dtype.str is '|V8' for every
                    # 8-byte structured dtype)
                    elts = r.value.elts if isinstance(r.value, ast.Tuple) else [r.value]
                    return any(isinstance(e, ast.Attribute) and e.attr == attr and isinstance(e.value, ast.Name) for e in elts)
                ok = bool(carrying) and all(_carries(r, "dtype") and _carries(r, "shape") for r in carrying)
                ctx.ob(
                    "INJ.typed-buffer",
                    c,
                    f"raw buffer hash in {f.name} is returned with dtype and shape",
                    ok,
                    "" if ok else "the token is only the hash of the bytes: buffers of different dtype/shape over the same bytes collide",
                )
        # ---------------- ORD.canonical
        for c in calls(f, "sorted"):
            key = kwarg(c, "key")
            if key is None:
                continue
            n_sort += 1
            k = unparse(key)
            only_str = k == "str" or (isinstance(key, ast.Lambda) and isinstance(key.body, ast.Call) and call_name(key.body) == "str")
            ok = not only_str
            ctx.ob(
                "ORD.canonical",
                c,
                f"sorted(..., key={k[:50]}) in {f.name}",
                ok,
                "" if ok else "canonical order uses key=str only: distinct keys with equal str() (1 and '1') keep insertion order, so equal containers tokenise differently",
            )
    ctx.count("hashed_joins", n_join)
    ctx.count("hashed_flattenings", n_flat)
    ctx.count("raw_buffer_hashes", n_buf)
    ctx.count("canonical_sorts", n_sort)
    ctx.count("alternative_encodings", n_alt)
    ctx.floor("hashed_joins", 2)
    ctx.floor("hashed_flattenings", 1)
    ctx.floor("raw_buffer_hashes", 2)
    ctx.floor("canonical_sorts", 2)
    ctx.floor("alternative_encodings", 1)

    # ---------------- INJ.private-attr: normalisers read the public state of the object they normalise.
    # Private attributes of third-party objects are caches/raw storage that can miss part of the value
    # (MultiIndex._levels has no names) or depend on history; the four reads below were confirmed.
    PRIVATE_OK = {("normalize_series", "_values"), ("normalize_dataframe", "_mgr"), ("normalize_numba_ufunc", "_reduce_class"), ("normalize_numba_ufunc", "_reduce_states"), ("normalize_extension_array", "_pa_array"), ("normalize_extension_array", "_data")}
    for f in funcs + helpers:
        ps = {a.arg for a in f.args.args}
        for n in ast.walk(f):
            if isinstance(n, ast.Attribute) and isinstance(n.value, ast.Name) and n.value.id in ps and n.attr.startswith("_") and not n.attr.startswith("__"):
                ok = (f.name, n.attr) in PRIVATE_OK
                ctx.ob("INJ.private-attr", n, f"{f.name} reads {unparse(n)}", ok, "" if ok else "the token is built from a private attribute of the normalised object: public state that distinguishes values (names, flags) may not be in it, and equal objects with different history can tokenize differently", nontrivial=not ok)
    # ---------------- pandas Index: tokenised through its extension array (keeps tz, freq, categories), not .values
    ni = [f_ for f_, t_ in regs if f_.name == "normalize_index" and t_ == "pd.Index"]
    vals = find("values = M_v", ni[0]) if ni else []
    first = min(vals, key=lambda nb: nb[0].lineno) if vals else None
    ok = len(ni) == 1 and first is not None and unparse(first[1]["M_v"]) == "ind.array" and dominates(ni[0], first[0], returns(ni[0])[0])
    ctx.ob("INJ.index-array", ni[0] if ni else mod.tree, "normalize_index reads ind.array", ok, "" if ok else "ind.values drops what the extension array carries (time zone, frequency): a naive and a tz-aware index over the same instants share a token")
    # ---------------- pandas DataFrame: consolidated blocks + labels do not say which column sits where
    nd = [f_ for f_, t_ in regs if f_.name == "normalize_dataframe"]
    txt = unparse(nd[0]) if nd else ""
    ok = len(nd) == 1 and "mgr.arrays" in txt and "df.columns" in txt and "df.index" in txt and "blknos" in txt and "blklocs" in txt
    ctx.ob("INJ.dataframe-placement", nd[0] if nd else mod.tree, "normalize_dataframe hashes the blocks, the labels AND the block placement (blknos, blklocs)", ok, "" if ok else "two frames with equal blocks and labels but columns assigned to different block rows share a token")
    # ---------------- ndarray subclasses: same bytes, different meaning
    na = [f_ for f_, t_ in regs if f_.name == "normalize_array" and t_ == "np.ndarray"]
    ok = len(na) == 1
    if ok:
        sub = [r for r in returns(na[0]) if any(eqv(e, "type(x) is np.ndarray") and pol is False for e, pol in cfg_of(na[0]).facts(r))]
        ok = len(sub) == 1 and isinstance(sub[0].value, ast.Tuple) and any(eqv(e_, "type(x)") for e_ in sub[0].value.elts)
    ctx.ob("INJ.array-subclass", na[0] if na else mod.tree, "normalize_array adds type(x) to the token when x is not a plain ndarray", ok, "" if ok else "np.matrix and other ndarray subclasses tokenize like the plain array with the same data although operators on them differ")
    # ---------------- INJ.dataclass: every field of a dataclass instance is part of its token
    dcf = mod.func("_normalize_dataclass")
    comps = [c for c in ast.walk(dcf) if isinstance(c, ast.ListComp) and "dataclasses.fields(obj)" in unparse(c.generators[0].iter)]
    ok = len(comps) == 1 and not comps[0].generators[0].ifs and "getattr(obj, field.name" in unparse(comps[0].elt) and "field.name" in unparse(comps[0].elt)
    ctx.ob("INJ.dataclass-all-fields", dcf, "every dataclasses.fields(obj) entry contributes (name, value)", ok, "" if ok else "fields are filtered out of the token: instances that differ only there compare unequal but share a token")
    # ---------------- INJ.dtype: the dtype normaliser must not project structured dtypes onto their size
    nd = [f for f in funcs if f.name == "normalize_dtype"]
    if not nd:
        raise AnchorMissing("normalize_dtype registration")
    n_str = 0
    for r in returns(nd[0]):
        if any(isinstance(x, ast.Attribute) and x.attr == "str" for x in ast.walk(r.value)):
            n_str += 1
            facts = {(unparse(e), pol) for e, pol in cfg_of(nd[0]).facts(r)}
            ok = ("dtype.kind == 'V'", False) in facts or ("dtype.fields is None", True) in facts
            ctx.ob("INJ.dtype", r, "normalize_dtype returns dtype.str only for non-void dtypes", ok, "" if ok else "dtype.str of a structured or sub-array dtype is '|V<itemsize>': dtypes differing in field names/types/offsets share a token (and arrays created with them share names)")
    ctx.count("dtype_str_returns", n_str)
    ctx.floor("dtype_str_returns", 1)
    ok = any(not any(isinstance(x, ast.Attribute) and x.attr == "str" for x in ast.walk(r.value)) for r in returns(nd[0]))
    ctx.ob("INJ.dtype.void", nd[0], "void (structured / sub-array) dtypes are tokenized by their full description", ok)
    # ---------------- TAB.type-tag
    tags = {}
    for fname, want in (("normalize_dict", "dict"), ("normalize_set", "set")):
        f = mod.func(fname)
        rs = [r for r in ast.walk(f) if isinstance(r, ast.Return) and isinstance(r.value, ast.Tuple) and isinstance(r.value.elts[0], (ast.Constant, ast.IfExp))]
        got = set()
        for r in rs:
            e0 = r.value.elts[0]
            for c_ in ([e0.body, e0.orelse] if isinstance(e0, ast.IfExp) else [e0]):
                got.add(const(c_) if isinstance(c_, ast.Constant) else unparse(c_))
        got -= {"__seen"}
        tags[fname] = got
        allowed = {want} if want != "set" else {"set", "frozenset"}
        ctx.ob("TAB.type-tag", f, f"{fname} tags its token with {want!r}", want in got and got <= allowed, f"tags {sorted(map(str, got))}")
    # ---------------- ORD.unordered-types.registered (F-C12-9): frozenset is canonicalised like set
    regs_u = {}
    for fn_ in [n for n in mod.tree.body if isinstance(n, ast.FunctionDef)]:
        for d_ in fn_.decorator_list:
            if isinstance(d_, ast.Call) and unparse(d_.func) == "normalize_token.register" and d_.args:
                a0 = d_.args[0]
                for t_ in (a0.elts if isinstance(a0, ast.Tuple) else [a0]):
                    regs_u[unparse(t_)] = fn_
    for ty_ in ("set", "frozenset"):
        fn_ = regs_u.get(ty_)
        ok = fn_ is not None and any(isinstance(c_, ast.Call) and eqv(c_.func, "sorted") for c_ in ast.walk(fn_))
        ctx.ob("ORD.unordered-types.registered", fn_ or mod.func("normalize_set"), f"{ty_} is registered on normalize_token with a normaliser that sorts the elements", ok, "" if ok else f"{ty_} falls through to normalize_object -> pickle, which writes the elements in iteration order: equal {ty_}s built in different orders (and, for str elements, runs with different hash seeds) get different tokens")
    f = mod.func("normalize_seq")
    ok = (all(Pat("(type(seq).__name__, _normalize_seq_func(seq))").match(r.value) is not None for r in returns(f)) and bool(returns(f)))
    ctx.ob("TAB.type-tag", f, "normalize_seq tags its token with the sequence type name", ok)
    f = mod.func("normalize_ordered_dict")
    ok = (all("type(d)" in unparse(r.value) and "d.items()" in unparse(r.value) for r in returns(f)) and bool(returns(f)))
    ctx.ob("TAB.type-tag", f, "normalize_ordered_dict keeps the type and the item order", ok)
    # ---------------- INJ.tagged-string: a handler for a non-string type never returns a bare string-valued attribute
    BARE_OK = {("normalize_object", "uuid.uuid4().hex"): "deliberately unique", ("normalize_ufunc", "uuid.uuid4().hex"): "deliberately unique", ("normalize_na", "pd.NA"): "the singleton itself"}
    n_b = 0
    for f_, t_ in regs:
        for r in returns(f_):
            v = r.value
            bare = isinstance(v, (ast.Attribute, ast.JoinedStr)) or (isinstance(v, ast.Call) and call_name(v) == "normalize_token" and len(v.args) == 1 and isinstance(v.args[0], ast.Attribute)) or (isinstance(v, ast.Call) and call_name(v) in ("str", "repr"))
            if not bare:
                continue
            n_b += 1
            why = BARE_OK.get((f_.name, unparse(v)))
            ctx.ob("INJ.tagged-string", r, f"{f_.name} ({t_}) returns {unparse(v)[:50]}", why is not None, why or "a bare string is also the token of that very string: the object and its textual form collide (np.dtype('<i8') vs '<i8')", nontrivial=why is None)
    ctx.count("bare_string_returns", n_b)
    ctx.floor("bare_string_returns", 2, "the uuid fallbacks")
    # ---------------- ORD.sorted-only-unordered: sorting erases order, so only inherently unordered things are sorted
    SORT_OK = {("_tokenize", "kwargs.items()"): "keyword arguments have no order", ("normalize_dict", "d.items()"): "dict equality ignores insertion order", ("normalize_set", "s"): "sets are unordered"}
    n_s = 0
    for f in ast.walk(mod.tree):
        if not isinstance(f, (ast.FunctionDef, ast.AsyncFunctionDef)):
            continue
        for c in calls(f, "sorted", nested=False) if "nested" in calls.__code__.co_varnames else [c_ for c_ in walk_no_nested(f) if isinstance(c_, ast.Call) and call_name(c_) == "sorted"]:
            n_s += 1
            what = unparse(c.args[0]) if c.args else "?"
            why = SORT_OK.get((f.name, what))
            ctx.ob("ORD.sorted-only-unordered", c, f"{f.name}: sorted({what[:60]}) -- {why or 'not a reviewed unordered source'}", why is not None, "" if why else "the sorted sequence has a meaningful order (pickle buffers, fields, elements): values that differ only in arrangement get one token", nontrivial=why is None)
    ctx.count("sorted_sites", n_s)
    ctx.floor("sorted_sites", 3)
    # ---------------- recursive containers: a back-reference names the POSITION of its target on the current path
    sf = mod.func("_normalize_seq_func")
    reg_ = find("_SEEN[id(seq)] = (len(_SEEN), seq)", sf) + find("_SEEN[id(seq)] = len(_SEEN), seq", sf)
    back = [r for r in returns(sf) if eqv(r.value, "('__seen', _SEEN[id(seq)][0])")]
    ok = len(reg_) >= 1 and len(back) == 1
    ctx.ob("INJ.seen-depth", sf, "_SEEN[id(seq)] = (len(_SEEN), seq): the back-reference ('__seen', n) carries the depth at which its target was entered", ok, "" if ok else "any other number (the target's length, a constant) does not say WHICH ancestor the cycle closes on: a=[1,b], b=[2,a] and a=[1,b], b=[2,b] collide")
    # _tokenize: kwargs are sorted by name and kept apart from args
    f = mod.func("_tokenize")
    ok = bool(find("_normalize_seq_func(sorted(kwargs.items()))", f)) and bool(find("_normalize_seq_func(args)", f))
    ctx.ob("TAB.tokenize-kwargs", f, "_tokenize normalises args in order and kwargs sorted by name", ok)
    ok = (all(Pat("hashlib.md5(str(token).encode(), usedforsecurity=False).hexdigest()").match(r.value) is not None for r in returns(f)) and bool(returns(f)))
    ctx.ob("TAB.tokenize-hash", f, "_tokenize hashes str(token)", ok)

    # ---------------- EFFECT.entropy
    n_ent = 0
    for qn, f in mod.functions():
        for c in calls(f, None, nested=False):
            nm = call_name(c)
            if nm in ("uuid.uuid4", "uuid4", "id", "time.time", "random.random", "os.urandom"):
                if nm == "id":
                    # id() used as a *visited-set key* (recursion guard) is not a token ingredient
                    st = enclosing_stmt(c)
                    txt = unparse(st)
                    if "_SEEN" in txt:
                        continue
                n_ent += 1
                g = cfg_of(f)
                gate = [k for k in calls(f, "_maybe_raise_nondeterministic", nested=False)]
                ok = any(g.dominates(g.node_of(k), g.node_of(c)) for k in gate)
                ctx.ob("EFFECT.entropy", c, f"{nm}() in {qn}", ok, "after the non-determinism gate" if ok else "ambient entropy reaches a token without passing _maybe_raise_nondeterministic")
    ctx.count("entropy_sites", n_ent)
    ctx.floor("entropy_sites", 3)
    gate = mod.func("_maybe_raise_nondeterministic")
    ok = any(isinstance(n, ast.Raise) for n in ast.walk(gate)) and bool(find("config.get('tokenize.ensure-deterministic')", gate))
    ctx.ob("EFFECT.gate", gate, "_maybe_raise_nondeterministic raises when determinism is required", ok)

    # ---------------- recursion guard is paired
    for fname in ("normalize_dict", "_normalize_seq_func"):
        f = mod.func(fname)
        sets = find("_SEEN[id(M_x)] = M_v", f)
        ok = bool(sets)
        if ok:
            t, part = try_of(sets[0][0])
            # the removal sits in a finally that follows the insertion
            fins = [n for n in ast.walk(f) if isinstance(n, ast.Try) and n.finalbody and ("_SEEN.pop(id(" in unparse(n.finalbody) or "del _SEEN[id(" in unparse(n.finalbody))]
            ok = bool(fins) and dominates(f, sets[0][0], fins[0])
        ctx.ob("PAIR.seen-guard", f, f"{fname}: _SEEN[id(x)] set; removed in finally", ok)
    tk = mod.func("tokenize")
    ok = bool(find("seen_before, _SEEN = _SEEN, {}", tk)) and any(isinstance(n, ast.Try) and "_SEEN = seen_before" in unparse(n.finalbody) for n in ast.walk(tk))
    ctx.ob("PAIR.seen-scope", tk, "tokenize swaps _SEEN and restores it in finally", ok)
    handler_covers_fields(ctx)
    # ---------------- round 4b (C12-m8): a class object is tokenized with its __slotnames__ cache primed
    from ..lib import eqv as _e4, dominates as _d4
    no4 = ctx.model.module("dask/tokenize.py").func("normalize_object")
    pk4 = [n for n in ast.walk(no4) if isinstance(n, ast.Call) and _e4(n.func, "_normalize_pickle")]
    pr4 = [n for n in no4.body if isinstance(n, ast.If) and _e4(n.test, "isinstance(o, type)") and any(isinstance(s_, ast.Expr) and _e4(s_.value, "copyreg._slotnames(o)") for s_ in n.body)]
    ok = len(pk4) == 1 and len(pr4) == 1 and pr4[0].lineno < pk4[0].lineno and not any(isinstance(s_, ast.Return) for s_ in ast.walk(pr4[0]))
    ctx.ob("EFFECT.slotnames.primed", pr4[0] if pr4 else no4, "normalize_object calls copyreg._slotnames(o) for class objects before pickling them", ok, "" if ok else "copy/pickle of any instance adds __slotnames__ to the class __dict__: a locally defined class tokenized by value changes its token in the same process")


VARIANTS = [
    (TOK, "            + [normalize_token(x) for x in ind.levels]", "            + [normalize_token(x) for x in ind._levels]", "INJ.private-attr"),
    (TOK, "        for field in dataclasses.fields(obj)\n    ]", "        for field in dataclasses.fields(obj)\n        if field.init\n    ]", "INJ.dataclass-all-fields"),
    (TOK, "        return (data, x.dtype, x.shape)", "        return (data, x.dtype.str, x.shape)", "INJ.typed-buffer"),
    (TOK, "        if dtype.kind == \"V\":", "        if False:", "INJ.dtype"),
    (TOK, "                except UnicodeDecodeError:\n                    # bytes fast-path", "                except TypeError:\n                    # bytes fast-path", "INJ.alternatives"),
    (TOK, '                data = hash_buffer_hex(x.ravel(order="C").view("i1"))', '                data = hash_buffer_hex(x.ravel(order="K").view("i1"))', "INJ.layout"),
    (TOK, "                data = data, hash_buffer_hex(\n                    np.fromiter(map(len, x.flat), dtype=\"i8\", count=x.size)\n                )\n", "", "INJ.join"),
    (TOK, "        return hash_buffer_hex(np.ascontiguousarray(mm)), mm.dtype, mm.shape", "        return hash_buffer_hex(np.ascontiguousarray(mm))", "INJ.typed-buffer"),
    (TOK, "sorted(d.items(), key=lambda kv: (str(kv[0]), type(kv[0]).__name__))", "sorted(d.items(), key=lambda kv: str(kv[0]))", "ORD.canonical"),
    (TOK, "        return (data, x.dtype, x.shape)", "        return (data, x.dtype)", "INJ.typed-buffer"),
    (TOK, '    return type(seq).__name__, _normalize_seq_func(seq)', '    return _normalize_seq_func(seq)', "TAB.type-tag"),
    (TOK, '            return "dict", _normalize_seq_func(', '            return "set", _normalize_seq_func(', "TAB.type-tag"),
    (TOK, '        _maybe_raise_nondeterministic("Failed to tokenize deterministically")\n        pik = int(uuid.uuid4())', '        pik = int(uuid.uuid4())', "EFFECT.entropy"),
    (TOK, "        token = token, _normalize_seq_func(sorted(kwargs.items()))", "        token = token, _normalize_seq_func(kwargs.items())", "TAB.tokenize-kwargs"),
]


def selftest(ctx):
    from ..variants import selftest as st

    return st(ctx, "C12", VARIANTS)
