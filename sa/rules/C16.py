"""C16 -- graph manipulation keeps values and changes only keys and ordering (narrow, structural).

Decided (necessary conditions visible in the shape of dask/graph_manipulation.py, Layer.clone in
dask/highlevelgraph.py and Blockwise.clone in dask/blockwise.py):
 SEED.uniform        every clone_key(...) in _bind_one / Layer.clone / Blockwise.clone uses the function's
                     own, unmodified `seed` parameter; bind forwards its seed to _bind_one, _bind_one to
                     layer.clone, clone to bind (a second seed would make cloned layers refer to keys
                     that do not exist, or leave output keys shared with the original)
 SEED.fresh          bind draws a uuid4 seed only when seed is None (separate clones never share keys)
 IDENT.chunks        chunks.bind returns its first argument (values unchanged); chunks.checkpoint
                     returns None
 OMIT.partition      in _bind_one the dependency layers are split into `- omit_layers` (cloned, renamed
                     with clone_key) and `& omit_layers` (copied verbatim, name kept); clone_keys excludes
                     omit_keys and the output keys of every omit layer
 BIND.blocker        blocker_key is forwarded as bind_to; a bound layer depends on the blocker
 RENAME.outputs      the rebuilt collection is renamed prev_name -> clone_key(prev_name, seed) for
                     every previous collection name
 LAYER.clone         Layer.clone: a key in `keys` is stored under clone_key(key, seed), its value goes
                     through clone_value, the leaf flag is reset per key and a leaf is wrapped in
                     (chunks.bind, value, bind_to); clone_value leaves non-keys untouched and recurses
                     into task tuples, lists and dict values
 BLOCKWISE.clone     Blockwise.clone renames output, task key, the indices and numblocks entries whose
                     name is among the cloned names; a leaf is bound through an extra TaskRef(bind_to)
                     index whose placeholder index is taken before the append
 CHECKPOINT.cover    _checkpoint_one covers every key: single-key branch passes all keys, the map step
                     ranges over all collection names and collects every map key, the recursive
                     reduction consumes a prefix and keeps exactly the complementary suffix plus the new
                     key, and the final node takes what is left
 WAIT.blocker        wait_on binds every chunk to one checkpoint of all inputs
Not decided: value equality on concrete graphs; scheduling order at run time.
"""
from __future__ import annotations

import ast

from ..lib import *

EXPLANATION = (
    "Structural necessary conditions of clone/bind/wait_on/checkpoint: one seed is used for every key "
    "regeneration along bind -> _bind_one -> Layer.clone/Blockwise.clone and for the output rename; omit "
    "layers are kept verbatim and everything else is cloned; the blocker key reaches every leaf of the cloned "
    "graph and the layer dependencies; checkpoint's map/reduce covers every key; the inserted graph nodes are "
    "identities.  Value equality on concrete graphs and run-time ordering are NOT decided."
)
ASSUMPTIONS = ["clone_key(key, seed) is injective in key for a fixed seed (dask.base)", "the scheduler runs a task only after its dependencies (C02)"]
GM = "dask/graph_manipulation.py"
HLG = "dask/highlevelgraph.py"
BW = "dask/blockwise.py"


def _seed_calls(ctx, f, label):
    """All clone_key calls in f use the unmodified seed parameter."""
    n = 0
    for c in calls(f, "clone_key"):
        n += 1
        s = arg_or_kw(c, 1, "seed")
        host = enclosing_function(c)
        ok = s is not None and isinstance(s, ast.Name) and s.id == "seed"
        if ok:
            # `seed` must be the parameter of the outermost function (closures read it)
            outer = f
            ok = "seed" in [a.arg for a in outer.args.args + outer.args.kwonlyargs] and not any(
                isinstance(t, ast.Name) and t.id == "seed" for st in ast.walk(outer) if isinstance(st, (ast.Assign, ast.AugAssign, ast.AnnAssign)) for t in (st.targets if isinstance(st, ast.Assign) else [st.target])
            )
        ctx.ob("SEED.uniform", c, f"{label}: {unparse(c)} uses the caller's seed", ok, "" if ok else "a key is regenerated with a different seed than the rest of the clone: references between cloned layers break or keys stay shared")
    return n


def check(ctx):
    model = ctx.model
    gm = model.module(GM)
    bind = gm.func("bind")
    bind_one = gm.func("_bind_one")
    clone = gm.func("clone")
    wait_on = gm.func("wait_on")
    ck = gm.func("checkpoint")
    ck1 = gm.func("_checkpoint_one")
    bml = gm.func("_build_map_layer")
    lclone = model.klass(HLG, "Layer").own_methods["clone"]
    bclone = model.klass(BW, "Blockwise").own_methods["clone"]

    # ---------------- SEED
    n = _seed_calls(ctx, bind_one, "_bind_one") + _seed_calls(ctx, lclone, "Layer.clone") + _seed_calls(ctx, bclone, "Blockwise.clone")
    ctx.count("clone_key_sites", n)
    ctx.floor("clone_key_sites", 8, "clone_key calls in _bind_one, Layer.clone, Blockwise.clone")
    fresh = find("seed = M_v", bind, nested=False)
    ok = len(fresh) == 1 and Pat("uuid.uuid4().bytes").match(fresh[0][1]["M_v"]) is not None
    if ok:
        raw = cfg_of(bind).facts(fresh[0][0])
        ok = any(eqv(e, "seed is None") and pol for e, pol in raw)
    ctx.ob("SEED.fresh", bind, "bind: seed = uuid4 bytes only when seed is None", ok, "" if ok else "a given seed is replaced, or unseeded clones share one seed")
    bo = calls(bind, "_bind_one")
    ok = len(bo) == 1
    if ok:
        b = bind_call(bo[0], bind_one)
        ok = all(k in b and unparse(b[k]) == v for k, v in (("child", "child"), ("blocker", "blocker"), ("omit_layers", "omit_layers"), ("omit_keys", "omit_keys"), ("seed", "seed")))
    ctx.ob("SEED.deleg.bind", bind, "bind -> _bind_one(child, blocker, omit_layers, omit_keys, seed)", ok)
    lc = [c for c in calls(bind_one, "clone") if isinstance(c.func, ast.Attribute) and eqv(c.func.value, "layer")]
    ok = len(lc) == 1 and unparse(kwarg(lc[0], "seed") or arg_or_kw(lc[0], 1, "seed")) == "seed" and unparse(arg_or_kw(lc[0], 0, "keys")) == "clone_keys" and unparse(arg_or_kw(lc[0], 2, "bind_to")) == "blocker_key"
    ctx.ob("SEED.deleg.layer", bind_one, "_bind_one -> layer.clone(keys=clone_keys, seed=seed, bind_to=blocker_key)", ok)
    cb = calls(clone, "bind")
    ok = len(cb) == 1 and unparse(kwarg(cb[0], "seed")) == "seed" and unparse(kwarg(cb[0], "omit")) == "omit" and unparse(kwarg(cb[0], "assume_layers")) == "assume_layers" and const(kwarg(cb[0], "parents")) is None and kwarg(cb[0], "parents") is not None
    ctx.ob("SEED.deleg.clone", clone, "clone -> bind(collections, parents=None, omit=omit, seed=seed, assume_layers=assume_layers)", ok)
    # blocker: a checkpoint of the parents unless parents is None
    bl = find("blocker = M_v", bind, nested=False)
    ok = len(bl) == 1 and isinstance(bl[0][1]["M_v"], ast.IfExp) and unparse(bl[0][1]["M_v"].test) == "parents is not None" and call_name(bl[0][1]["M_v"].body) == "checkpoint" and unparse(bl[0][1]["M_v"].body.args[0]) == "parents" and const(bl[0][1]["M_v"].orelse) is None
    ctx.ob("BIND.blocker.checkpoint", bind, "blocker = checkpoint(parents, ...) if parents is not None else None", ok)

    # ---------------- IDENT
    ch = model.klass(GM, "chunks")
    fb = ch.own_methods["bind"]
    first = fb.args.args[0].arg if fb.args.args else None
    rs = returns(fb)
    ok = len(rs) == 1 and first is not None and unparse(rs[0].value) == first
    ctx.ob("IDENT.chunks.bind", fb, "chunks.bind(node, *args) returns node", ok, "" if ok else "the inserted node changes the value it passes through")
    fc = ch.own_methods["checkpoint"]
    ok = all(r.value is None or const(r.value) is None for r in returns(fc))
    ctx.ob("IDENT.chunks.checkpoint", fc, "chunks.checkpoint returns None", ok)

    # ---------------- OMIT
    ok = bool(find("layer_deps_to_clone = layer_deps - omit_layers", bind_one)) and bool(find("layer_deps_to_omit = layer_deps & omit_layers", bind_one))
    ctx.ob("OMIT.partition.split", bind_one, "layer deps split into (- omit_layers) and (& omit_layers)", ok)
    ok = bool(find("layers_to_clone |= layer_deps_to_clone", bind_one)) and bool(find("layers_to_copy_verbatim |= layer_deps_to_omit", bind_one))
    ctx.ob("OMIT.partition.worklists", bind_one, "cloned deps go to layers_to_clone, omitted deps to layers_to_copy_verbatim", ok)
    nd = find("new_dep = M_v", bind_one, nested=False)
    ok = len(nd) == 1 and Pat("{clone_key(dep, seed=seed) for dep in layer_deps_to_clone} | layer_deps_to_omit").match(nd[0][1]["M_v"]) is not None
    ctx.ob("OMIT.partition.deps", bind_one, "new layer deps = {clone_key(dep) for cloned deps} | omitted deps (verbatim)", ok)
    ok = bool(find("clone_keys = dsk.get_all_external_keys() - omit_keys", bind_one))
    ctx.ob("OMIT.keys", bind_one, "clone_keys = all keys - omit_keys", ok)
    sub = find("clone_keys -= layer.get_output_keys()", bind_one)
    ok = len(sub) == 1
    if ok:
        loops = enclosing_loops(sub[0][0])
        ok = bool(loops) and eqv(loops[0].iter, "omit_layers") and eqv(loops[0].target, "layer_name") and bool(find("layer = dsk.layers[layer_name]", loops[0]))
    ctx.ob("OMIT.keys.layers", bind_one, "for layer_name in omit_layers: clone_keys -= that layer's output keys", ok)
    # verbatim copy keeps name, deps and layer object
    ok = bool(find("new_deps[layer_name] = layer_deps", bind_one)) and bool(find("new_layers[layer_name] = dsk.layers[layer_name]", bind_one)) and bool(find("layers_to_copy_verbatim |= layer_deps", bind_one))
    ctx.ob("OMIT.verbatim", bind_one, "omitted layers are copied under their own name with their own dependencies, transitively", ok)
    # new layer is stored under the cloned name
    st = find("(new_layers[new_layer_name], is_bound) = M_v", bind_one) or find("new_layers[new_layer_name], is_bound = M_v", bind_one)
    nm = find("new_layer_name = clone_key(prev_layer_name, seed=seed)", bind_one) or find("new_layer_name = clone_key(prev_layer_name, seed)", bind_one)
    ok = bool(st) and bool(nm) and bool(find("new_deps[new_layer_name] = new_dep", bind_one)) and bool(find("layer = dsk.layers[prev_layer_name]", bind_one)) and bool(find("layer_deps = dsk.dependencies[prev_layer_name]", bind_one))
    ctx.ob("OMIT.clone.store", bind_one, "cloned layer and its deps are stored under clone_key(prev_layer_name, seed)", ok)

    # ---------------- BIND
    adds = find("new_dep.add(blocker_key)", bind_one)
    ok = len(adds) == 1 and isinstance(getattr(enclosing_stmt(adds[0][0]), "_parent", None), ast.If) and eqv(enclosing_stmt(adds[0][0])._parent.test, "is_bound") and enclosing_stmt(adds[0][0]) in enclosing_stmt(adds[0][0])._parent.body
    ctx.ob("BIND.blocker.dep", bind_one, "a bound layer depends on the blocker layer", ok)
    ok = bool(find("blocker_key = blocker.key", bind_one)) and bool(find("new_layers.update(blocker_dsk.layers)", bind_one)) and bool(find("new_deps.update(blocker_dsk.dependencies)", bind_one))
    ctx.ob("BIND.blocker.graph", bind_one, "the blocker's layers and dependencies are part of the new graph", ok)

    # ---------------- RENAME
    rb = [c for c in calls(bind_one, "rebuild")]
    ok = len(rb) == 1 and Pat("{prev_name: clone_key(prev_name, seed) for prev_name in prev_coll_names}").match(kwarg(rb[0], "rename")) is not None and eqv(rb[0].args[0], "HighLevelGraph(new_layers, new_deps)")
    ctx.ob("RENAME.outputs", bind_one, "rebuild(HighLevelGraph(new_layers, new_deps), *args, rename={prev: clone_key(prev, seed)})", ok)

    # ---------------- LAYER.clone
    cv = next((n for n in ast.walk(lclone) if isinstance(n, ast.FunctionDef) and n.name == "clone_value"), None)
    if cv is None:
        raise AnchorMissing("Layer.clone.clone_value not found")
    loop = next((n for n in walk_no_nested(lclone) if isinstance(n, ast.For) and eqv(n.iter, "self.items()")), None)
    if loop is None:
        raise AnchorMissing("Layer.clone: `for key, value in self.items()` not found")
    ren = find("key = clone_key(key, seed)", loop)
    reset = find("is_leaf = True", loop)
    cvc = find("value = clone_value(value)", loop)
    wrap = find("value = (chunks.bind, value, bind_to)", loop)
    bnd = find("bound = True", loop)
    store = find("dsk_new[key] = value", loop)
    ok = len(ren) == 1 and any(eqv(e, "key in keys") and pol for e, pol in cfg_of(lclone).facts(ren[0][0]))
    ctx.ob("LAYER.clone.rename", lclone, "a key in `keys` is stored under clone_key(key, seed)", ok)
    ok = len(reset) == 1 and len(cvc) == 1 and dominates(lclone, reset[0][0], cvc[0][0]) and enclosing_loops(reset[0][0])[:1] == [loop]
    ctx.ob("LAYER.clone.leaf-reset", lclone, "is_leaf = True is reset for every key before its value is rewritten", ok, "" if ok else "the leaf flag leaks from one key to the next: later leaves are not bound to the blocker")
    ok = len(wrap) == 1 and len(bnd) >= 1 and len(cvc) == 1 and dominates(lclone, cvc[0][0], wrap[0][0])
    if ok:
        facts = [(unparse(e), pol) for e, pol in cfg_of(lclone).facts(wrap[0][0])]
        ok = ("bind_to is None", False) in facts and ("is_leaf", True) in facts and any(control_equivalent(lclone, wrap[0][0], b_[0]) for b_ in bnd)
    ctx.ob("LAYER.clone.bind-leaf", lclone, "if bind_to is not None and is_leaf: value = (chunks.bind, value, bind_to); bound = True", ok)
    ok = len(store) == 1 and store[0][0] in loop.body
    ctx.ob("LAYER.clone.store", lclone, "every key (cloned or not) is stored in the new layer", ok)
    ok = (all(Pat("(MaterializedLayer(dsk_new), bound)").match(r.value) is not None for r in returns(lclone)) and bool(returns(lclone)))
    ctx.ob("LAYER.clone.result", lclone, "returns (MaterializedLayer(dsk_new), bound)", ok)
    # clone_value
    rk = find("clone_key(o, seed)", cv)
    ok = len(rk) == 1 and isinstance(enclosing_stmt(rk[0][0]), ast.Return)
    fl = find("is_leaf = False", cv)
    ok = ok and len(fl) == 1 and dominates(cv, fl[0][0], enclosing_stmt(rk[0][0]))
    ctx.ob("LAYER.clone.value.key", cv, "a replaced key clears the leaf flag and becomes clone_key(o, seed)", ok)
    keep = [r for r in returns(cv) if eqv(r.value, "o")]
    ok = len(keep) >= 1 and any(any(eqv(e, "o in keys") and pol is False for e, pol in cfg_of(cv).facts(r)) for r in keep)
    ctx.ob("LAYER.clone.value.keep", cv, "anything that is not in `keys` is returned unchanged", ok)
    rec = {"tuple": "(o[0],) + tuple((clone_value(i) for i in o[1:]))", "list": "[clone_value(i) for i in o]", "dict": "{k: clone_value(v) for k, v in o.items()}"}
    got = {unparse(r.value) for r in returns(cv)}
    for kind, pat in rec.items():
        ok = unparse(ast.parse(pat).body[0].value) in got
        ctx.ob("LAYER.clone.value.recurse", cv, f"clone_value recurses into {kind}: {pat}", ok, "" if ok else "keys nested in this container kind are not renamed: the clone keeps referring to the original's keys")

    # ---------------- BLOCKWISE.clone
    bw_ret = [r for r in returns(bclone) if isinstance(r.value, ast.Tuple) and isinstance(r.value.elts[0], ast.Call) and call_name(r.value.elts[0]) == "Blockwise"]
    ok = len(bw_ret) == 1
    if ok:
        c = bw_ret[0].value.elts[0]
        kw = {k.arg: unparse(k.value) for k in c.keywords}
        want = {"output": "clone_key(self.output, seed)", "output_indices": "self.output_indices", "task": "newtask", "indices": "indices", "numblocks": "numblocks", "concatenate": "self.concatenate", "new_axes": "self.new_axes", "output_blocks": "self.output_blocks", "annotations": "self.annotations", "io_deps": "self.io_deps"}
        bad = {k: (kw.get(k), v) for k, v in want.items() if kw.get(k) != v}
        ok = not bad
        ctx.ob("BLOCKWISE.clone.fields", bclone, "the clone keeps every field, with output renamed and the rewritten task/indices/numblocks", ok, "" if ok else f"differs: {bad}")
        ok = eqv(bw_ret[0].value.elts[1], "bind_to is not None and is_leaf")
        ctx.ob("BLOCKWISE.clone.bound-flag", bclone, "second result is (bind_to is not None and is_leaf)", ok)
    else:
        ctx.ob("BLOCKWISE.clone.fields", bclone, "returns (Blockwise(...), bound)", False)
    iloop = next((n for n in walk_no_nested(bclone) if isinstance(n, ast.For) and eqv(n.iter, "self.indices")), None)
    nloop = next((n for n in walk_no_nested(bclone) if isinstance(n, ast.For) and eqv(n.iter, "self.numblocks.items()") and not isinstance(getattr(n, "_parent", None), ast.If)), None)
    if iloop is None or nloop is None:
        raise AnchorMissing("Blockwise.clone: loops over self.indices / self.numblocks.items() not found")
    r1 = find("k = clone_key(k, seed)", iloop)
    r2 = find("k = TaskRef(clone_key(k.key, seed))", iloop)
    ok = len(r1) == 1 and len(r2) == 1 and any("k in names" in unparse(e) and pol for e, pol in cfg_of(bclone).facts(r1[0][0])) and any("k.key in names" in unparse(e) and pol for e, pol in cfg_of(bclone).facts(r2[0][0]))
    ok = ok and bool(find("indices.append((k, idxv))", iloop)) and len(find("is_leaf = False", iloop)) == 2
    ctx.ob("BLOCKWISE.clone.indices", bclone, "index entries naming a cloned collection (plain or TaskRef) are renamed and clear the leaf flag; every entry is kept", ok)
    r3 = find("k = clone_key(k, seed)", nloop)
    ok = len(r3) == 1 and any(eqv(e, "k in names") and pol for e, pol in cfg_of(bclone).facts(r3[0][0])) and bool(find("numblocks[k] = nbv", nloop))
    ctx.ob("BLOCKWISE.clone.numblocks", bclone, "numblocks entries of cloned collections are renamed with the same key function", ok)
    ok = bool(find("names = {get_name_from_key(k) for k in keys}", bclone))
    ctx.ob("BLOCKWISE.clone.names", bclone, "names = {get_name_from_key(k) for k in keys}", ok)
    ap = find("indices.append((TaskRef(bind_to), None))", bclone)
    nt = [c for c in calls(bclone, "Task") if any(eqv(a, "chunks.bind") for a in c.args)]
    ok = len(ap) == 1 and len(nt) == 1
    if ok:
        c = nt[0]
        ok = eqv(c.args[0], "clone_key(self.task.key, seed)") and eqv(c.args[1], "chunks.bind") and eqv(c.args[2], "self.task") and eqv(c.args[3], "TaskRef(blockwise_token(len(indices)))")
        ok = ok and dominates(bclone, enclosing_stmt(c), ap[0][0]) and {("bind_to is None", False), ("is_leaf", True)} <= {(unparse(e), pol) for e, pol in cfg_of(bclone).facts(ap[0][0])}
    ctx.ob("BLOCKWISE.clone.bind-leaf", bclone, "leaf: task wrapped in chunks.bind with a placeholder for the new last index, then (TaskRef(bind_to), None) appended", ok, "" if ok else "the blocker is not wired into the leaf layer (or the placeholder index is taken after the append)")
    sub = find("newtask = self.task.substitute({}, key=clone_key(self.task.key, seed))", bclone)
    ok = len(sub) == 1
    ctx.ob("BLOCKWISE.clone.task-key", bclone, "non-leaf: the task is re-keyed with clone_key(self.task.key, seed)", ok)

    # ---------------- CHECKPOINT
    one = find("layer = {name: (chunks.checkpoint, collection.__dask_keys__())}", ck1) or find("layer: Graph = {name: (chunks.checkpoint, collection.__dask_keys__())}", ck1)
    ok = bool(one) and bool(find("HighLevelGraph.from_collections(name, layer, dependencies=(collection,))", ck1))
    ctx.ob("CHECKPOINT.cover.small", ck1, "0/1-key collections: one node taking all keys, depending on the collection", ok)
    mloop = next((n for n in walk_no_nested(ck1) if isinstance(n, ast.For) and eqv(n.iter, "get_collection_names(collection)")), None)
    ok = mloop is not None and bool(find("map_keys += list(map_layer.get_output_keys())", mloop)) and bool(find("map_layer = _build_map_layer(chunks.checkpoint, prev_name, map_name, collection)", mloop)) and bool(find("map_names.add(map_name)", mloop))
    ok = ok and bool(find("HighLevelGraph.from_collections(map_name, map_layer, dependencies=(collection,))", mloop))
    ctx.ob("CHECKPOINT.cover.map", ck1, "for every collection name a map layer over all of its keys; all map keys are collected", ok)
    wl = next((n for n in walk_no_nested(ck1) if isinstance(n, ast.While)), None)
    ok = wl is not None and eqv(wl.test, "split_every and len(map_keys) > split_every")
    if ok:
        a = find("reduce_layer[k] = (chunks.checkpoint, map_keys[:split_every])", wl)
        b = find("map_keys = map_keys[split_every:] + [k]", wl)
        kdef = find("k = (name, len(reduce_layer))", wl)
        ok = len(a) == 1 and len(b) == 1 and len(kdef) == 1 and dominates(ck1, kdef[0][0], a[0][0]) and dominates(ck1, a[0][0], b[0][0])
    ctx.ob("CHECKPOINT.cover.reduce", ck1, "reduction step consumes map_keys[:s] and keeps map_keys[s:] + [new key] (same bound, nothing dropped)", ok, "" if ok else "the recursive aggregation drops or duplicates keys: checkpoint no longer waits for every chunk")
    fin = find("reduce_layer[name] = (chunks.checkpoint, map_keys)", ck1)
    ok = len(fin) == 1 and wl is not None and not in_subtree(fin[0][0], wl) and fin[0][0].lineno > wl.lineno
    ctx.ob("CHECKPOINT.cover.final", ck1, "the final node takes every remaining key", ok)
    ok = bool(find("HighLevelGraph({name: reduce_layer}, dependencies={name: map_names})", ck1)) and bool(find("HighLevelGraph.merge(*dsks)", ck1))
    ctx.ob("CHECKPOINT.cover.deps", ck1, "the reduce layer depends on every map layer; all graphs are merged", ok)
    multi = find("delayed(chunks.checkpoint)(*(_checkpoint_one(c, split_every) for c in collections))", ck)
    single = find("_checkpoint_one(collections[0], split_every)", ck)
    ok = bool(multi) and bool(single)
    if ok:
        ok = any(eqv(e, "len(collections) == 1") and pol for e, pol in cfg_of(ck).facts(enclosing_stmt(single[0][0])))
    ctx.ob("CHECKPOINT.cover.collections", ck, "every unpacked collection gets its own checkpoint, joined by one node", ok)
    ok = bool(find("(collections, _) = unpack_collections(*collections)", ck)) or bool(find("collections, _ = unpack_collections(*collections)", ck))
    ctx.ob("CHECKPOINT.cover.unpack", ck, "nested structures are unpacked into their collections", ok)

    # ---------------- _build_map_layer
    bwc = [c for c in calls(bml, "blockwise")]
    ok = len(bwc) == 1
    if ok:
        c = bwc[0]
        ok = [unparse(a) for a in c.args] == ["func", "new_name", "indices", "prev_name", "indices"] and unparse(kwarg(c, "numblocks")) == "{prev_name: numblocks}" and unparse(kwarg(c, "dependencies")) == "dependencies"
    ctx.ob("MAP.blockwise", bml, "blockwise(func, new_name, indices, prev_name, indices, numblocks={prev_name: numblocks}, dependencies=dependencies)", ok)
    ml = [c for c in calls(bml, "MaterializedLayer")]
    ok = len(ml) == 1 and isinstance(ml[0].args[0], ast.DictComp)
    if ok:
        dc = ml[0].args[0]
        ok = eqv(dc.key, "replace_name_in_key(k, {prev_name: new_name})") and eqv(dc.value, "(func, k) + dep_keys") and eqv(dc.generators[0].iter, "flatten(collection.__dask_keys__())") and [unparse(i) for i in dc.generators[0].ifs] == ["get_name_from_key(k) == prev_name"]
        ok = ok and bool(find("dep_keys = tuple((d.key for d in dependencies))", bml))
    ctx.ob("MAP.materialized", bml, "{renamed key: (func, k) + dep_keys for every key of that name}", ok)
    dk = find("{'_deps': List(*[TaskRef(d.key) for d in dependencies])}", bml)
    ctx.ob("MAP.blockwise.deps", bml, "blockwise path passes the dependencies as TaskRefs (so they become graph edges)", bool(dk))

    # ---------------- WAIT
    b0 = find("blocker = checkpoint(*collections, split_every=split_every)", wait_on)
    blk = next((n for n in ast.walk(wait_on) if isinstance(n, ast.FunctionDef) and n.name == "block_one"), None)
    ok = bool(b0) and blk is not None
    if ok:
        ok = bool(find("_build_map_layer(chunks.bind, prev_name, new_name, coll, dependencies=(blocker,))", blk)) and bool(find("HighLevelGraph.from_collections(new_name, layer, dependencies=(coll, blocker))", blk))
        ok = ok and bool(find("rename[prev_name] = new_name", blk)) and bool(find("rebuild(dsk, *args, rename=rename)", blk))
        lp = next((n for n in walk_no_nested(blk) if isinstance(n, ast.For)), None)
        ok = ok and lp is not None and eqv(lp.iter, "get_collection_names(coll)")
    if ok:
        ok = bool(find("tok = tokenize(coll, blocker)", blk)) and bool(find("new_name = 'wait_on-' + tokenize(prev_name, tok)", blk))
    ctx.ob("WAIT.blocker", wait_on, "wait_on: one checkpoint of all inputs; every chunk of every name is bound to it and renamed", ok)
    ok = blk is not None and bool(find("repack([block_one(coll) for coll in unpacked])", wait_on))
    ctx.ob("WAIT.all", wait_on, "every unpacked collection is rebuilt", ok)
    # ---------------- Layer.clone: new-style graph nodes (Task / Alias / DataNode) are renamed and redirected too
    cn = next((f for f in ast.walk(lclone) if isinstance(f, ast.FunctionDef) and f.name == "clone_node"), None)
    if cn is None:
        ctx.ob("LAYER.clone.graphnode", lclone, "Layer.clone rewrites GraphNode values (their key and their references to replaced keys)", False, "a Task stored in a materialized layer keeps its old key and its TaskRefs to the originals: the clone of a delayed tree or of a sliced array fails with 'Missing dependency'")
    else:
        subs = find("subs = {k: clone_key(k, seed) for k in node.dependencies if k in keys}", cn)
        lf = find("is_leaf = False", cn)
        ok = len(subs) == 1 and len(lf) == 1 and any(eqv(e, "subs") and pol for e, pol in cfg_of(cn).facts(lf[0][0]))
        rets = {unparse(r.value) for r in returns(cn)}
        ok = ok and rets == {"Alias(key, subs.get(node.target, node.target))", "node.substitute(subs, key=key)"} and all(dominates(cn, subs[0][0], r) for r in returns(cn))
        ctx.ob("LAYER.clone.graphnode", cn, "clone_node: every dependency that is in `keys` is redirected to clone_key(k, seed) (clearing the leaf flag) and the node gets the new key", ok)
        top = find("value = clone_node(value, key)", loop)
        ok = len(top) == 1 and len(ren) == 1 and len(reset) == 1 and any(eqv(e, "isinstance(value, GraphNode)") and pol for e, pol in cfg_of(lclone).facts(top[0][0])) and dominates(lclone, ren[0][0], top[0][0]) and dominates(lclone, reset[0][0], top[0][0])
        ctx.ob("LAYER.clone.graphnode.top", lclone, "a GraphNode value of a replaced key is rewritten by clone_node under the NEW key", ok)
        ok = any(eqv(r.value, "clone_node(o, o.key)") and any(eqv(e, "isinstance(o, GraphNode)") and pol for e, pol in cfg_of(cv).facts(r)) for r in returns(cv))
        ctx.ob("LAYER.clone.graphnode.nested", cv, "a GraphNode nested in a legacy value is rewritten in place (own key kept)", ok)
        wrap2 = find("value = Task(key, chunks.bind, value, TaskRef(bind_to))", loop)
        ok = len(wrap2) == 1 and len(top) == 1 and dominates(lclone, top[0][0], wrap2[0][0])
        if ok:
            facts = [(unparse(e), pol) for e, pol in cfg_of(lclone).facts(wrap2[0][0])]
            nb = [b_ for b_, _ in find("bound = True", loop)]
            ok = ("bind_to is None", False) in facts and ("is_leaf", True) in facts and any(control_equivalent(lclone, wrap2[0][0], b_) for b_ in nb)
        ctx.ob("LAYER.clone.graphnode.bind-leaf", lclone, "a GraphNode leaf is bound with Task(key, chunks.bind, value, TaskRef(bind_to)) and reported as bound", ok)
    # ---------------- every collection's postpersist rebuild understands the rename= that _bind_one passes
    n_pp = 0
    for ci in model.all_classes("dask"):
        pp = ci.own_methods.get("__dask_postpersist__")
        if pp is None or "/tests/" in ci.module.relpath or ci.module.relpath == "dask/typing.py":
            continue
        for r in returns(pp):
            if not (isinstance(r.value, ast.Tuple) and r.value.elts):
                ctx.ob("CALLCONV.rebuild.rename", pp, f"{ci.name}.__dask_postpersist__ returns (rebuild, state)", None, "unrecognised return shape")
                continue
            fn = r.value.elts[0]
            target = None
            if isinstance(fn, ast.Attribute) and isinstance(fn.value, ast.Name) and fn.value.id == "self":
                target = ci.method(fn.attr)[1]
            else:
                res = model.resolve_name(ci.module, unparse(fn), scope=pp)
                if res and res[0] != "ext":
                    target = res[1]
            if not isinstance(target, (ast.FunctionDef, ast.AsyncFunctionDef)):
                ctx.ob("CALLCONV.rebuild.rename", pp, f"{ci.name}.__dask_postpersist__ -> {unparse(fn)}", None, "rebuild callable not resolved")
                continue
            a = target.args
            names = [x.arg for x in a.posonlyargs + a.args + a.kwonlyargs]
            ok = "rename" in names or a.kwarg is not None
            n_pp += 1
            ctx.ob("CALLCONV.rebuild.rename", target, f"{ci.module.relpath}::{ci.name}.__dask_postpersist__ -> {unparse(fn)}({', '.join(names)}) accepts rename=", ok, "" if ok else "graph_manipulation._bind_one calls rebuild(graph, *state, rename={old: new}): clone(), bind() and wait_on() raise TypeError for this collection type")
    ctx.count("postpersist_rebuilds", n_pp)
    ctx.floor("postpersist_rebuilds", 6, "Array, Bag, Item, Delayed, FrameBase, array-expression Array")


VARIANTS = [
    (GM, "        tok = tokenize(coll, blocker)", "        tok = tokenize(coll, split_every)", "WAIT.blocker"),
    (GM, "        new_layer_name = clone_key(prev_layer_name, seed=seed)", "        new_layer_name = clone_key(prev_layer_name, seed=None)", "SEED.uniform"),
    (GM, "    if seed is None:\n        seed = uuid.uuid4().bytes", "    if not seed:\n        seed = uuid.uuid4().bytes", "SEED.fresh"),
    (GM, "        layer_deps_to_clone = layer_deps - omit_layers", "        layer_deps_to_clone = layer_deps", "OMIT.partition"),
    (GM, "        if is_bound:\n            new_dep.add(blocker_key)", "        if is_bound and layer_deps_to_omit:\n            new_dep.add(blocker_key)", "BIND.blocker.dep"),
    (GM, "        rename={prev_name: clone_key(prev_name, seed) for prev_name in prev_coll_names},", "        rename={prev_name: prev_name for prev_name in prev_coll_names},", "RENAME.outputs"),
    (GM, "        map_keys = map_keys[split_every:] + [k]", "        map_keys = map_keys[split_every + 1:] + [k]", "CHECKPOINT.cover.reduce"),
    (GM, "        return node\n", "        return None\n", "IDENT.chunks.bind"),
    (HLG, "            if key in keys:\n                key = clone_key(key, seed)\n                is_leaf = True\n", "            if key in keys:\n                key = clone_key(key, seed)\n", "LAYER.clone.leaf-reset"),
    (HLG, "            elif typ is dict:\n                return {k: clone_value(v) for k, v in o.items()}\n", "", "LAYER.clone.value.recurse"),
    (BW, "            if k in names:\n                is_leaf = False\n                k = clone_key(k, seed)\n            numblocks[k] = nbv", "            numblocks[k] = nbv", "BLOCKWISE.clone.numblocks"),
    (BW, "            output=clone_key(self.output, seed),", "            output=self.output,", "BLOCKWISE.clone.fields"),
    (GM, "                chunks.bind, prev_name, new_name, coll, dependencies=(blocker,)", "                chunks.bind, prev_name, new_name, coll, dependencies=()", "WAIT.blocker"),
]


def selftest(ctx):
    from ..variants import selftest as st

    return st(ctx, "C16", VARIANTS)
