"""C15 -- delayed programs evaluate like the eager Python program (narrow).

Decided:
 TOKFLOW.call          call_function names the task from the function token and *all* args/kwargs
                       (unless dask_key_name overrides), and builds Task(name, func, *args, **kwargs)
                       from the same args/kwargs
 EFFECT.pure           delayed.tokenize: pure=True delegates everything to the deterministic
                       tokenizer; only the impure branch draws a uuid4
 ALG.operators         every operator bound on Delayed is bound to the operator of the same name;
                       reflected versions swap operands (right(op) / _swap)
 CNT.iter              Delayed.__iter__ yields exactly self[i] for i in range(length)
 DELEG.attr/method     attribute access and method calls are named from (obj, attr)
"""
from __future__ import annotations

import ast

from ..lib import *
from ..tokflow import slice_params

EXPLANATION = (
    "Token-flow, effect and operator-table rules over dask/delayed.py and the operator mixin in dask/utils.py: "
    "the inputs of the task built by call_function equal the inputs of its key; entropy (uuid4) is confined "
    "to the impure branch of delayed.tokenize; each dunder bound on Delayed comes from the operator of the "
    "same name with operands swapped for the reflected form; __iter__ has exactly `length` items.  The values "
    "of delayed programs are NOT decided."
)
ASSUMPTIONS = ["Python data model: x.__add__(y) is operator.add(x, y); x.__radd__(y) is operator.add(y, x)"]
DEL = "dask/delayed.py"
UT = "dask/utils.py"
UNARY = {"abs", "invert", "neg", "pos"}
NO_REFLECT = {"eq", "gt", "ge", "lt", "le", "ne", "getitem"}


def check(ctx):
    model = ctx.model
    mod = model.module(DEL)
    cf = mod.func("call_function")
    # ---------------- call_function
    names = find("name = M_v", cf, nested=False)
    tok = [c for c in calls(cf, "tokenize")]
    ok = len(tok) == 1 and Pat("tokenize(func_token, *args, pure=pure, **kwargs)").match(tok[0]) is not None
    ctx.ob("TOKFLOW.call.token", cf, "name token = tokenize(func_token, *args, pure=pure, **kwargs)", ok, "" if ok else (unparse(tok[0]) if tok else "no tokenize call"))
    if tok:
        facts = inline_facts(cf, tok[0])
        okg = has_fact(facts, "dask_key_name is None", True) is not None
        ctx.ob("TOKFLOW.call.override", cf, "an explicit dask_key_name is the only way around the token", okg)
    tk = [c for c in calls(cf, "Task")]
    ok = len(tk) == 1 and Pat("Task(name, func, *args2, **dask_kwargs)").match(tk[0]) is not None
    ctx.ob("TOKFLOW.call.task", cf, "task = Task(name, func, *args2, **dask_kwargs)", ok)
    ok = bool(find("args2, collections = unzip(map(unpack_collections, args), 2)", cf)) and bool(find("dask_kwargs, collections2 = unpack_collections(kwargs)", cf))
    ctx.ob("TOKFLOW.call.same-inputs", cf, "the task's args/kwargs are the unpacked args/kwargs that were tokenized", ok)
    # kwargs popped before tokenizing are exactly the control keywords
    pops = sorted(const(c.args[0]) for c in calls(cf, "pop") if eqv(c.func.value, "kwargs") and c.args)
    ok = pops == ["dask_key_name", "pure"] and all(dominates(cf, c, tok[0]) for c in calls(cf, "pop")) if tok else False
    ctx.ob("TOKFLOW.call.control-kwargs", cf, "only dask_key_name and pure are removed from kwargs (before naming)", ok, f"popped {pops}")
    ok = (all(Pat("Delayed(name, graph, length=nout)").match(r.value) is not None for r in returns(cf)) and bool(returns(cf))) and bool(find("graph = HighLevelGraph.from_collections(name, {name: task}, dependencies=collections)", cf))
    ctx.ob("TOKFLOW.call.result", cf, "Delayed(name, graph over {name: task} with the argument collections as dependencies)", ok)
    # callers: DelayedLeaf / DelayedAttr
    leaf = mod.func("DelayedLeaf.__call__")
    ok = (all(Pat("call_function(self._obj, self._key, args, kwargs, pure=self._pure, nout=self._nout)").match(r.value) is not None for r in returns(leaf)) and bool(returns(leaf)))
    ctx.ob("DELEG.leaf-call", leaf, "DelayedLeaf.__call__ -> call_function(obj, key-as-function-token, args, kwargs, pure, nout)", ok)
    da = mod.func("DelayedAttr.__call__")
    ok = (all(Pat("call_function(methodcaller(self._attr), self._attr, (self._obj,) + args, kwargs)").match(r.value) is not None for r in returns(da)) and bool(returns(da)))
    ctx.ob("DELEG.method-call", da, "DelayedAttr.__call__ -> methodcaller(attr) applied to (obj, *args)", ok)
    di = mod.func("DelayedAttr.__init__")
    ok = bool(find("key = f'getattr-{tokenize(obj, attr, pure=True)}'", di)) and bool(find("self._obj = obj", di)) and bool(find("self._attr = attr", di))
    ctx.ob("DELEG.attr-name", di, "DelayedAttr key = getattr-<tokenize(obj, attr, pure=True)>", ok)
    dd = mod.func("DelayedAttr.dask")
    # TYPED-STORE: the attribute name is a literal.  In a legacy tuple task every string argument that
    # equals a key of the graph is taken for a reference to it, so the node must be a Task whose only
    # reference is an explicit TaskRef to the object.
    lay = find("layer = {self._key: M_v}", dd)
    ok = len(lay) == 1
    detail = ""
    if ok:
        v = lay[0][1]["M_v"]
        if isinstance(v, ast.Tuple):
            ok = False
            detail = f"legacy tuple task {unparse(v)}: the attribute name is re-interpreted as a key when a key of that name is in the graph (delayed(3+4j, name='real').real raises; a.shape picks up a key named 'shape')"
        else:
            ok = Pat("Task(self._key, getattr, TaskRef(self._obj._key), self._attr)").match(v) is not None
            detail = "" if ok else f"node is {unparse(v)}"
    ctx.ob("TYPED-STORE.attr-task", dd, "DelayedAttr node = Task(key, getattr, TaskRef(obj key), <literal attr>)", ok, detail)
    # delayed(): leaf and container naming
    df = mod.func("delayed")
    t1 = find("token = tokenize(obj, nout, pure=pure)", df, nested=False)
    t2 = find("name = f'{type(obj).__name__}-{tokenize(task, pure=pure)}'", df, nested=False)
    ok = bool(t1) and bool(t2) and all(has_fact(inline_facts(df, n), "name", False) is not None for n, _ in t1 + t2)
    ctx.ob("TOKFLOW.delayed-object", df, "delayed(obj): named from tokenize(obj, nout) / tokenize(task) unless a name is given", ok)

    # ---------------- tokenize purity
    tz = mod.func("tokenize")
    rets = returns(tz)
    pure_ret = [r for r in rets if Pat("_tokenize(*args, **kwargs)").match(r.value) is not None]
    impure_ret = [r for r in rets if "uuid" in unparse(r.value)]
    ok = len(pure_ret) == 1 and has_fact(inline_facts(tz, pure_ret[0]), "pure", True) is not None
    ctx.ob("EFFECT.pure.deterministic", tz, "pure=True -> deterministic tokenizer over all args and kwargs", ok)
    ok = len(impure_ret) == 1 and has_fact(inline_facts(tz, impure_ret[0]), "pure", False) is not None and len(rets) == 2
    ctx.ob("EFFECT.pure.entropy-confined", tz, "uuid4 only on the impure branch", ok)
    ent = [c for qn, f in mod.functions() for c in calls(f, None, nested=False) if call_name(c) in ("uuid.uuid4", "uuid4") and f is not tz]
    ctx.ob("EFFECT.pure.no-other-entropy", f"{DEL}::<module>", "no other uuid4 in dask/delayed.py", not ent, f"{[qualname_of(c) for c in ent]}")
    ok = bool(find("pure = config.get('delayed_pure', False)", tz)) and any(has_fact(inline_facts(tz, n), "pure is None", True) is not None for n, _ in find("pure = M_v", tz))
    ctx.ob("EFFECT.pure.default", tz, "pure defaults to the delayed_pure config (False)", ok)

    # ---------------- operators
    ops = []
    for n in ast.walk(mod.tree):
        if isinstance(n, ast.For) and isinstance(n.iter, ast.List) and any(Pat("Delayed._bind_operator(op)").match(x.value) is not None for x in n.body if isinstance(x, ast.Expr)):
            ops = [unparse(e) for e in n.iter.elts]
    ctx.count("delayed_bound_operators", len(ops))
    ctx.floor("delayed_bound_operators", 20)
    bad = [o for o in ops if not o.startswith("operator.")]
    ctx.ob("ALG.operators.table", f"{DEL}::<module>", f"{len(ops)} operators bound from the operator module", not bad and len(set(ops)) == len(ops), f"{bad}")
    need = {"add", "sub", "mul", "truediv", "floordiv", "mod", "pow", "and_", "or_", "xor", "lshift", "rshift", "eq", "ne", "lt", "le", "gt", "ge", "getitem", "neg", "pos", "abs", "invert"}
    have = {o.split(".")[1] for o in ops if "." in o}
    ctx.ob("ALG.operators.complete", f"{DEL}::<module>", "arithmetic, bitwise, comparison, unary and getitem operators are all bound", need <= have, f"missing {sorted(need - have)}")
    um = model.module(UT)
    bo = um.func("OperatorMethodMixin._bind_operator")
    ok = bool(find("name = op.__name__", bo)) and bool(find("meth = f'__{name}__'", bo)) and bool(find("rmeth = f'__r{name}__'", bo))
    ctx.ob("ALG.operators.dunder-from-name", bo, "dunder names derive from op.__name__ (and_/or_ stripped, inv -> invert)", ok)
    ok = bool(find("setattr(cls, meth, cls._get_binary_operator(op))", bo)) and bool(find("setattr(cls, rmeth, cls._get_binary_operator(op, inv=True))", bo)) and bool(find("setattr(cls, meth, cls._get_unary_operator(op))", bo))
    ctx.ob("ALG.operators.bind", bo, "__op__ <- op; __rop__ <- op with inv=True; unary <- op", ok)
    un = [n for n in ast.walk(bo) if isinstance(n, ast.Compare) and eqv(n.left, "name") and isinstance(n.comparators[0], ast.Tuple)]
    sets = [set(const(e) for e in n.comparators[0].elts) for n in un]
    ok = UNARY in sets and NO_REFLECT in sets
    ctx.ob("ALG.operators.classes", bo, "unary = {abs, invert, neg, pos}; not reflected = comparisons and getitem", ok, f"{sets}")
    gb = mod.func("Delayed._get_binary_operator")
    ok = bool(find("method = delayed(right(op) if inv else op, pure=True)", gb))
    ctx.ob("ALG.operators.reflected", gb, "reflected operator = right(op) (operands swapped), pure", ok)
    sw = mod.func("_swap")
    ok = (all(Pat("method(other, self)").match(r.value) is not None for r in returns(sw)) and bool(returns(sw))) and [a.arg for a in sw.args.args] == ["method", "self", "other"]
    ctx.ob("ALG.operators.swap", sw, "_swap(method, self, other) = method(other, self)", ok)
    rt = mod.func("right")
    ok = (all(Pat("partial(_swap, method)").match(r.value) is not None for r in returns(rt)) and bool(returns(rt)))
    ctx.ob("ALG.operators.right", rt, "right(method) = partial(_swap, method)", ok)

    # ---------------- __iter__ / __len__
    it = mod.func("Delayed.__iter__")
    ys = [n for n in ast.walk(it) if isinstance(n, ast.Yield)]
    ok = len(ys) == 1 and Pat("self[i]").match(ys[0].value) is not None
    loops = [l for l in walk_no_nested(it) if isinstance(l, ast.For)]
    ok = ok and len(loops) == 1 and Pat("range(self._length)").match(loops[0].iter) is not None and eqv(loops[0].target, "i")
    ctx.ob("CNT.iter", it, "for i in range(self._length): yield self[i]", ok)
    ok = any(isinstance(n, ast.Raise) and has_fact(inline_facts(it, n), "self._length is None", True) is not None for n in ast.walk(it))
    ctx.ob("CNT.iter.unknown-length", it, "unspecified length is not iterable", ok)
    # containers passed to delayed functions keep their type at every nesting level
    du = mod.func("unpack_collections")
    wraps = find("args = Task(None, typ, args)", du)
    ok = bool(wraps) and all(has_fact(inline_facts(du, n), "typ is list", False) is not None and not any("_return_collections" in unparse(e) for e, _ in cfg_of(du).facts(n)) for n, _ in wraps)
    ctx.ob("TAB.containers.type-nested", du, "unpack_collections rebuilds tuples/sets with their own type at every nesting level (not only at the top, where _return_collections is true)", ok, "" if ok else "tuples/sets nested inside other containers or keyword arguments come back as lists")
    pp = find("pure = kwargs.pop('pure', pure)", cf)
    tk_ = [c for c in calls(cf, "tokenize")]
    ok = len(pp) == 1 and bool(tk_) and all(dominates(cf, pp[0][0], enclosing_stmt(c)) for c in tk_) and not [a for a in walk_no_nested(cf) if isinstance(a, ast.Assign) and eqv(a.targets[0], "pure") and a is not pp[0][0]]
    ctx.ob("EFFECT.pure.per-call-wins", cf, "call_function: pure = kwargs.pop('pure', pure) -- the per-call keyword overrides the wrapper's setting, before the key is formed", ok, "" if ok else "a per-call pure= no longer overrides the setting the function was wrapped with: calls requested impure share one key (or pure ones get random keys)")
    dc = mod.func("Delayed.__call__")
    ok = bool(find("func = delayed(apply, pure=pure)", dc)) and all(unparse(r.value).startswith("func(self, args, kwargs") for r in returns(dc))
    ctx.ob("DELEG.delayed-call", dc, "calling a Delayed = delayed(apply)(self, args, kwargs)", ok)
    # ---------------- delayed(obj, nout=n): every way of building the Delayed hands the requested length on
    dlf = ctx.model.module("dask/delayed.py").func("delayed")
    built = [r for r in returns(dlf) if isinstance(r.value, ast.Call) and call_name(r.value) == "Delayed"]
    ctx.count("delayed_constructions", len(built))
    ctx.floor("delayed_constructions", 1)
    for r in built:
        a_ = r.value.args
        ok = (len(a_) >= 3 and eqv(a_[2], "nout")) or (kwarg(r.value, "length") is not None and eqv(kwarg(r.value, "length"), "nout"))
        ctx.ob("ARG.delayed.nout", r, f"{unparse(r.value)[:60]} passes nout as the length", ok, "" if ok else "the Delayed built from a container of Delayed values forgets its length: `x, y = delayed([a, b], nout=2)` raises 'unspecified length'")


VARIANTS = [
    (DEL, '    pure = kwargs.pop("pure", pure)', '    call_pure = kwargs.pop("pure", None)\n    if pure is None:\n        pure = call_pure', "EFFECT.pure.per-call-wins"),
    (DEL, '    """Wrapper to create \'right\' version of operator given left version"""\n    return partial(_swap, method)', '    """Wrapper to create \'right\' version of operator given left version"""\n    if method is operator.add:\n        return method\n    return partial(_swap, method)', "ALG.operators.right"),
    (DEL, "        # Ensure output type matches input type\n        if typ is not list:\n            args = Task(None, typ, args)\n", "            # Ensure output type matches input type\n            if typ is not list:\n                args = Task(None, typ, args)\n", "TAB.containers.type-nested"),
    (DEL, "            self._key: Task(\n                self._key, getattr, TaskRef(self._obj._key), self._attr\n            )", "            self._key: (getattr, self._obj._key, self._attr)", "TYPED-STORE.attr-task"),
    (DEL, "tokenize(func_token, *args, pure=pure, **kwargs)", "tokenize(func_token, *args, pure=pure)", "TOKFLOW.call.token"),
    (DEL, "    task = Task(name, func, *args2, **dask_kwargs)", "    task = Task(name, func, *args2)", "TOKFLOW.call.task"),
    (DEL, "    if pure:\n        return _tokenize(*args, **kwargs)\n    else:\n        return str(uuid.uuid4())", "    if pure:\n        return _tokenize(*args)\n    else:\n        return str(uuid.uuid4())", "EFFECT.pure.deterministic"),
    (DEL, "    return method(other, self)", "    return method(self, other)", "ALG.operators.swap"),
    (DEL, "        method = delayed(right(op) if inv else op, pure=True)", "        method = delayed(op, pure=True)", "ALG.operators.reflected"),
    (DEL, "        for i in range(self._length):\n            yield self[i]", "        for i in range(self._length - 1):\n            yield self[i]", "CNT.iter"),
    (DEL, "    operator.sub,\n    operator.mul,", "    operator.mul,", "ALG.operators.complete"),
    (UT, '            if name in ("eq", "gt", "ge", "lt", "le", "ne", "getitem"):', '            if name in ("eq", "gt", "ge", "lt", "le", "ne", "getitem", "sub"):', "ALG.operators.classes"),
    (DEL, 'key = f"getattr-{tokenize(obj, attr, pure=True)}"', 'key = f"getattr-{tokenize(attr, pure=True)}"', "DELEG.attr-name"),
    (DEL, "            methodcaller(self._attr), self._attr, (self._obj,) + args, kwargs", "            methodcaller(self._attr), self._attr, args, kwargs", "DELEG.method-call"),
]


def selftest(ctx):
    from ..variants import selftest as st

    return st(ctx, "C15", VARIANTS)
