"""C19 -- elementwise and broadcasting array operations equal NumPy (narrow; tables only).

Decided:
 NAME.ufuncs       every `X = ufunc(np.Y)` / `X = wrap_elemwise(np.Y)` binding in dask/array/ufunc.py
                   (and the _array_expr twin) has X == Y
 ALG.operators     every operator dunder of Array is elemwise(operator.<same op>, self, other), with the
                   operands swapped for the reflected form (Python data model)
 DELEG.ufunc-call  ufunc.__call__ hands the wrapped NumPy ufunc itself to elemwise
Not decided: elementwise values, broadcasting.
"""
from __future__ import annotations

import ast

from ..lib import *
from ..twin import check_pairs, check_loose
from ._twins import pairs_for, all_pairs, loose_for, all_loose
from . import _tables as T

EXPLANATION = (
    "Naming table of the public ufunc wrappers against the NumPy function they wrap, and agreement of the "
    "Array operator dunders with the Python data model (operator function of the same name; reflected dunders "
    "swap operands).  Elementwise values and broadcasting are NOT decided."
)
ASSUMPTIONS = ["elemwise(op, a, b) applies op blockwise to (a, b) in that order"]
UF = "dask/array/ufunc.py"
CORE = "dask/array/core.py"
UF2 = "dask/array/_array_expr/_ufunc.py"
SPECIAL = {"__matmul__", "__rmatmul__", "__divmod__", "__rdivmod__", "__pos__"}


def _bindings(mod):
    out = []
    for st in mod.tree.body:
        if isinstance(st, ast.Assign) and len(st.targets) == 1 and isinstance(st.targets[0], ast.Name) and isinstance(st.value, ast.Call):
            cn = call_name(st.value)
            if cn in ("ufunc", "wrap_elemwise") and st.value.args:
                out.append((st, st.targets[0].id, cn, dotted(st.value.args[0])))
    return out


def check(ctx):
    model = ctx.model
    n = 0
    for rel in (UF, UF2):
        if not model.exists(rel):
            continue
        mod = model.module(rel)
        for st, name, wrapper, target in _bindings(mod):
            n += 1
            ok = target is not None and target.split(".")[0] in ("np", "numpy") and target.split(".")[-1] == name
            ctx.ob("NAME.ufuncs", st, f"{rel.split('/')[-1]}: {name} = {wrapper}(np.{name})", ok, "" if ok else f"{name} wraps {target}")
    ctx.count("ufunc_bindings", n)
    ctx.floor("ufunc_bindings", 80)
    mod = model.module(UF)
    uc = model.klass(UF, "ufunc")
    call = uc.own_methods.get("__call__")
    ok = call is not None and bool(find("dsk._elemwise(self._ufunc, *args, **kwargs)", call)) and any(Pat("self._ufunc(*args, **kwargs)").match(r.value) is not None for r in returns(call))
    ctx.ob("DELEG.ufunc-call", call or uc.node, "ufunc.__call__ -> arg._elemwise(self._ufunc, *args, **kwargs) (NumPy ufunc itself for non-dask args)", ok)
    init = uc.own_methods.get("__init__")
    ok = init is not None and bool(find("self._ufunc = ufunc", init))
    ctx.ob("DELEG.ufunc-init", init or uc.node, "the wrapper stores the wrapped ufunc", ok)
    # ---------------- Array dunders
    arr = model.klass(CORE, "Array")
    n_d = 0
    for name, f in arr.own_methods.items():
        dp = T.dunder_parts(name)
        if dp is None or name in SPECIAL:
            continue
        stem, reflected = dp
        rs = returns(f)
        if len(rs) != 1:
            continue
        m = Pat("elemwise(M_op, *M_rest)").match(rs[0].value)
        if m is None:
            ctx.ob("ALG.operators", f, f"Array.{name} is elemwise(operator.{stem}, ...)", False, f"returns {unparse(rs[0].value)[:60]}")
            continue
        n_d += 1
        call_ = rs[0].value
        op = dotted(call_.args[0])
        fns = (T.BINARY.get(stem) or T.UNARY.get(stem))[0]
        ok_op = op is not None and op.split(".")[0] == "operator" and op.split(".")[-1] in fns
        params = [a.arg for a in f.args.args]
        args = [unparse(a) for a in call_.args[1:]]
        if len(params) == 1:
            want = ["self"]
        else:
            want = [params[1], "self"] if reflected else ["self", params[1]]
        ok_args = args == want
        ctx.ob("ALG.operators", f, f"Array.{name} = elemwise(operator.{fns[0]}, {', '.join(want)})", ok_op and ok_args, "" if ok_op and ok_args else f"is elemwise({op}, {', '.join(args)})")
    ctx.count("array_operator_dunders", n_d)
    ctx.floor("array_operator_dunders", 35)
    need = {f"__{s}__" for s in ("add", "sub", "mul", "truediv", "floordiv", "mod", "pow", "and", "or", "xor", "lshift", "rshift", "lt", "le", "gt", "ge", "eq", "ne", "neg", "invert", "abs")} | {f"__r{s}__" for s in ("add", "sub", "mul", "truediv", "floordiv", "mod", "pow", "and", "or", "xor", "lshift", "rshift")}
    miss = sorted(x for x in need if x not in arr.own_methods)
    ctx.ob("ALG.operators.complete", arr.node, "Array defines all arithmetic, bitwise, comparison and unary dunders", not miss, f"missing {miss}")
    em_ = arr.own_methods.get("_elemwise")
    ok = em_ is not None and "elemwise" in unparse(em_)
    ctx.ob("DELEG.array-elemwise", em_ or arr.node, "Array._elemwise is elemwise", ok, nontrivial=False)
    # ---------------- the key of an elementwise result covers everything that shapes it (TOKFLOW, shared with C13)
    from .C13 import key_inputs

    key_inputs(ctx, only={("dask/array/core.py", "elemwise"), ("dask/array/ufunc.py", "ufunc.outer"), ("dask/array/ufunc.py", "frexp"), ("dask/array/ufunc.py", "modf")}, floor=1)
    # ---------------- twin agreement with the array-expression engine's copies (see sa/twin.py)
    n_tw = check_pairs(ctx, pairs_for("C19"))
    ctx.count("twin_pairs", n_tw)
    ctx.floor("twin_pairs", 5)
    check_loose(ctx, loose_for("C19"))
    # ---------------- where=/out= ufuncs never write into the block held in the graph
    hw = ctx.model.module("dask/array/core.py").func("_elemwise_handle_where")
    cp = find("out = out.copy()", hw)
    call = [r for r in returns(hw)]
    ok = len(cp) == 1 and len(call) == 1 and dominates(hw, enclosing_stmt(cp[0][0]) if "enclosing_stmt" in dir() else cp[0][0], call[0])
    guard = getattr(cp[0][0], "_parent", None) if cp else None
    ok = len(cp) == 1 and len(call) == 1 and isinstance(guard, ast.If) and eqv(guard.test, "hasattr(out, 'copy')") and not guard.orelse and dominates(hw, guard, call[0]) and "out=out" in unparse(call[0].value)
    ctx.ob("EFFECT.where-out.copy", hw, "_elemwise_handle_where copies `out` whenever it can be copied, then passes the copy as out=", ok, "" if ok else "the ufunc writes into the `out` block that the graph holds: a second compute (or any other consumer of that block) sees the already-updated values")


VARIANTS = [
    (UF, "subtract = ufunc(np.subtract)", "subtract = ufunc(np.add)", "NAME.ufuncs"),
    (UF, "floor_divide = ufunc(np.floor_divide)", "floor_divide = ufunc(np.true_divide)", "NAME.ufuncs"),
    (CORE, "        return elemwise(operator.sub, other, self)", "        return elemwise(operator.sub, self, other)", "ALG.operators"),
    (CORE, "        return elemwise(operator.ge, self, other)", "        return elemwise(operator.gt, self, other)", "ALG.operators"),
    (CORE, "        return elemwise(operator.rshift, other, self)", "        return elemwise(operator.lshift, other, self)", "ALG.operators"),
    (UF, "                result = dsk._elemwise(self._ufunc, *args, **kwargs)", "                result = dsk._elemwise(self, *args, **kwargs)", "DELEG.ufunc-call"),
]


def selftest(ctx):
    from ..variants import selftest as st

    return st(ctx, "C19", VARIANTS)
