"""C05 -- callbacks fire in protocol order; callback contexts nest like a stack.

Decided:
 MPT.start-first       the start-callback loop dominates ordering / state construction / the main
                       loop; each callback is recorded as started right after its start ran; the
                       finish loop ranges over the started ones (in a finally, see C04)
 CNT.pretask/posttask  exactly one pretask dispatch site (between ready.pop and submission) and one
                       posttask site (after finish_task), each looping over the unpacked slot
 TAB.slots             the five callback slots have the same index at every producer and consumer
 SCOPE.local-callbacks swap of Callback.active is restored in a finally
 SCOPE.add-callbacks   leaving a context removes only what that context newly activated
"""
from __future__ import annotations

import ast

from ..lib import *

EXPLANATION = (
    "Ordering (dominance), counting and table-agreement rules over dask/callbacks.py and dask/local.py: "
    "start callbacks dominate all scheduling work and are recorded as started; exactly one pretask and one "
    "posttask dispatch site per executed task; the 5-slot callback tuple is indexed consistently at every "
    "site; Callback.active is restored on exit and add_callbacks removes only what it added.  Histories of "
    "register/unregister beyond what the enter/exit shape implies are NOT decided."
)
ASSUMPTIONS = ["callback tuples are produced by Callback._callback or by users following the documented 5-slot layout"]
LOCAL = "dask/local.py"
CB = "dask/callbacks.py"
SLOTS = ["start", "start_state", "pretask", "posttask", "finish"]


def check(ctx):
    model = ctx.model
    mod = model.module(LOCAL)
    cbm = model.module(CB)
    ga = mod.func("get_async")
    ft = mod.func("get_async.fire_tasks")
    g = cfg_of(ga)

    # ---- start first
    starts = find("M_cb[0](dsk)", ga, nested=False)
    ctx.count("start_dispatch_sites", len(starts))
    ctx.floor("start_dispatch_sites", 1)
    for n, b in starts:
        loops = [l for l in enclosing_loops(n) if isinstance(l, ast.For)]
        ok = bool(loops) and eqv(loops[0].iter, "callbacks") and same(loops[0].target, b["M_cb"])
        ctx.ob("MPT.start-over-active", n, "for cb in callbacks: cb[0](dsk)", ok)
        if not loops:
            continue
        lp = loops[0]
        for what, targets in (
            ("order", calls(ga, "order", nested=False)),
            ("start_state_from_dask", calls(ga, "start_state_from_dask", nested=False)),
            ("main loop", [x for x in walk_no_nested(ga) if isinstance(x, ast.While)]),
        ):
            if not targets:
                raise AnchorMissing(f"get_async: no {what}")
            ok = all(g.dominates(g.node_of(lp), g.node_of(t)) and not in_subtree(t, lp) for t in targets)
            ctx.ob("MPT.start-first", n, f"start callbacks precede {what}", ok, "" if ok else f"{what} can run before the start callbacks")
        apps = [a for a, ab in find("started_cbs.append(M_c)", lp, nested=False) if same(ab["M_c"], b["M_cb"])]
        ok = bool(apps) and all(a_ is not None for a_ in apps)
        if ok:
            a = apps[0]
            # appended after the call, in the loop body itself (not under the `if cb[0]`)
            ok = enclosing_stmt(a)._parent is lp and g.dominates(g.node_of(enclosing_stmt(n)._parent if isinstance(enclosing_stmt(n)._parent, ast.If) else n), g.node_of(a))
        ctx.ob("MPT.started-recorded", n, "started_cbs.append(cb) after cb's start ran, for every cb", ok, "" if ok else "a started callback is not recorded (its finish would be skipped) or is recorded before it started")
    # start_state after state construction
    for n in [x for x in walk_no_nested(ga) if isinstance(x, ast.For) and eqv(x.iter, "callbacks") and isinstance(x.target, ast.Tuple)]:
        names = [unparse(e) for e in n.target.elts]
        used = [nm for nm in names if nm != "_"]
        cs = [c for c in calls(n, None, nested=False) if call_name(c) in used]
        for c in cs:
            ss = calls(ga, "start_state_from_dask", nested=False)
            ok = all(g.dominates(g.node_of(s), g.node_of(n)) for s in ss) and Pat(f"{call_name(c)}(dsk, state)").match(c) is not None
            ctx.ob("MPT.start-state-after-state", c, "start_state(dsk, state) after the state exists", ok)

    # ---- pretask / posttask sites
    un = find("M_a, M_b, M_c, M_d, M_e = unpack_callbacks(M_x)", ga, nested=False)
    if len(un) != 1:
        raise AnchorMissing("get_async: unpack_callbacks 5-tuple unpacking not found")
    ub = un[0][1]
    slotnames = [unparse(ub[k]) for k in ("M_a", "M_b", "M_c", "M_d", "M_e")]
    pre_name, post_name = slotnames[2], slotnames[3]
    ok = "pretask" in pre_name and "posttask" in post_name and unparse(ub["M_x"]) == "callbacks"
    ctx.ob("TAB.slots.unpack", un[0][0], "_, _, pretask_cbs, posttask_cbs, _ = unpack_callbacks(callbacks)", ok, "" if ok else f"slots bound as {slotnames}")
    pre_loops = [l for f_ in (ga, ft) for l in walk_no_nested(f_) if isinstance(l, ast.For) and unparse(l.iter) == pre_name]
    post_loops = [l for f_ in (ga, ft) for l in walk_no_nested(f_) if isinstance(l, ast.For) and unparse(l.iter) == post_name]
    ctx.ob("CNT.pretask.one-site", ft, "exactly one pretask dispatch loop", len(pre_loops) == 1, f"{len(pre_loops)} site(s)")
    ctx.ob("CNT.posttask.one-site", ga, "exactly one posttask dispatch loop", len(post_loops) == 1, f"{len(post_loops)} site(s)")
    for lp in pre_loops:
        f_ = enclosing_function(lp)
        pops = [n for n, _ in find("M_s['ready'].pop(*M_rest)", f_, nested=False)]
        apps = [a for a, ab in find("M_args.append(M_t)", f_, nested=False) if isinstance(ab["M_t"], ast.Tuple)]
        ok = bool(pops) and bool(apps) and all(dominates(f_, p, lp) for p in pops) and all(dominates(f_, lp, a) for a in apps) and all(control_equivalent(f_, pops[0], lp) for _ in [0])
        ctx.ob("MPT.pretask-between-pop-and-submit", lp, "ready.pop(); pretask callbacks; args.append(...)", ok, "" if ok else "pretask does not sit between taking the key and submitting it")
        cs = [c for c in calls(lp, None, nested=False) if same(c.func, lp.target)]
        okc = len(cs) == 1 and len(cs[0].args) == 3 and isinstance(enclosing_stmt(cs[0])._parent, ast.For)
        if okc and pops:
            kst = enclosing_stmt(pops[0])
            okc = isinstance(kst, ast.Assign) and unparse(cs[0].args[0]) == unparse(kst.targets[0])
        ctx.ob("CNT.pretask.once-per-callback", lp, "f(key, dsk, state) once per pretask callback, for the popped key", okc)
    for lp in post_loops:
        f_ = enclosing_function(lp)
        fts = calls(f_, "finish_task", nested=False)
        ok = bool(fts) and all(dominates(f_, c, lp) and control_equivalent(f_, c, lp) for c in fts)
        ctx.ob("MPT.posttask-after-finish-task", lp, "finish_task(...); posttask callbacks", ok, "" if ok else "posttask is not dispatched together with (after) finish_task")
        cs = [c for c in calls(lp, None, nested=False) if same(c.func, lp.target)]
        okc = len(cs) == 1 and len(cs[0].args) == 5 and isinstance(enclosing_stmt(cs[0])._parent, ast.For)
        if okc and fts:
            okc = same(cs[0].args[0], fts[0].args[1])
        ctx.ob("CNT.posttask.once-per-callback", lp, "f(key, res, dsk, state, worker_id) once per posttask callback, for the finished key", okc)

    # ---- slot table
    cbc = model.klass(CB, "Callback")
    owner, prop = cbc.method("_callback")
    if prop is None:
        raise AnchorMissing("Callback._callback")
    fields = None
    for n in ast.walk(prop):
        if isinstance(n, ast.List) and all(isinstance(e, ast.Constant) and isinstance(e.value, str) for e in n.elts) and len(n.elts) >= 3:
            fields = [e.value.lstrip("_") for e in n.elts]
    ok = fields == SLOTS
    ctx.ob("TAB.slots.producer", prop, "Callback._callback = (start, start_state, pretask, posttask, finish)", ok, "" if ok else f"fields {fields}")
    # Callback.__init__ stores each argument under the matching private name
    init = cbc.own_methods.get("__init__")
    if init is not None:
        bad = []
        for n, b in find("self.M_attr = M_v", init, nested=False):
            if isinstance(b["M_v"], ast.Name) and "_" + b["M_v"].id != b["M_attr"]:
                bad.append(f"self.{b['M_attr']} = {b['M_v'].id}")
        ctx.ob("TAB.slots.init", init, "Callback.__init__: self._<slot> = <slot>", not bad, "; ".join(bad))
    up = cbm.func("unpack_callbacks")
    fallback = [r.value for r in returns(up) if isinstance(r.value, (ast.List, ast.Tuple))]
    ok = len(fallback) == 1 and len(fallback[0].elts) == len(SLOTS)
    ctx.ob("TAB.slots.unpack-fallback", up, "unpack_callbacks(()) has five empty slots", ok)
    zips = [r for r in returns(up) if any(isinstance(x, ast.Call) and call_name(x) == "zip" and x.args and isinstance(x.args[0], ast.Starred) for x in ast.walk(r.value))]
    ctx.ob("TAB.slots.unpack-transpose", up, "unpack_callbacks transposes with zip(*cbs)", len(zips) == 1)
    # consumers by position
    n_cons = 0
    for lp in [x for x in walk_no_nested(ga) if isinstance(x, ast.For) and isinstance(x.target, ast.Tuple) and unparse(x.iter) in ("callbacks", "started_cbs")]:
        names = [unparse(e) for e in lp.target.elts]
        n_cons += 1
        ok = len(names) == len(SLOTS) and all(nm == "_" or nm == SLOTS[i] for i, nm in enumerate(names))
        ctx.ob("TAB.slots.consumer", lp, f"for {', '.join(names)} in {unparse(lp.iter)}", ok, "" if ok else f"slot names {names} do not sit at their protocol index {SLOTS}")
    for n, b in starts:
        pass
    idx0 = [n for n, b in find("M_cb[M_i]", ga, nested=False) if isinstance(const(b["M_i"]), int) and unparse(b["M_cb"]) == "cb"]
    ok = all(const(n.slice) == 0 for n in idx0) and bool(idx0)
    ctx.ob("TAB.slots.consumer", ga, "cb[0] is the start slot", ok)
    ctx.count("slot_consumers", n_cons + 1)
    ctx.floor("slot_consumers", 3)

    # ---- local_callbacks
    lc = cbm.func("local_callbacks")
    swaps = find("callbacks, Callback.active = Callback.active, M_new", lc, nested=False)
    restores = find("Callback.active = callbacks", lc, nested=False)
    ok = bool(swaps) and bool(restores)
    if ok:
        t, part = try_of(restores[0][0])
        ok = part == "finalbody" and any(isinstance(x, ast.Yield) for x in ast.walk(ast.Module(body=t.body, type_ignores=[])))
        f1 = [unparse(e) + ":" + str(p) for e, p in inline_facts(lc, swaps[0][0])]
        f2 = [unparse(e) + ":" + str(p) for e, p in inline_facts(lc, restores[0][0])]
        ok = ok and f1 == f2
    ctx.ob("SCOPE.local-callbacks.restore", lc, "swap Callback.active; try: yield; finally: restore under the same condition", ok)
    ok = bool(swaps) and Pat("set()").match(swaps[0][1]["M_new"]) is not None
    ctx.ob("SCOPE.local-callbacks.inner-empty", lc, "inner schedulers see an empty active set", ok)
    # get_async uses it
    ok = any(isinstance(w, ast.With) and any(isinstance(i.context_expr, ast.Call) and call_name(i.context_expr) == "local_callbacks" for i in w.items) for w in walk_no_nested(ga))
    ctx.ob("SCOPE.local-callbacks.used", ga, "with local_callbacks(callbacks) as callbacks", ok)

    # ---- add_callbacks
    ac = model.klass(CB, "add_callbacks")
    init = ac.own_methods.get("__init__")
    ex = ac.own_methods.get("__exit__")
    if init is None or ex is None:
        raise AnchorMissing("add_callbacks.__init__/__exit__")
    removes = [n for n, b in find("Callback.active.discard(M_c)", ex) + find("Callback.active.remove(M_c)", ex)]
    ctx.count("add_callbacks_exit_removals", len(removes))
    whole = find("Callback.active = M_v", ex)
    if not removes and not whole:
        ctx.ob("SCOPE.add-callbacks.exit", ex, "__exit__ deactivates the context's callbacks", False, "nothing is deactivated on exit")
    for n in removes:
        loops = [l for l in enclosing_loops(n) if isinstance(l, ast.For)]
        src = unparse(loops[0].iter) if loops else None
        ok = False
        detail = f"__exit__ removes every element of {src}"
        if src and src.startswith("self."):
            attr = src[5:]
            for a, ab in find(f"self.{attr} = M_v", init, nested=False):
                v = ab["M_v"]
                # computed as "not previously active", before the activation
                comp = isinstance(v, (ast.ListComp, ast.SetComp)) and any(
                    Pat("M_c not in Callback.active").match(i) is not None for gen in v.generators for i in gen.ifs
                )
                diff = Pat("set(M_x) - Callback.active").match(v) is not None or Pat("M_x - Callback.active").match(v) is not None
                ups = find("Callback.active.update(M_x)", init, nested=False) + find("Callback.active.add(M_x)", init, nested=False)
                before = all(dominates(init, a, u) for u, _ in ups)
                if (comp or diff) and before and ups:
                    ok = True
                    detail = f"self.{attr} = callbacks not active before this context"
                elif (comp or diff) and not before:
                    detail = f"self.{attr} is computed after the activation (always empty)"
        ctx.ob("SCOPE.add-callbacks.exit-removes-only-added", n, "__exit__ removes only what __init__ newly activated", ok, detail)
    for n, b in whole:
        ok = False
        ctx.ob("SCOPE.add-callbacks.exit-removes-only-added", n, "__exit__ restores a saved active set", None, "restore-by-assignment idiom not in the catalogue")
    ups = find("Callback.active.update(M_x)", init, nested=False) + find("Callback.active.add(M_x)", init, nested=False)
    ctx.ob("SCOPE.add-callbacks.activates", init, "__init__ activates the normalised callbacks", bool(ups) and all(unparse(b["M_x"]) == "self.callbacks" for _, b in ups))
    # Callback.__enter__/__exit__ delegate to add_callbacks
    en = cbc.own_methods.get("__enter__")
    exi = cbc.own_methods.get("__exit__")
    ok = en is not None and exi is not None
    if ok:
        mk = find("cm = add_callbacks(self)", en)
        push = find("self.__dict__.setdefault('_cms', []).append(cm)", en)
        ent = find("cm.__enter__()", en)
        pop = find("self._cms.pop().__exit__(*M_a)", exi)
        ok = len(mk) == 1 and len(push) == 1 and len(ent) == 1 and len(pop) == 1 and dominates(en, mk[0][0], push[0][0]) and dominates(en, mk[0][0], ent[0][0])
    ctx.ob("SCOPE.callback-context", cbc.node, "Callback.__enter__ opens ONE add_callbacks context per `with` and pushes it; __exit__ pops and closes exactly that one", ok, "" if ok else "a single slot for the context is overwritten on re-entry: the outer `with` can no longer undo its own activation (the callback stays active for ever) or the inner exit deactivates it for the outer scope")
    reg = cbc.own_methods.get("register")
    unreg = cbc.own_methods.get("unregister")
    ok = reg is not None and bool(find("Callback.active.add(self._callback)", reg)) and unreg is not None and bool(find("Callback.active.remove(self._callback)", unreg) + find("Callback.active.discard(self._callback)", unreg))
    ctx.ob("SCOPE.register", cbc.node, "register adds / unregister removes self._callback", ok)
    # ---------------- every active callback is called: the per-slot collections keep multiplicity and order
    tr = [r for r in returns(up) if r in zips]
    ok = len(tr) == 1 and isinstance(tr[0].value, ast.ListComp) and isinstance(tr[0].value.elt, ast.ListComp)
    ctx.ob("CNT.slots.lists", up, "unpack_callbacks builds one LIST per slot ([i for i in f if i]): one entry per active callback, in activation order", ok, "" if ok else "a set per slot calls a hook shared by two active callbacks only once per task (and in arbitrary order)")
    # ---------------- Callback subclasses that extend __enter__/__exit__ go through the base class's scoped activation
    n_sub = 0
    for ci in model.subclasses(cbc, "dask"):
        if "/tests/" in ci.module.relpath:
            continue
        for mname, want in (("__enter__", "super().__enter__()"), ("__exit__", "super().__exit__(*args)")):
            m_ = ci.own_methods.get(mname)
            if m_ is None:
                continue
            n_sub += 1
            sup = [c for c in ast.walk(m_) if isinstance(c, ast.Call) and isinstance(c.func, ast.Attribute) and c.func.attr == mname and isinstance(c.func.value, ast.Call) and call_name(c.func.value) == "super"]
            direct = [c for c in ast.walk(m_) if isinstance(c, ast.Call) and (call_name(c) or "") in ("self.register", "self.unregister")]
            ok = len(sup) == 1 and not direct and all(any(s_ in ast.walk(r.value) for s_ in sup) for r in returns(m_) if r.value is not None) and (mname == "__exit__" or bool(returns(m_)))
            ctx.ob("SCOPE.callback-subclass.delegates", m_, f"{ci.name}.{mname} activates/deactivates through {want} (the nesting-aware context of Callback)", ok, "" if ok else "register()/unregister() have no notion of nesting: leaving an inner `with` deactivates a callback that an outer scope (or an explicit register()) had activated, and the outer exit raises KeyError")
    ctx.count("callback_subclass_contexts", n_sub)
    ctx.floor("callback_subclass_contexts", 4, "Profiler, ResourceProfiler (enter/exit each)")
    # ---------------- round 4b (C05-m8): the initial ready list is built from a SET -- a key is made ready once
    from ..lib import eqv as _e4
    ssf4 = ctx.model.module("dask/local.py").func("start_state_from_dask")
    ra4 = [n for n in ast.walk(ssf4) if isinstance(n, ast.Assign) and _e4(n.targets[0], "ready")]
    ok = len(ra4) == 1 and isinstance(ra4[0].value, ast.Call) and _e4(ra4[0].value.func, "sorted") and isinstance(ra4[0].value.args[0], ast.Name)
    if ok:
        src4 = ra4[0].value.args[0].id
        defs4 = [n for n in ast.walk(ssf4) if isinstance(n, ast.Assign) and any(isinstance(t, ast.Name) and t.id == src4 for t in n.targets)]
        ok = bool(defs4) and all(_e4(d.value, "set()") for d in defs4)
        apps4 = [n for n in ast.walk(ssf4) if isinstance(n, ast.Call) and isinstance(n.func, ast.Attribute) and isinstance(n.func.value, ast.Name) and n.func.value.id == src4]
        ok = ok and bool(apps4) and all(c.func.attr == "add" for c in apps4)
    ctx.ob("SET.ready.deduplicated", ra4[0] if ra4 else ssf4, "state['ready'] = sorted(<a set filled with .add>): a key reachable over two paths (pre-filled cache) is ready once", ok, "" if ok else "collected in a list a key can be ready twice: its pretask fires again after its posttask and the task is re-run")


VARIANTS = [
    (LOCAL, "            for cb in callbacks:\n                if cb[0]:", "            keyorder = order(dsk)\n            for cb in callbacks:\n                if cb[0]:", "MPT.start-first"),
    (LOCAL, "                if cb[0]:\n                    cb[0](dsk)\n                started_cbs.append(cb)", "                if cb[0]:\n                    cb[0](dsk)\n                    started_cbs.append(cb)", "MPT.started-recorded"),
    (LOCAL, "        _, _, pretask_cbs, posttask_cbs, _ = unpack_callbacks(callbacks)", "        _, _, posttask_cbs, pretask_cbs, _ = unpack_callbacks(callbacks)", "TAB.slots.unpack"),
    (LOCAL, "            for _, start_state, _, _, _ in callbacks:", "            for start_state, _, _, _, _ in callbacks:", "TAB.slots.consumer"),
    (LOCAL, "            for _, _, _, _, finish in started_cbs:", "            for _, _, _, finish, _ in started_cbs:", "TAB.slots.consumer"),
    (LOCAL, "                    for f in posttask_cbs:\n                        f(key, res, dsk, state, worker_id)", "                    for f in posttask_cbs:\n                        f(key, res, dsk, state, worker_id)\n                    for f in posttask_cbs:\n                        f(key, res, dsk, state, worker_id)", "CNT.posttask.one-site"),
    (CB, 'fields = ["_start", "_start_state", "_pretask", "_posttask", "_finish"]', 'fields = ["_start", "_start_state", "_posttask", "_pretask", "_finish"]', "TAB.slots.producer"),
    (CB, "        for c in self._added:\n            Callback.active.discard(c)", "        for c in self.callbacks:\n            Callback.active.discard(c)", "SCOPE.add-callbacks.exit-removes-only-added"),
    (CB, "    finally:\n        if global_callbacks:\n            Callback.active = callbacks", "    finally:\n        pass", "SCOPE.local-callbacks.restore"),
    (CB, "        return [(), (), (), (), ()]", "        return [(), (), (), ()]", "TAB.slots.unpack-fallback"),
    (LOCAL, "                    finish_task(dsk, key, state, results, keyorder.get)\n                    for f in posttask_cbs:\n                        f(key, res, dsk, state, worker_id)", "                    for f in posttask_cbs:\n                        f(key, res, dsk, state, worker_id)\n                    finish_task(dsk, key, state, results, keyorder.get)", "MPT.posttask-after-finish-task"),
]


def selftest(ctx):
    from ..variants import selftest as st

    return st(ctx, "C05", VARIANTS)
