"""C38 -- groupby results equal pandas groupby (partial; tables only).

Decided:
 ALG.decomposition   every SingleAggregation declares an admissible (groupby_chunk, groupby_aggregate):
                     sum/prod/min/max/first/last aggregate with themselves (the default when
                     groupby_aggregate is None), count/size with a sum, and arg-extrema
                     (idxmin/idxmax) never with a plain function
 ALG.scan-monoid     every GroupByCumulative declares (chunk, aggregate, initial) from one monoid:
                     (cumsum, add, 0), (cumprod, mul, 1)
 ALG.fallback        aggregate_kwargs uses `groupby_aggregate or groupby_chunk`
 ARGPOS              expression-constructor sites in dask_expr/_groupby.py
Not decided: equality with pandas.
"""
from __future__ import annotations

import ast

from ..lib import *
from . import _tables as T

EXPLANATION = (
    "Algebraic tables over the groupby expression classes: (groupby_chunk, groupby_aggregate) pairs against "
    "the way each aggregation decomposes over partitions, (scan, merge operator, identity) triples of the "
    "grouped cumulative operations against their monoid, and argument-slot agreement at constructor sites in "
    "_groupby.py.  Equality with pandas is NOT decided."
)
ASSUMPTIONS = ["_groupby_aggregate applies `aggfunc` to the concatenated per-partition results, grouped by the keys"]
GB = "dask/dataframe/dask_expr/_groupby.py"


def check(ctx):
    model = ctx.model
    em = T.exprmodel(ctx)
    sa = model.klass(GB, "SingleAggregation")
    ak = sa.own_methods.get("aggregate_kwargs")
    ok = ak is not None and bool(find("groupby_aggregate = self.groupby_aggregate or self.groupby_chunk", ak)) and "'aggfunc': groupby_aggregate" in unparse(ak)
    ctx.ob("ALG.fallback", sa.node, "aggfunc = groupby_aggregate or groupby_chunk", ok)
    ck = sa.own_methods.get("chunk_kwargs")
    ok = ck is not None and "'chunk': self.groupby_chunk" in unparse(ck)
    ctx.ob("ALG.fallback.chunk", sa.node, "per-partition function = groupby_chunk", ok)
    n = n_dec = 0
    for ci in em.classes:
        if sa not in ci.mro or ci is sa:
            continue
        n += 1
        _, ch = ci.lookup("groupby_chunk")
        _, ag = ci.lookup("groupby_aggregate")
        r = T.decomposition(ctx, "ALG.decomposition", ci, T.op_name(ch), T.op_name(ag))
        if r is not None:
            n_dec += 1
    ctx.count("single_aggregation_classes", n)
    ctx.count("single_aggregations_with_known_decomposition", n_dec)
    ctx.floor("single_aggregation_classes", 14)
    ctx.floor("single_aggregations_with_known_decomposition", 10)
    gc = model.klass(GB, "GroupByCumulative")
    n_c = 0
    for ci in em.classes:
        if gc not in ci.mro or ci is gc:
            continue
        ch, ag, init = T.op_name(ci.own.get("chunk")), T.op_name(ci.own.get("aggregate")), ci.own.get("initial")
        if ch in T.SCAN_MONOID:
            n_c += 1
            want_op, want_id = T.SCAN_MONOID[ch]
            try:
                from ..consteval import fold

                iv = fold(init) if init is not None else None
            except Exception:
                iv = "?"
            ok = ag == want_op and iv == want_id
            ctx.ob("ALG.scan-monoid", ci.node, f"{ci.name}: ({ch}, {want_op}, {want_id})", ok, "" if ok else f"declares ({ch}, {ag}, {iv}): the carried-over prefix is merged with the wrong operator/identity")
    ctx.count("groupby_cumulative_classes", n_c)
    ctx.floor("groupby_cumulative_classes", 2)
    fin = model.module(GB).func("GroupByCumulativeFinalizer._layer")
    u = unparse(fin)
    ok = "(name_cum, i - 1)" in u and "(self.cum_last._name, i - 1)" in u and "for i in range(1, self.frame.npartitions)" in u and "dsk = {(self._name, 0): (self.cum_raw._name, 0)}" in u
    ctx.ob("ALG.scan-carry", fin, "partition i is merged with the running total of partitions 0..i-1", ok)
    T.argpos(ctx, lambda p: p == GB, "c38", floor=10)
    from ._claims import check_claims

    check_claims(ctx)
    # ---------------- a column selection is compared with None, never tested for truthiness (0 is a label)
    n_sel = 0
    lg = ctx.model.module("dask/dataframe/groupby.py")
    from ..common import _truth_tests
    for qn, f_ in lg.functions():
        if not qn.startswith("_groupby_slice_"):
            continue
        n_sel += 1
        bad = [unparse(nd)[:40] for nm, nd in _truth_tests(f_) if nm == "key"]
        ctx.ob("TRUTH.column-label", f_, f"{qn}: the selection `key` is compared with None", not bad, "" if not bad else f"{bad}: the column label 0 (or '') is taken for 'no selection'")
    gbm = ctx.model.module("dask/dataframe/dask_expr/_groupby.py")
    bad = []
    for qn, f_ in gbm.functions():
        for node in ast.walk(f_):
            tests = []
            if isinstance(node, (ast.If, ast.IfExp, ast.While)):
                tests.append(node.test)
            if isinstance(node, ast.BoolOp):
                tests.extend(node.values[:-1] if isinstance(node.op, ast.Or) else node.values)
            if isinstance(node, ast.UnaryOp) and isinstance(node.op, ast.Not):
                tests.append(node.operand)
            for t_ in tests:
                if unparse(t_) in ("self._slice", "_slice", "obj._slice"):
                    bad.append(f"{qn}: {unparse(node)[:50]}")
    ctx.count("selection_consumers", n_sel)
    ctx.floor("selection_consumers", 3)
    ctx.ob("TRUTH.column-label", "dask/dataframe/dask_expr/_groupby.py::<module>", "_slice (the selected column label(s)) is compared with None everywhere in _groupby.py", not bad, "" if not bad else f"{bad[:3]}: the column label 0 is taken for 'no selection'")
    from ._phases import option_used, min_count

    option_used(ctx, ["dask/dataframe/dask_expr/_groupby.py"], floor=5)
    min_count(ctx, ["dask/dataframe/dask_expr/_groupby.py"], floor=2)
    # named aggregation: pandas' reconstruct_func returns `order`, the positions to take; it is applied as is
    gb = ctx.model.klass("dask/dataframe/dask_expr/_groupby.py", "GroupBy")
    ag = gb.own_methods.get("aggregate") or gb.own_methods.get("agg")
    if ag is None:
        raise AnchorMissing("GroupBy.aggregate")
    rel_ = find("result = result.iloc[:, M_o]", ag)
    ok = len(rel_) == 1 and unparse(rel_[0][1]["M_o"]) == "order" and bool(find("result.columns = columns", ag)) and "reconstruct_func" in unparse(ag)
    ctx.ob("TAB.relabel-order", ag, "named aggregation: result.iloc[:, order] with the order returned by reconstruct_func, then the new column names", ok, "" if ok else f"columns are permuted by {unparse(rel_[0][1]['M_o']) if rel_ else None}: with interleaved input columns the output names land on the wrong aggregates")
    # ---------------- groupby cumulative: the carry pass groups exactly like the scan pass (dropna / observed)
    gcl = ctx.model.klass("dask/dataframe/dask_expr/_groupby.py", "GroupByCumulative").own_methods["_lower"]
    dicts = [d for d in ast.walk(gcl) if isinstance(d, ast.Dict) and any(isinstance(k, ast.Constant) and k.value == "chunk" for k in d.keys if k is not None)]
    ok = bool(dicts) and all(any(k is None and eqv(v, "dropna") for k, v in zip(d.keys, d.values)) for d in dicts)
    ctx.ob("SIB.groupby-cumulative.dropna", gcl, "every helper step of GroupByCumulative (scan, last) receives **dropna", ok, "" if ok else "the carry step groups with the default dropna: with dropna=False the NA group restarts in every partition")
    # ---------------- _var_chunk squares its input in place: it must work on a copy
    vc = ctx.model.module("dask/dataframe/groupby.py").func("_var_chunk")
    cp = find("df = df.copy()", vc)
    sq = [n for n in ast.walk(vc) if isinstance(n, (ast.Assign, ast.AugAssign)) and "df[cols]" in unparse(n.targets[0] if isinstance(n, ast.Assign) else n.target)]
    ok = len(cp) == 1 and (not sq or all(dominates(vc, cp[0][0], s_) for s_ in sq))
    ctx.ob("EFFECT.no-input-mutation", vc, "_var_chunk copies the partition before modifying columns", ok, "" if ok else "the shared partition object is squared in place: anything else computed from the same partition in one graph sees squared values")
    # ---------------- agg spec normalisation: flat result columns only when NO column asks for several functions
    nsp = ctx.model.module("dask/dataframe/groupby.py").func("_normalize_spec")
    uf = find("use_flat_columns = M_v", nsp)
    ok = len(uf) == 1 and eqv(uf[0][1]["M_v"], "not any((isinstance(subspec, compounds) for subspec in spec.values()))")
    ctx.ob("ALG.agg-spec.flat-columns", nsp, "use_flat_columns = not any(value is a list/tuple/dict)", ok, "" if ok else "a dict spec mixing scalars and lists gets flat columns: the later function of a column overwrites the earlier one (pandas returns MultiIndex columns)")
    # ---------------- the second aggregation stage gets dropna whenever it was GIVEN (False is a choice, not "absent")
    gag = ctx.model.module("dask/dataframe/groupby.py").func("_groupby_aggregate")
    dn = find("dropna = M_v", gag)
    ok = len(dn) == 1 and eqv(dn[0][1]["M_v"], "{'dropna': dropna} if dropna is not None else {}")
    ob_ = find("observed = M_v", gag)
    ok2 = len(ob_) == 1 and eqv(ob_[0][1]["M_v"], "{'observed': observed} if observed is not None else {}")
    ctx.ob("DEFAULT.groupby-aggregate.options", gag, "_groupby_aggregate forwards dropna / observed when they are not None", ok and ok2, "" if ok and ok2 else "an explicit dropna=False is dropped on the regroup: the NaN-key group that pandas keeps disappears from sum/count/first/...")


VARIANTS = [
    ("dask/dataframe/dask_expr/_groupby.py", "            if self._slice is not None:\n                non_group_columns = self._slice", "            if self._slice:\n                non_group_columns = self._slice", "TRUTH.column-label"),
    ("dask/dataframe/dask_expr/_groupby.py", "                result = result.iloc[:, order]", "                result = result.iloc[:, np.argsort(order)]", "TAB.relabel-order"),
    (GB, "class Count(SingleAggregation):\n    groupby_chunk = M.count\n    groupby_aggregate = M.sum", "class Count(SingleAggregation):\n    groupby_chunk = M.count\n    groupby_aggregate = M.count", "ALG.decomposition"),
    (GB, "class Size(SingleAggregation):\n    groupby_chunk = M.size\n    groupby_aggregate = M.sum", "class Size(SingleAggregation):\n    groupby_chunk = M.size", "ALG.decomposition"),
    (GB, "class GroupByCumprod(GroupByCumulative):\n    chunk = M.cumprod\n    aggregate = M.mul\n    initial = 1", "class GroupByCumprod(GroupByCumulative):\n    chunk = M.cumprod\n    aggregate = M.mul\n    initial = 0", "ALG.scan-monoid"),
    (GB, "    chunk = M.cumsum\n    aggregate = M.add", "    chunk = M.cumsum\n    aggregate = M.mul", "ALG.scan-monoid"),
    (GB, "        groupby_aggregate = self.groupby_aggregate or self.groupby_chunk", "        groupby_aggregate = self.groupby_chunk", "ALG.fallback"),
]


def selftest(ctx):
    from ..variants import selftest as st

    return st(ctx, "C38", VARIANTS)
