"""C17 -- configuration changes are scoped, atomic and spelling-insensitive.

Decided:
 NORM.canonical        every access by a user key segment in get/pop/update/set._assign goes through
                       canonical_name(segment, <the container being accessed>) first
 DOM.record            in set._assign every store into the config is dominated by a _record.append
                       unless `record` is False; record is switched off only after an insert of an
                       ancestor was recorded
 TAB.ops               the op tags written by _assign are exactly those __exit__ dispatches on, and
                       __exit__ undoes the record in reverse order
 SCOPE.transactional   set.__init__ rolls back (through __exit__) when an assignment raises
 CODEC.mirror          serialize/deserialize are mirror pipelines of inverse pairs
 ALG.update            update handles exactly the three documented priorities; merge folds update
                       left to right into a fresh dict
"""
from __future__ import annotations

import ast

from ..lib import *

EXPLANATION = (
    "Normalisation, recording-discipline and transactional-constructor rules over dask/config.py: each "
    "key segment is canonicalised against the container it indexes before use; every mutation performed by "
    "config.set is recorded (insert/replace) before it happens and undone in reverse by __exit__, which "
    "dispatches on exactly the recorded tags; a failing constructor rolls back; serialize/deserialize are "
    "mirror images.  Equality of the restored configuration for all histories is NOT decided."
)
ASSUMPTIONS = ["callers hold config_lock as set.__init__ does", "nobody mutates the config between enter and exit except through config.set"]
CFG = "dask/config.py"
INVERSE = {("json.dumps", "json.loads"), ("encode", "decode"), ("base64.urlsafe_b64encode", "base64.urlsafe_b64decode"), ("decode", "encode")}


def _pipeline(expr):
    """Outermost-last list of step names of a call pipeline f(g(x).h()).k() -> [g, h, f, k]"""
    steps = []

    def go(e):
        if isinstance(e, ast.Call):
            if isinstance(e.func, ast.Attribute) and (dotted(e.func) is None or dotted(e.func).split(".")[0] not in ("json", "base64")):
                # method on a computed receiver
                go(e.func.value)
                steps.append(e.func.attr)
                return
            nm = call_name(e)
            if e.args:
                go(e.args[0])
            steps.append(nm)
            return
        if isinstance(e, ast.Name):
            steps.append("$" + e.id)

    go(expr)
    return steps


def check(ctx):
    model = ctx.model
    mod = model.module(CFG)
    # ---------------- NORM
    sites = [
        ("get", "result", "k"),
        ("pop", "result", "k"),
        ("update", "old", "k"),
    ]
    n_norm = 0
    for fn, container, seg in sites:
        f = mod.func(fn)
        cn = [(n, b) for n, b in find(f"{seg} = canonical_name({seg}, M_c)", f, nested=False)]
        ok = len(cn) == 1 and unparse(cn[0][1]["M_c"]) == container
        n_norm += len(cn)
        ctx.ob("NORM.canonical", f, f"{fn}: {seg} = canonical_name({seg}, {container})", ok, "" if ok else f"found {[unparse(n) for n, _ in cn]}")
        if not cn:
            continue
        c0 = cn[0][0]
        # every subscript/pop/membership of `container` by seg is dominated by the normalisation
        uses = []
        for n in walk_no_nested(f):
            if isinstance(n, ast.Subscript) and unparse(n.value) == container and unparse(n.slice) == seg:
                uses.append(n)
            if isinstance(n, ast.Call) and isinstance(n.func, ast.Attribute) and unparse(n.func.value) == container and n.func.attr in ("pop", "get", "setdefault") and n.args and unparse(n.args[0]) == seg:
                uses.append(n)
            if isinstance(n, ast.Compare) and unparse(n.left) == seg and any(unparse(c) == container for c in n.comparators):
                uses.append(n)
        ctx.count(f"norm_uses_{fn}", len(uses))
        bad = [u for u in uses if not dominates(f, c0, u)]
        # and the segment is not rebound in between
        reb = [u for u in uses if [d[2] for d in reaching_of(f).reaching(u, seg)] != [c0]]
        ctx.ob("NORM.canonical.dominates-uses", f, f"{fn}: every use of {container}[{seg}] follows the normalisation ({len(uses)} uses)", not bad and not reb and bool(uses), "" if not bad and not reb else f"uses before/without normalisation at lines {[u.lineno for u in bad + reb]}")
    asg = mod.func("set._assign")
    cn = find("key = canonical_name(keys[0], d)", asg, nested=False)
    n_norm += len(cn)
    ctx.ob("NORM.canonical", asg, "_assign: key = canonical_name(keys[0], d)", len(cn) == 1)
    if cn:
        uses = [n for n in walk_no_nested(asg) if isinstance(n, ast.Subscript) and eqv(n.value, "d")]
        bad = [u for u in uses if unparse(u.slice) != "key" or not dominates(asg, cn[0][0], u)]
        ctx.ob("NORM.canonical.dominates-uses", asg, f"_assign: d is only indexed by the canonical key ({len(uses)} uses)", not bad and bool(uses), "" if not bad else f"lines {[u.lineno for u in bad]}")
    # the rollback path is made of canonical keys (it is replayed against the config by __exit__)
    paths = find("path = path + (M_k,)", asg, nested=False)
    ok = len(paths) == 1 and unparse(paths[0][1]["M_k"]) == "key" and bool(cn) and dominates(asg, cn[0][0], paths[0][0]) and [d[2] for d in reaching_of(asg).reaching(paths[0][0], "key")] == [cn[0][0]]
    ctx.ob("NORM.canonical.record-path", asg, "_assign: path = path + (key,) with the canonical key", ok, "" if ok else "the rollback record is keyed by the caller's spelling: __exit__ restores under a different key than was changed")
    ctx.count("canonical_name_sites", n_norm)
    ctx.floor("canonical_name_sites", 4)
    cnf = mod.func("canonical_name")
    ok = bool(find("k in config", cnf)) and bool(find("altk in config", cnf)) and any(Pat("k.replace('_', '-') if '_' in k else k.replace('-', '_')").match(b["M_v"]) is not None for n, b in find("altk = M_v", cnf))
    ctx.ob("NORM.canonical.definition", cnf, "canonical_name: exact spelling, else the -/_ swapped spelling if present, else k", ok)

    # ---------------- DOM record
    stores = [n for n in walk_no_nested(asg) if isinstance(n, ast.Assign) and any(isinstance(t, ast.Subscript) and eqv(t.value, "d") for t in n.targets)]
    ctx.count("assign_store_sites", len(stores))
    ctx.floor("assign_store_sites", 2)
    g = cfg_of(asg)
    appends = find("self._record.append(M_t)", asg, nested=False)
    # the recorded entries: literal tuples, or a local holding one of several literal tuples
    entries = []  # (append node, tuple node, statement where the tuple is built)
    for n, b in appends:
        t = b["M_t"]
        if isinstance(t, ast.Tuple):
            entries.append((n, t, n))
        elif isinstance(t, ast.Name):
            for nm, val, st_ in reaching_of(asg).reaching(n, t.id):
                if isinstance(val, ast.Tuple):
                    entries.append((n, val, st_))
                else:
                    ctx.ob("TAB.ops.record-shape", n, "record entry is (op, path, old value)", False, f"{t.id} may be {unparse(val) if isinstance(val, ast.AST) else val}")
        else:
            ctx.ob("TAB.ops.record-shape", n, "record entry is (op, path, old value)", False, unparse(t))
    tags = set()
    for n, t, st_ in entries:
        ok = len(t.elts) == 3 and eqv(t.elts[1], "path")
        if len(t.elts) == 3:
            tags.add(const(t.elts[0]))
        ctx.ob("TAB.ops.record-shape", st_, f"record entry {unparse(t)} is (op, path, old value)", ok)
    rec_false = {nd.idx for nd in g.nodes if nd.kind == "branch" and nd.label[0] == "if" and isinstance(nd.label[1], ast.AST) and eqv(nd.label[1], "record") and nd.label[2] is False}
    app_nodes = {g.node_of(n) for n, _ in appends}
    for st in stores:
        before = g.all_paths_pass(g.entry, g.node_of(st), app_nodes | rec_false)
        after = g.all_paths_pass(g.node_of(st), g.exit, app_nodes | rec_false)
        # "after" idiom: nothing that can raise between the store and the record
        clean = True
        if after and not before:
            for a in app_nodes:
                for mid in g.between(g.node_of(st), a) - {g.node_of(st), a}:
                    nd = g.nodes[mid]
                    if nd.kind == "stmt" and not isinstance(nd.ast, ast.If):
                        clean = False
        ok = before or (after and clean)
        ctx.ob("DOM.record.with-store", st, f"{unparse(st)}: every store is recorded (before it, or right after it succeeded) unless record is False", ok, "" if ok else "a configuration store can happen without a rollback record")
    # a record describes a change that HAS happened: the store it describes precedes it on every
    # path (the store may raise -- `d` can be a non-mapping such as a list under a dotted key --
    # and the transactional constructor then replays the records: undoing a change that never
    # happened raises from inside the rollback and leaves earlier assignments applied), unless
    # the store is protected by a handler that takes the record back.
    store_nodes = {g.node_of(s_) for s_ in stores}
    for n, _ in appends:
        ok = g.all_paths_pass(g.entry, g.node_of(n), store_nodes)
        if not ok:
            for s_ in stores:
                t_, part_ = try_of(s_)
                if t_ is not None and part_ == "body" and any(find("self._record.pop()", h) for h in t_.handlers):
                    ok = True
        ctx.ob("DOM.record.after-store", n, f"{unparse(n)}: appended only after the store it describes succeeded", ok, "" if ok else "the rollback record is appended before the store: when the store raises, __exit__ undoes a change that never happened")
    # replace records the old value (captured before the store), insert only when absent
    for n, t, st_ in entries:
        tag = const(t.elts[0]) if t.elts else None
        facts = inline_facts(asg, st_)
        if tag == "replace":
            ok = has_fact(facts, "key in d", True) is not None and eqv(t.elts[2], "d[key]") and all(not (g.dominates(g.node_of(s_), g.node_of(st_)) and g.node_of(s_) != g.node_of(st_)) for s_ in stores)
            ctx.ob("DOM.record.replace-old-value", st_, "('replace', path, d[key]) built before the store, only when key in d", ok)
        elif tag == "insert":
            ok = has_fact(facts, "key in d", False) is not None
            ctx.ob("DOM.record.insert-when-absent", st_, "('insert', path, None) only when key not in d", ok)
    offs = [(n, b) for n, b in find("record = M_v", asg, nested=False)]
    for n, b in offs:
        ok = const(b["M_v"]) is False
        if ok:
            ins = {g.node_of(a_) for a_, t, _ in entries if t.elts and const(t.elts[0]) == "insert"}
            facts = inline_facts(asg, n)
            ok = has_fact(facts, "key in d", False) is not None and g.all_paths_pass(g.entry, g.node_of(n), ins | rec_false)
        ctx.ob("DOM.record.off-after-insert", n, "record = False only after the insert of the new ancestor was recorded", ok)
    rec_calls = [c for c in calls(asg, "_assign")]
    ok = bool(rec_calls) and all(unparse(kwarg(c, "record")) == "record" and eqv(c.args[0], "keys[1:]") and eqv(c.args[2], "d[key]") and eqv(c.args[3], "path") for c in rec_calls)
    ctx.ob("DOM.record.recursion", asg, "self._assign(keys[1:], value, d[key], path, record=record)", ok)

    # ---------------- TAB ops
    ex = mod.func("set.__exit__")
    disp = set()
    for n in ast.walk(ex):
        if isinstance(n, ast.Compare) and eqv(n.left, "op") and len(n.comparators) == 1 and isinstance(const(n.comparators[0]), str):
            disp.add(const(n.comparators[0]))
    # an if/else dispatch handles one further tag implicitly
    handled = set(disp)
    implicit = [n for n in ast.walk(ex) if isinstance(n, ast.If) and unparse(n.test).startswith("op ==") and n.orelse]
    ok = tags == {"insert", "replace"} and (handled == tags or (len(tags - handled) == 1 and bool(implicit)))
    ctx.ob("TAB.ops.tags", ex, f"tags written {sorted(t for t in tags if t)} == tags dispatched {sorted(handled)} (+ else)", ok)
    loops = [l for l in walk_no_nested(ex) if isinstance(l, ast.For)]
    ok = bool(loops) and Pat("reversed(self._record)").match(loops[0].iter) is not None and eqv(loops[0].target, "(op, path, value)")
    ctx.ob("TAB.ops.reverse-order", ex, "for op, path, value in reversed(self._record)", ok)
    rep = [n for n in ast.walk(ex) if isinstance(n, ast.If) and eqv(n.test, "op == 'replace'")]
    ok = False
    if rep:
        body = ast.Module(body=rep[0].body, type_ignores=[])
        ok = bool(find("d[path[-1]] = value", body)) and bool(rep[0].orelse) and bool(find("d.pop(path[-1], None)", ast.Module(body=rep[0].orelse, type_ignores=[])))
    ctx.ob("TAB.ops.undo", ex, "replace -> restore old value; insert -> pop the inserted leaf", ok)
    ok = bool(find("d = self.config", ex))
    ctx.ob("TAB.ops.root", ex, "undo starts from self.config for every record", ok and bool(loops) and any(in_subtree(n, loops[0]) for n, _ in find("d = self.config", ex)))

    # ---------------- SCOPE transactional constructor
    init = mod.func("set.__init__")
    acalls = [c for c in calls(init, "_assign", nested=False)]
    ctx.count("init_assign_sites", len(acalls))
    ctx.floor("init_assign_sites", 2)
    for c in acalls:
        t, part = try_of(c)
        ok = False
        detail = "assignments in the constructor are not protected: a failing one leaves earlier ones applied"
        while t is not None:
            hs = [h for h in t.handlers if part == "body" and (h.type is None or unparse(h.type) in ("BaseException", "Exception"))]
            for h in hs:
                undo = bool(find("self.__exit__(None, None, None)", h)) or bool(find("self.__exit__(*M_r)", h))
                rer = any(isinstance(x, ast.Raise) and x.exc is None for x in h.body)
                if undo and rer:
                    ok = True
                    detail = f"rolled back in `except {unparse(h.type) if h.type else ''}` and re-raised"
            t, part = try_of(t)
        ctx.ob("SCOPE.transactional-init", c, "set.__init__: a failing _assign rolls back the earlier ones", ok, detail)
    ok = bool(find("self._record = []", init)) and all(dominates(init, find("self._record = []", init)[0][0], c) for c in acalls)
    ctx.ob("SCOPE.record-reset", init, "self._record = [] before any assignment", ok)
    with_lock = [w for w in walk_no_nested(init) if isinstance(w, ast.With) and any(eqv(i.context_expr, "lock") for i in w.items)]
    ok = bool(with_lock) and all(in_subtree(c, with_lock[0]) for c in acalls)
    ctx.ob("SCOPE.lock", init, "assignments happen under `with lock`", ok)
    for c in acalls:
        ok = eqv(c.args[2], "config") and Pat("key.split('.')").match(c.args[0]) is not None
        ctx.ob("SCOPE.assign-args", c, "self._assign(key.split('.'), value, config)", ok)

    # ---------------- CODEC
    ser = mod.func("serialize")
    des = mod.func("deserialize")
    p1 = _pipeline(returns(ser)[0].value)
    p2 = _pipeline(returns(des)[0].value)
    ok = len(p1) == len(p2) and p1[0].startswith("$") and p2[0].startswith("$")
    if ok:
        s1, s2 = p1[1:], list(reversed(p2[1:]))
        ok = all((a, b) in INVERSE for a, b in zip(s1, s2))
    ctx.ob("CODEC.mirror", ser, f"serialize {p1[1:]} mirrors deserialize {p2[1:]}", ok, "" if ok else "pipelines are not inverse of each other")

    # ---------------- update / merge
    up = mod.func("update")
    prios = set()
    for n in ast.walk(up):
        if isinstance(n, ast.Compare) and eqv(n.left, "priority") and isinstance(const(n.comparators[0]), str):
            prios.add(const(n.comparators[0]))
    ok = prios == {"new", "new-defaults"}
    ctx.ob("ALG.update.priorities", up, f"update dispatches on priorities {sorted(prios)} ('old' = otherwise)", ok)
    st = [n for n in walk_no_nested(up) if isinstance(n, ast.Assign) and eqv(n.targets[0], "old[k]") and eqv(n.value, "v")]
    ok = False
    if st:
        facts = inline_facts(up, st[0])
        ok = any(unparse(e).startswith("priority == 'new' or k not in old or") and p for e, p in facts) and has_fact(facts, "isinstance(v, Mapping)", False) is not None
        conds = [unparse(e) for e, p in facts if p and unparse(e).startswith("priority == 'new'")]
        ok = ok and any("defaults[k] == old[k]" in c and "priority == 'new-defaults'" in c and "k in defaults" in c for c in conds)
    ctx.ob("ALG.update.leaf", up, "old[k] = v iff priority=='new' or k not in old or (new-defaults and old[k] is still the default)", ok)
    rc = [c for c in calls(up, "update")]
    ok = bool(rc) and all(eqv(c.args[0], "old[k]") and eqv(c.args[1], "v") and unparse(kwarg(c, "priority")) == "priority" for c in rc)
    ctx.ob("ALG.update.recursion", up, "nested mappings recurse with the same priority", ok)
    mg = mod.func("merge")
    ok = bool(find("result: dict = {}", mg) or find("result = {}", mg)) and any(isinstance(l, ast.For) and eqv(l.iter, "dicts") and bool(find("update(result, d)", l)) for l in walk_no_nested(mg)) and (all(eqv(r.value, "result") for r in returns(mg)) and bool(returns(mg)))
    ctx.ob("ALG.merge", mg, "merge folds update(result, d) left to right into a fresh dict", ok)
    # ---------------- get(key, default): a prefix that holds a scalar means "not there" too
    gf = cfg.func("get") if "cfg" in dir() else ctx.model.module("dask/config.py").func("get")
    hs = [h for t in ast.walk(gf) if isinstance(t, ast.Try) for h in t.handlers]
    names = set()
    for h in hs:
        if isinstance(h.type, ast.Tuple):
            names |= {unparse(e) for e in h.type.elts}
        elif h.type is not None:
            names.add(unparse(h.type))
    ok = len(hs) == 1 and {"TypeError", "IndexError", "KeyError"} <= names
    ctx.ob("EXC.get.default-on-scalar-prefix", gf, "config.get catches TypeError, IndexError and KeyError of result[k] and returns the default", ok, "" if ok else "indexing a scalar raises TypeError: get('a.b', default) raises instead of returning the default when 'a' holds a scalar")
    # ---------------- collect_env: every DASK_* variable counts, also one set to the empty string
    ce = ctx.model.module("dask/config.py").func("collect_env")
    tests = [n for n in ast.walk(ce) if isinstance(n, ast.If) and "startswith" in unparse(n.test)]
    ok = len(tests) == 1 and eqv(tests[0].test, "name.startswith('DASK_')")
    ctx.ob("ALG.collect-env.all-vars", ce, "collect_env takes every variable whose name starts with DASK_ (no test on the value)", ok, "" if ok else "an empty-valued DASK_* variable is dropped: it no longer overrides the YAML/inherited value with ''")
    # ---------------- round 4b (C17-m7): interpret_value -- a successful literal_eval is final
    from ..lib import eqv as _e4, returns as _r4, calls as _c4
    iv4 = ctx.model.module("dask/config.py").func("interpret_value")
    trys4 = [n for n in iv4.body if isinstance(n, ast.Try)]
    ok = len(trys4) == 1 and any(isinstance(s_, ast.Return) and _e4(s_.value, "ast.literal_eval(value)") for s_ in trys4[0].body)
    ctx.ob("FLOW.interpret.literal-final", trys4[0] if trys4 else iv4, "interpret_value returns ast.literal_eval(value) straight from the try", ok, "" if ok else "the yaml-word table is applied to the RESULT of literal_eval as well: DASK_X=\"'false'\" (a quoted string) becomes the boolean False")
    gets4 = [c for c in _c4(iv4) if isinstance(c.func, ast.Attribute) and c.func.attr == "get" and _e4(c.func.value, "hardcoded_map")]
    ok = len(gets4) == 1 and len(gets4[0].args) == 2 and _e4(gets4[0].args[0], "value.lower()") and _e4(gets4[0].args[1], "value") and not any(isinstance(n, ast.Assign) and any(_e4(t, "value") for t in n.targets) for n in ast.walk(iv4))
    ctx.ob("FLOW.interpret.table-on-raw", gets4[0] if gets4 else iv4, "the none/null/true/false table is looked up with the raw string: hardcoded_map.get(value.lower(), value)", ok)


VARIANTS = [
    (CFG, "        k = canonical_name(k, result)\n        try:\n            result = result[k]", "        try:\n            result = result[k]", "NORM.canonical"),
    (CFG, "        k = canonical_name(k, old)\n", "        k = canonical_name(k, new)\n", "NORM.canonical"),
    (CFG, "            if record:\n                self._record.append(op)\n", "", "DOM.record.with-store"),
    (CFG, '                d[key] = {}\n                if record:\n                    self._record.append(("insert", path, None))', '                d[key] = {}', "DOM.record"),
    (CFG, "        for op, path, value in reversed(self._record):", "        for op, path, value in self._record:", "TAB.ops.reverse-order"),
    (CFG, '            if op == "replace":', '            if op == "replaced":', "TAB.ops"),
    (CFG, "            except BaseException:\n                # Leave the configuration as it was if any assignment fails\n                self.__exit__(None, None, None)\n                raise", "            except BaseException:\n                raise", "SCOPE.transactional-init"),
    (CFG, "    return json.loads(base64.urlsafe_b64decode(data.encode()).decode())", "    return json.loads(base64.b64decode(data.encode()).decode())", "CODEC.mirror"),
    (CFG, '            priority == "new"\n            or k not in old', '            priority == "new"\n            or k in old', "ALG.update.leaf"),
    (CFG, '                op = ("replace", path, d[key])', '                op = ("replace", path, value)', "DOM.record.replace-old-value"),
    (CFG, '            if key in d:\n                op = ("replace", path, d[key])\n            else:\n                op = ("insert", path, None)\n            d[key] = value\n', '            d[key] = value\n            if key in d:\n                op = ("replace", path, d[key])\n            else:\n                op = ("insert", path, None)\n', "DOM.record.replace-old-value"),
    (CFG, "            d[key] = value\n            # Only record what actually happened: the store above may raise\n            if record:\n                self._record.append(op)\n", "            if record:\n                self._record.append(op)\n            d[key] = value\n", "DOM.record.after-store"),
    (CFG, '                d[key] = {}\n                if record:\n                    self._record.append(("insert", path, None))\n', '                if record:\n                    self._record.append(("insert", path, None))\n                d[key] = {}\n', "DOM.record.after-store"),
    (CFG, "        key = canonical_name(keys[0], d)\n\n        path = path + (key,)","        path = path + (keys[0],)\n\n        key = canonical_name(keys[0], d)", "NORM.canonical.record-path"),
]


def selftest(ctx):
    from ..variants import selftest as st

    return st(ctx, "C17", VARIANTS)
