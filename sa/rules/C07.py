"""C07 -- topological sort and cycle detection (weak, structural).

Decided:
 DOM.emit-after-children   a key is emitted only when it has no unexplored child, together with
                           completed.add / seen.remove; completed keys are skipped (each key once)
 DOM.child-filter          children are pushed only if not completed; a child already on the current
                           DFS path is the (only) cycle trigger
 MPT.cycle-exit            the cycle branch ends in `return cycle` (cycle mode) or `raise RuntimeError`
 DELEG.modes               toposort/getcycle/isdag call _toposort with the right mode; isdag is the
                           negation of getcycle
Not decided: that the greedy cycle reconstruction always returns a real cycle.
"""
from __future__ import annotations

import ast

from ..lib import *

EXPLANATION = (
    "Dominance rules over dask/core.py::_toposort: the single emission site is reached only when the node "
    "has no unexplored child and is paired with marking it completed; the child filter and the cycle trigger "
    "are the completed/seen membership tests; the cycle branch always leaves the function by returning the "
    "cycle or raising; the public wrappers select the right mode.  Correctness of the reconstructed cycle is NOT decided."
)
ASSUMPTIONS = ["DependenciesMapping(dsk)[k] enumerates the dependencies of k (C08)"]
CORE = "dask/core.py"


def check(ctx):
    mod = ctx.model.module(CORE)
    f = mod.func("_toposort")
    g = cfg_of(f)
    emits = find("ordered.append(M_c)", f, nested=False)
    ctx.count("emission_sites", len(emits))
    ctx.floor("emission_sites", 1)
    ctx.ob("CNT.single-emission", f, "one emission site", len(emits) == 1, f"{len(emits)} site(s)")
    for n, b in emits:
        cur = b["M_c"]
        facts = inline_facts(f, n)
        ok = has_fact(facts, "next_nodes", False) is not None
        ctx.ob("DOM.emit-after-children", n, "ordered.append(cur) only when next_nodes is empty", ok, "" if ok else "guards: " + "; ".join(fact_strs(facts)))
        comp = [c for c, cb in find("completed.add(M_c)", f, nested=False) if same(cb["M_c"], cur)]
        # completed.add must run on every path on which the node is emitted (and in cycle mode too)
        ok = bool(comp) and all(dominates(f, n, c) or control_equivalent(f, n, c) or g.postdominates(g.node_of(c), g.node_of(n)) for c in comp)
        ctx.ob("PAIR.emit-completed", n, "ordered.append(cur); completed.add(cur)", ok, "" if ok else "an emitted key is not marked completed (it would be emitted again)")
        rm = [c for c, cb in find("seen.remove(M_c)", f, nested=False) + find("seen.discard(M_c)", f, nested=False) if same(cb["M_c"], cur)]
        ok = bool(rm) and bool(comp) and all(control_equivalent(f, comp[0], c) for c in rm)
        ctx.ob("PAIR.completed-unseen", n, "completed.add(cur); seen.remove(cur)", ok, "" if ok else "seen/completed are no longer mutually exclusive")
        # skip of completed nodes at the loop head
        skip = False
        for st in walk_no_nested(f):
            if isinstance(st, ast.If) and Pat("M_c in completed").match(st.test, {"M_c": cur}) is not None and any(isinstance(x, ast.Continue) for x in st.body):
                if g.dominates(g.node_of(st), g.node_of(n)):
                    skip = True
        ctx.ob("DOM.skip-completed", n, "if cur in completed: ... continue", skip)
        # the stack is only popped for cur when it is completed
        pops = [p for p, _ in find("nodes.pop()", f, nested=False) if isinstance(enclosing_stmt(p), ast.Expr)]
        okp = True
        for p in pops:
            fp = inline_facts(f, p)
            if not (has_fact(fp, "M_c in completed", True, {"M_c": cur}) is not None or any(control_equivalent(f, c, p) for c in comp)):
                okp = False
        ctx.ob("DOM.pop-only-completed", n, "nodes.pop() only for completed nodes", okp and bool(pops))
    # child filter / cycle trigger
    pushes = find("next_nodes.append(M_x)", f, nested=False)
    ctx.count("child_push_sites", len(pushes))
    ctx.floor("child_push_sites", 1)
    for n, b in pushes:
        x = b["M_x"]
        facts = inline_facts(f, n)
        ok = has_fact(facts, "M_x in completed", False, {"M_x": x}) is not None
        ctx.ob("DOM.child-filter", n, "push child only if not completed", ok)
        loops = [l for l in enclosing_loops(n) if isinstance(l, ast.For) and same(l.target, x)]
        curs = [eb["M_c"] for _, eb in emits]
        ok = bool(loops) and bool(curs) and Pat("dependencies[M_c]").match(loops[0].iter, {"M_c": curs[0]}) is not None
        ctx.ob("DOM.children-are-dependencies", n, "for nxt in dependencies[cur]", ok)
        # the cycle branch: `if nxt in seen:` body must not fall through
        cyc = [st for st in walk_no_nested(f) if isinstance(st, ast.If) and Pat("M_x in seen").match(st.test, {"M_x": x}) is not None]
        ok = len(cyc) == 1
        if ok:
            hdr = g.node_of(cyc[0])
            bt = [s for s in g.succ[hdr] if g.nodes[s].kind == "branch" and g.nodes[s].label[2] is True][0]
            # no path from the true branch reaches the push
            ok = g.all_paths_pass(bt, g.node_of(n), set())
            reach = set()
            stk = [bt]
            while stk:
                q = stk.pop()
                if q in reach:
                    continue
                reach.add(q)
                stk.extend(g.succ[q])
            ok = g.node_of(n) not in reach or all(True for _ in [])
            # exits of the branch
            rets = [r for r in ast.walk(cyc[0]) if isinstance(r, ast.Return)]
            raises = [r for r in ast.walk(cyc[0]) if isinstance(r, ast.Raise)]
            ok_ret = any(unparse(r.value) == "cycle" and has_fact(inline_facts(f, r), "returncycle", True) is not None for r in rets)
            ok_raise = any(r.exc is not None and "RuntimeError" in unparse(r.exc) for r in raises)
            loop_head = g.node_of(loops[0]) if loops else None
            falls = loop_head is not None and loop_head in reach and g.node_of(n) in reach
            ctx.ob("MPT.cycle-exit", cyc[0], "if nxt in seen: ... return cycle | raise RuntimeError", ok_ret and ok_raise and not falls, "" if ok_ret and ok_raise and not falls else f"return-cycle={ok_ret} raise={ok_raise} falls-through={falls}")
        else:
            ctx.ob("MPT.cycle-exit", f, "if nxt in seen", False, f"{len(cyc)} cycle triggers")
        sa = [s for s, sb in find("seen.add(M_c)", f, nested=False)]
        ctx.ob("DOM.seen-add", f, "seen.add(cur) when a node is first expanded", len(sa) == 1 and dominates(f, sa[0], n))
    # final returns
    rs = returns(f)
    tail = [r for r in rs if not enclosing_loops(r)]
    ok = any(unparse(r.value) == "ordered" for r in tail) and any(isinstance(r.value, ast.List) and not r.value.elts and has_fact(inline_facts(f, r), "returncycle", True) is not None for r in tail)
    ctx.ob("MPT.final-return", f, "return [] in cycle mode, ordered otherwise", ok)
    # wrappers
    t = mod.func("toposort")
    ok = any(call_name(c) == "_toposort" and kwarg(c, "returncycle") is None and len(c.args) >= 1 and unparse(c.args[0]) == "dsk" for c in calls(t)) and all(isinstance(r.value, ast.Call) for r in returns(t))
    ctx.ob("DELEG.modes.toposort", t, "toposort = _toposort(dsk, dependencies=dependencies)", ok)
    gc = mod.func("getcycle")
    ok = any(call_name(c) == "_toposort" and const(kwarg(c, "returncycle")) is True and unparse(kwarg(c, "keys")) == "keys" and unparse(c.args[0]) == "d" for c in calls(gc))
    ctx.ob("DELEG.modes.getcycle", gc, "getcycle = _toposort(d, keys=keys, returncycle=True)", ok)
    isd = mod.func("isdag")
    ok = any(Pat("not getcycle(d, keys)").match(r.value) is not None for r in returns(isd))
    ctx.ob("DELEG.modes.isdag", isd, "isdag = not getcycle(d, keys)", ok)


VARIANTS = [
    (CORE, "            if next_nodes:\n                nodes.extend(next_nodes)\n            else:", "            if next_nodes:\n                nodes.extend(next_nodes)\n            if True:", "DOM.emit-after-children"),
    (CORE, "                completed.add(cur)\n                seen.remove(cur)", "                seen.remove(cur)", "PAIR.emit-completed"),
    (CORE, "                if nxt not in completed:\n                    if nxt in seen:", "                if True:\n                    if nxt in seen:", "DOM.child-filter"),
    (CORE, '                            raise RuntimeError(f"Cycle detected in Dask: {cycle}")', '                            pass', "MPT.cycle-exit"),
    (CORE, "    return _toposort(d, keys=keys, returncycle=True)", "    return _toposort(d, keys=keys, returncycle=False)", "DELEG.modes.getcycle"),
    (CORE, "    return not getcycle(d, keys)", "    return bool(getcycle(d, keys))", "DELEG.modes.isdag"),
    (CORE, "            for nxt in dependencies[cur]:", "            for nxt in dependencies[key]:", "DOM.children-are-dependencies"),
]


def selftest(ctx):
    from ..variants import selftest as st

    return st(ctx, "C07", VARIANTS)
