"""C07 -- topological sort and cycle detection (weak, structural).

Decided:
 DOM.emit-after-children   a key is emitted only when it has no unexplored child, together with
                           completed.add / seen.remove; completed keys are skipped (each key once)
 DOM.child-filter          children are pushed only if not completed; a child already on the current
                           DFS path is the (only) cycle trigger
 MPT.cycle-exit            the cycle branch ends in `return cycle` (cycle mode) or `raise RuntimeError`
 DELEG.modes               toposort/getcycle/isdag call _toposort with the right mode; isdag is the
                           negation of getcycle
Not decided: that the greedy cycle reconstruction always returns a real cycle.
"""
from __future__ import annotations

import ast

from ..lib import *

EXPLANATION = (
    "Dominance rules over dask/core.py::_toposort: the single emission site is reached only when the node "
    "has no unexplored child and is paired with marking it completed; the child filter and the cycle trigger "
    "are the completed/seen membership tests; the cycle branch always leaves the function by returning the "
    "cycle or raising; the public wrappers select the right mode.  Correctness of the reconstructed cycle is NOT decided."
)
ASSUMPTIONS = ["DependenciesMapping(dsk)[k] enumerates the dependencies of k (C08)"]
CORE = "dask/core.py"


def check(ctx):
    mod = ctx.model.module(CORE)
    f = mod.func("_toposort")
    g = cfg_of(f)
    emits = find("ordered.append(M_c)", f, nested=False)
    ctx.count("emission_sites", len(emits))
    ctx.floor("emission_sites", 1)
    ctx.ob("CNT.single-emission", f, "one emission site", len(emits) == 1, f"{len(emits)} site(s)")
    for n, b in emits:
        cur = b["M_c"]
        facts = inline_facts(f, n)
        ok = has_fact(facts, "next_nodes", False) is not None
        ctx.ob("DOM.emit-after-children", n, "ordered.append(cur) only when next_nodes is empty", ok, "" if ok else "guards: " + "; ".join(fact_strs(facts)))
        comp = [c for c, cb in find("completed.add(M_c)", f, nested=False) if same(cb["M_c"], cur)]
        # completed.add must run on every path on which the node is emitted (and in cycle mode too)
        ok = bool(comp) and all(dominates(f, n, c) or control_equivalent(f, n, c) or g.postdominates(g.node_of(c), g.node_of(n)) for c in comp)
        ctx.ob("PAIR.emit-completed", n, "ordered.append(cur); completed.add(cur)", ok, "" if ok else "an emitted key is not marked completed (it would be emitted again)")
        rm = [c for c, cb in find("seen.remove(M_c)", f, nested=False) + find("seen.discard(M_c)", f, nested=False) if same(cb["M_c"], cur)]
        ok = bool(rm) and bool(comp) and all(control_equivalent(f, comp[0], c) for c in rm)
        ctx.ob("PAIR.completed-unseen", n, "completed.add(cur); seen.remove(cur)", ok, "" if ok else "seen/completed are no longer mutually exclusive")
        # skip of completed nodes at the loop head
        skip = False
        for st in walk_no_nested(f):
            if isinstance(st, ast.If) and Pat("M_c in completed").match(st.test, {"M_c": cur}) is not None and any(isinstance(x, ast.Continue) for x in st.body):
                if g.dominates(g.node_of(st), g.node_of(n)):
                    skip = True
        ctx.ob("DOM.skip-completed", n, "if cur in completed: ... continue", skip)
        # the stack is only popped for cur when it is completed
        # (pops inside the cycle branch unwind the stack on the way out and are not emissions)
        cyc_ifs = [st for st in walk_no_nested(f) if isinstance(st, ast.If) and unparse(st.test).endswith(" in seen")]
        pops = [p for p, _ in find("nodes.pop()", f, nested=False) if isinstance(enclosing_stmt(p), ast.Expr) and not any(in_subtree(p, ci_) for ci_ in cyc_ifs)]
        okp = True
        for p in pops:
            fp = inline_facts(f, p)
            if not (has_fact(fp, "M_c in completed", True, {"M_c": cur}) is not None or any(control_equivalent(f, c, p) for c in comp)):
                okp = False
        ctx.ob("DOM.pop-only-completed", n, "nodes.pop() only for completed nodes", okp and bool(pops))
    # child filter / cycle trigger
    pushes = find("next_nodes.append(M_x)", f, nested=False)
    ctx.count("child_push_sites", len(pushes))
    ctx.floor("child_push_sites", 1)
    for n, b in pushes:
        x = b["M_x"]
        facts = inline_facts(f, n)
        ok = has_fact(facts, "M_x in completed", False, {"M_x": x}) is not None
        ctx.ob("DOM.child-filter", n, "push child only if not completed", ok)
        loops = [l for l in enclosing_loops(n) if isinstance(l, ast.For) and same(l.target, x)]
        curs = [eb["M_c"] for _, eb in emits]
        ok = bool(loops) and bool(curs) and Pat("dependencies[M_c]").match(loops[0].iter, {"M_c": curs[0]}) is not None
        ctx.ob("DOM.children-are-dependencies", n, "for nxt in dependencies[cur]", ok)
        # the cycle branch: `if nxt in seen:` body must not fall through
        cyc = [st for st in walk_no_nested(f) if isinstance(st, ast.If) and Pat("M_x in seen").match(st.test, {"M_x": x}) is not None]
        ok = len(cyc) == 1
        if ok:
            hdr = g.node_of(cyc[0])
            bt = [s for s in g.succ[hdr] if g.nodes[s].kind == "branch" and g.nodes[s].label[2] is True][0]
            # no path from the true branch reaches the push
            ok = g.all_paths_pass(bt, g.node_of(n), set())
            reach = set()
            stk = [bt]
            while stk:
                q = stk.pop()
                if q in reach:
                    continue
                reach.add(q)
                stk.extend(g.succ[q])
            ok = g.node_of(n) not in reach or all(True for _ in [])
            # exits of the branch
            rets = [r for r in ast.walk(cyc[0]) if isinstance(r, ast.Return)]
            raises = [r for r in ast.walk(cyc[0]) if isinstance(r, ast.Raise)]
            ok_ret = any(eqv(r.value, "cycle") and has_fact(inline_facts(f, r), "returncycle", True) is not None for r in rets)
            ok_raise = any(r.exc is not None and "RuntimeError" in unparse(r.exc) for r in raises)
            loop_head = g.node_of(loops[0]) if loops else None
            falls = loop_head is not None and loop_head in reach and g.node_of(n) in reach
            ctx.ob("MPT.cycle-exit", cyc[0], "if nxt in seen: ... return cycle | raise RuntimeError", ok_ret and ok_raise and not falls, "" if ok_ret and ok_raise and not falls else f"return-cycle={ok_ret} raise={ok_raise} falls-through={falls}")
        else:
            ctx.ob("MPT.cycle-exit", f, "if nxt in seen", False, f"{len(cyc)} cycle triggers")
        sa = [s for s, sb in find("seen.add(M_c)", f, nested=False)]
        ctx.ob("DOM.seen-add", f, "seen.add(cur) when a node is first expanded", len(sa) == 1 and dominates(f, sa[0], n))
    # ---------------- the start keys: the whole graph only when keys is None
    for a, pname, by_none, by_truth, raw in none_default_rebinds(f):
        if pname != "keys":
            continue
        if eqv(a.value, "dsk"):
            ctx.ob("REACH.keys-default", a, "keys = dsk only when keys is None", by_none and not by_truth, "" if by_none and not by_truth else "an empty list of start keys (or a falsy key such as 0) is replaced by the whole graph: getcycle/isdag report cycles that are not reachable from the requested keys")
    # ---------------- termination of the cycle reconstruction (every loop in the cycle branch has a
    # termination argument from the catalogue; a graph walk without one can spin forever)
    for st in walk_no_nested(f):
        if not (isinstance(st, ast.If) and unparse(st.test).endswith("in seen")):
            continue
        loops_ = [l for l in ast.walk(st) if isinstance(l, (ast.While, ast.For))]
        ctx.count("cycle_branch_loops", len(loops_))
        for l in loops_:
            body_txt = unparse(ast.Module(body=l.body, type_ignores=[]))
            how = None
            if isinstance(l, ast.While) and Pat("nodes[-1] != M_x").match(l.test) is not None and "nodes.pop()" in body_txt:
                how = "pops the finite stack until the revisited node (which is on it)"
            elif isinstance(l, ast.For) and isinstance(l.iter, ast.Name):
                q = l.iter.id
                apps = [c for c in ast.walk(l) if isinstance(c, ast.Call) and unparse(c.func) == f"{q}.append"]
                guarded = True
                for c in apps:
                    x = unparse(c.args[0])
                    facts = {(unparse(e), pol) for e, pol in cfg_of(f).facts(enclosing_stmt(c))}
                    vis = [e for e, pol in facts if pol is False and e.startswith(f"{x} in ")]
                    marks = [vs for vs in vis if f"{vs.split(' in ')[1]}[{x}] =" in body_txt or f"{vs.split(' in ')[1]}.add({x})" in body_txt]
                    guarded = guarded and bool(marks)
                if apps and guarded:
                    how = "breadth-first worklist: a node is appended only if not yet recorded, and is recorded when appended"
                elif not apps:
                    how = "iterates a collection that the body does not extend"
            elif isinstance(l, ast.While) and Pat("M_n is not None").match(l.test) is not None:
                n_ = unparse(l.test.left)
                steps = [a_ for a_ in ast.walk(l) if isinstance(a_, ast.Assign) and unparse(a_.targets[0]) == n_ and isinstance(a_.value, ast.Subscript) and unparse(a_.value.slice) == n_]
                if steps:
                    how = "follows the parent pointers written by the breadth-first search (each set once, root is None)"
            elif isinstance(l, ast.For):
                how = "iterates a collection that the body does not extend" if not any(isinstance(c, ast.Call) and isinstance(c.func, ast.Attribute) and c.func.attr in ("append", "extend", "add") and unparse(c.func.value) == unparse(l.iter) for c in ast.walk(l)) else None
            ctx.ob("TERM.cycle-reconstruction", l, f"loop `{unparse(l).splitlines()[0]}` in the cycle branch terminates", how is not None, how or "graph walk with neither a visited set nor a recognised ranking: the stack it draws from holds unexplored siblings and duplicates, so the walk can revisit nodes forever (toposort/getcycle hang)")
    # final returns
    rs = returns(f)
    tail = [r for r in rs if not enclosing_loops(r)]
    ok = any(eqv(r.value, "ordered") for r in tail) and any(isinstance(r.value, ast.List) and not r.value.elts and has_fact(inline_facts(f, r), "returncycle", True) is not None for r in tail)
    ctx.ob("MPT.final-return", f, "return [] in cycle mode, ordered otherwise", ok)
    # wrappers
    t = mod.func("toposort")
    ok = any(call_name(c) == "_toposort" and kwarg(c, "returncycle") is None and len(c.args) >= 1 and eqv(c.args[0], "dsk") for c in calls(t)) and all(isinstance(r.value, ast.Call) for r in returns(t))
    # every key is a start key: the wrapper must not narrow `keys` (a cycle that nothing else depends on
    # would never be visited) and must hand the graph on unchanged
    tcalls = [c for c in calls(t) if call_name(c) == "_toposort"]
    ok = ok and len(tcalls) == 1 and kwarg(tcalls[0], "keys") is None and len(tcalls[0].args) == 1 and len(returns(t)) == 1
    ctx.ob("DELEG.modes.toposort", t, "toposort = _toposort(dsk, dependencies=dependencies) -- no start-key selection", ok, "" if ok else "toposort restricts the traversal to selected start keys: keys only reachable through a cycle are never visited and the cycle is not reported")
    gc = mod.func("getcycle")
    ok = any(call_name(c) == "_toposort" and const(kwarg(c, "returncycle")) is True and unparse(kwarg(c, "keys")) == "keys" and eqv(c.args[0], "d") for c in calls(gc))
    rebinds = [a for a in walk_no_nested(gc) if isinstance(a, (ast.Assign, ast.AugAssign)) and any(isinstance(t_, ast.Name) and t_.id == "keys" for t_ in (a.targets if isinstance(a, ast.Assign) else [a.target]))]
    ok = ok and not rebinds
    ctx.ob("DELEG.modes.getcycle", gc, "getcycle = _toposort(d, keys=keys, returncycle=True) with the caller's keys, unmodified", ok, "" if ok else "the requested start keys are replaced (e.g. when falsy): cycles that are not reachable from the request are reported")
    isd = mod.func("isdag")
    ok = (all(Pat("not getcycle(d, keys)").match(r.value) is not None for r in returns(isd)) and bool(returns(isd)))
    ctx.ob("DELEG.modes.isdag", isd, "isdag = not getcycle(d, keys)", ok)
    # ---------------- keys_in_tasks looks where the converter/executor looks: list elements, dict VALUES, task arguments
    kit = model.module("dask/core.py").func("keys_in_tasks") if "model" in dir() else ctx.model.module("dask/core.py").func("keys_in_tasks")
    dct = [n for n in ast.walk(kit) if isinstance(n, ast.If) and eqv(n.test, "typ is dict")]
    ok = len(dct) == 1 and len(dct[0].body) == 1 and eqv(dct[0].body[0], "work.extend(w.values())")
    ctx.ob("TAB.keys-in-tasks.dict-values", kit, "a dict argument contributes its values (keys of a dict literal are data)", ok, "" if ok else "dependencies that occur only inside dict values are not seen: toposort may put a key before its dependency and cycles through a dict argument go unnoticed")
    lst = [n for n in ast.walk(kit) if isinstance(n, ast.If) and eqv(n.test, "typ is list")]
    ok = len(lst) == 1 and eqv(lst[0].body[0], "work.extend(w)")
    ctx.ob("TAB.keys-in-tasks.list", kit, "a list argument contributes its elements", ok)
    # ---------------- the dependency cache starts EMPTY for every kind of graph mapping
    dmi = (model if "model" in dir() else ctx.model).module("dask/_task_spec.py").func("DependenciesMapping.__init__")
    cache = find("self._cache = M_v", dmi)
    ok = len(cache) == 1 and (eqv(cache[0][1]["M_v"], "dict.fromkeys(dsk)") or eqv(cache[0][1]["M_v"], "{}")) and not [c for c in calls(dmi, None) if (call_name(c) or "") in ("dsk.copy", "self._cache.clear")]
    ctx.ob("OWN.dep-cache.fresh", dmi, "DependenciesMapping._cache is a new dict (dict.fromkeys(dsk): every entry None = not computed)", ok, "" if ok else "dsk.copy().clear() is empty only for a plain dict: for a ChainMap the parents' raw tasks stay in the cache and are served as dependency sets (wrong order, missed cycles)")


VARIANTS = [
    (CORE, "    return _toposort(d, keys=keys, returncycle=True)", "    if not keys:\n        keys = list(d)\n    return _toposort(d, keys=keys, returncycle=True)", "DELEG.modes.getcycle"),
    (CORE, "    if keys is None:\n        keys = dsk\n    elif not isinstance(keys, list):", "    if not keys:\n        keys = dsk\n    elif not isinstance(keys, list):", "REACH.keys-default"),
    (CORE, "                                if dep in inplay and dep not in came_from:", "                                if dep in inplay:", "TERM.cycle-reconstruction"),
    (CORE, "            if next_nodes:\n                nodes.extend(next_nodes)\n            else:", "            if next_nodes:\n                nodes.extend(next_nodes)\n            if True:", "DOM.emit-after-children"),
    (CORE, "                completed.add(cur)\n                seen.remove(cur)", "                seen.remove(cur)", "PAIR.emit-completed"),
    (CORE, "                if nxt not in completed:\n                    if nxt in seen:", "                if True:\n                    if nxt in seen:", "DOM.child-filter"),
    (CORE, '                            raise RuntimeError(f"Cycle detected in Dask: {cycle}")', '                            pass', "MPT.cycle-exit"),
    (CORE, "    return _toposort(d, keys=keys, returncycle=True)", "    return _toposort(d, keys=keys, returncycle=False)", "DELEG.modes.getcycle"),
    (CORE, "    return not getcycle(d, keys)", "    return bool(getcycle(d, keys))", "DELEG.modes.isdag"),
    (CORE, "            for nxt in dependencies[cur]:", "            for nxt in dependencies[key]:", "DOM.children-are-dependencies"),
]


def selftest(ctx):
    from ..variants import selftest as st

    return st(ctx, "C07", VARIANTS)
