"""Rules shared by the reduction-like properties (C37, C38, C46).

 PHASE.option-used   the framework calls reduction_chunk / reduction_combine / reduction_aggregate (and the
                     groupby / cumulative equivalents) with the options the class declares; a phase that
                     accepts an option (skipna, ddof, order, ...) reads it.  An option that one phase honours
                     and another ignores makes the partial results inconsistent (nansum in the chunks,
                     plain sum when combining).  Confirmed exceptions below.
 ALG.min-count       a count is compared with min_periods / min_count as pandas does: the result is valid
                     iff count >= min, invalid iff count < min
"""
from __future__ import annotations

import ast

from ..lib import *

PHASES = ("reduction_chunk", "reduction_combine", "reduction_aggregate", "chunk", "combine", "aggregate", "groupby_chunk", "groupby_aggregate")
UNUSED_OK = {
    ("dask/dataframe/dask_expr/_reductions.py", "TotalMemoryUsageFrame", "reduction_combine", "is_dataframe"): "the combine step sums whatever the chunks produced; only the chunk/aggregate steps differ by frame kind",
    ("dask/dataframe/dask_expr/_groupby.py", "Cov", "combine", "levels"): "levels are re-derived from the concatenated index in _cov_combine",
}


def option_used(ctx, files, floor=10):
    n = 0
    for rel in files:
        mod = ctx.model.module(rel)
        for qn, c in mod.classes():
            for st in c.body:
                if isinstance(st, ast.FunctionDef) and st.name in PHASES:
                    n += 1
                    ps = [a.arg for a in st.args.args + st.args.kwonlyargs if a.arg not in ("cls", "self")]
                    used = {x.id for x in ast.walk(st) if isinstance(x, ast.Name) and isinstance(x.ctx, ast.Load)}
                    unused = [p for p in ps if p not in used and (rel, qn, st.name, p) not in UNUSED_OK]
                    ctx.ob("PHASE.option-used", st, f"{qn}.{st.name}({', '.join(ps)}) reads every option it is given", not unused, "" if not unused else f"{unused} accepted but ignored: this phase no longer honours the option while the other phases do")
    ctx.count("reduction_phase_methods", n)
    ctx.floor("reduction_phase_methods", floor)


def min_count(ctx, files, floor=1):
    """Comparisons between a count and min_periods/min_count."""
    n = 0
    for rel in files:
        mod = ctx.model.module(rel)
        for qn, f in mod.functions():
            for c in walk_no_nested(f):
                if not (isinstance(c, ast.Compare) and len(c.ops) == 1):
                    continue
                l, r = unparse(c.left), unparse(c.comparators[0])
                def is_min(t):
                    return t in ("min_periods", "min_count", "self.min_periods", "self.min_count")
                def is_count(t):
                    return "count" in t.lower() or "notnull().sum()" in t
                if is_min(r) and is_count(l):
                    ok = isinstance(c.ops[0], (ast.GtE, ast.Lt))
                elif is_min(l) and is_count(r):
                    ok = isinstance(c.ops[0], (ast.LtE, ast.Gt))
                else:
                    continue
                n += 1
                ctx.ob("ALG.min-count", c, f"{qn}: `{unparse(c)}` -- valid iff count >= minimum, missing iff count < minimum", ok, "" if ok else "off by one against pandas: exactly `minimum` observations are enough for a result")
    ctx.count("min_count_comparisons", n)
    ctx.floor("min_count_comparisons", floor)


VALUE_OPTIONS = ("skipna", "dropna", "fn", "order", "corr", "b", "ddof_ignored")


def kwargs_consistent(ctx, files, floor=4):
    """PHASE.kwargs: an option that changes the VALUE of a partial result (skipna, dropna, fn, order, corr,
    b) and is handed to the chunk phase is handed to every later phase whose keyword dict is spelled out."""
    n = 0
    for rel in files:
        mod = ctx.model.module(rel)
        for qn, c in mod.classes():
            lit = {}
            for st in c.body:
                if isinstance(st, ast.FunctionDef) and st.name in ("chunk_kwargs", "combine_kwargs", "aggregate_kwargs"):
                    for r in returns(st):
                        d = dict_literal_keys(r.value)
                        if d is not None:
                            lit[st.name] = (st, set(map(str, d)))
            if "chunk_kwargs" not in lit:
                continue
            opts = lit["chunk_kwargs"][1] & set(VALUE_OPTIONS)
            for phase in ("combine_kwargs", "aggregate_kwargs"):
                if phase in lit and opts:
                    n += 1
                    missing = sorted(opts - lit[phase][1])
                    ctx.ob("PHASE.kwargs", lit[phase][0], f"{qn}.{phase} passes on {sorted(opts)} like chunk_kwargs", not missing, "" if not missing else f"{missing} reach the chunk phase but not this one: partial results are merged with the default setting (e.g. NaN skipped although skipna=False was asked for)")
    ctx.count("phase_kwargs_dicts", n)
    ctx.floor("phase_kwargs_dicts", floor)
