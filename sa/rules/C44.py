"""C44 -- repartitioning preserves rows, order and the requested layout (narrow, structural).

Decided (dask/dataframe/dask_expr/_repartition.py, dask/dataframe/core.py::split_evenly):
 ABS.fewer.tiling   RepartitionToFewer: output i is the concatenation, in order, of the input partitions
                    range(b[i], b[i+1]) for consecutive boundaries b; the boundaries are int(i * old/new)
                    for i in range(new + 1), cleaned to start at 0 and end at the input partition count; the
                    divisions are the input divisions at those boundaries -- every input partition is used
                    exactly once, in order
 ABS.more.tiling    RepartitionToMore: nsplits = [new // old] * old with the remainder added to the last
                    (sum = new); output partitions are numbered by a counter that advances by exactly one per
                    emitted partition; an unsplit partition is passed through, a split one is cut by
                    split_evenly into k consecutive slices (linspace boundaries, slice i = [d[i], d[i+1]))
                    taken in order; 1 + sum(nsplits) divisions
 DELEG.divisions    RepartitionDivisions reports exactly the requested divisions
Not decided: the interval arithmetic of repartition by divisions / by size; row values.
"""
from __future__ import annotations

import ast

from ..lib import *

EXPLANATION = (
    "Tiling rules: RepartitionToFewer concatenates consecutive, non-overlapping runs of input partitions between "
    "boundaries that start at 0 and end at the input partition count; RepartitionToMore splits each input "
    "partition into consecutive slices and numbers the outputs with a unit-step counter, the split counts "
    "summing to the requested number; RepartitionDivisions reports the requested divisions.  The interval "
    "arithmetic of divisions/size repartitioning and the row values are NOT decided."
)
ASSUMPTIONS = ["_concat keeps the order of the list it is given", "np.linspace(0, n, k + 1).astype(int) is non-decreasing from 0 to n"]
RP = "dask/dataframe/dask_expr/_repartition.py"
DC = "dask/dataframe/core.py"


def check(ctx):
    model = ctx.model
    fewer = model.klass(RP, "RepartitionToFewer")
    more = model.klass(RP, "RepartitionToMore")
    divs = model.klass(RP, "RepartitionDivisions")
    # ---------------- fewer
    lay = fewer.own_methods["_layer"]
    dc = [n for n in ast.walk(lay) if isinstance(n, ast.DictComp)]
    ok = len(dc) == 1
    if ok:
        d = dc[0]
        ok = eqv(d.key, "(self._name, i)") and eqv(d.value, "(_concat, [(self.frame._name, j) for j in range(start, end)])") and eqv(d.generators[0].target, "(i, (start, end))") and eqv(d.generators[0].iter, "enumerate(zip(new_partitions_boundaries, new_partitions_boundaries[1:]))")
    ok = ok and bool(find("new_partitions_boundaries = self._partitions_boundaries", lay))
    ctx.ob("ABS.fewer.tiling", lay, "output i = _concat of input partitions range(b[i], b[i+1]) over consecutive boundary pairs", ok, "" if ok else "the runs of input partitions overlap, leave gaps or are reordered")
    cb = fewer.own_methods["_compute_partition_boundaries"]
    ok = bool(find("npartitions_ratio = n_old_partitions / n_new_partitions", cb)) and bool(find("new_partitions_boundaries = [int(new_partition_index * npartitions_ratio) for new_partition_index in range(n_new_partitions + 1)]", cb)) and (all(eqv(r.value, "_clean_new_division_boundaries(new_partitions_boundaries, n_old_partitions)") for r in returns(cb)) and bool(returns(cb)))
    ctx.ob("ABS.fewer.boundaries", cb, "boundaries = int(i * old / new) for i in range(new + 1), then cleaned", ok)
    cl = model.module(RP).func("_clean_new_division_boundaries")
    ok = bool(find("new_partitions_boundaries.insert(0, 0)", cl)) and bool(find("new_partitions_boundaries[-1] = frame_npartitions", cl)) and any(eqv(n.test, "new_partitions_boundaries[0] > 0") for n in walk_no_nested(cl) if isinstance(n, ast.If)) and any(eqv(n.test, "new_partitions_boundaries[-1] < frame_npartitions") for n in walk_no_nested(cl) if isinstance(n, ast.If))
    ctx.ob("ABS.fewer.boundaries.clean", cl, "boundaries are made to start at 0 and to end at the input partition count", ok)
    dv = fewer.own_methods["_divisions"]
    ok = (all(eqv(r.value, "tuple((self.frame.divisions[i] for i in self._partitions_boundaries))") for r in returns(dv)) and bool(returns(dv)))
    ctx.ob("ABS.fewer.divisions", dv, "divisions = the input divisions at the boundaries", ok)
    pb = fewer.own_methods["_partitions_boundaries"]
    ok = (all(eqv(r.value, "self._compute_partition_boundaries(npartitions, npartitions_input)") for r in returns(pb)) and bool(returns(pb))) and bool(find("npartitions = self.new_partitions", pb)) and bool(find("npartitions_input = self.frame.npartitions", pb))
    ctx.ob("ABS.fewer.boundaries.args", pb, "_compute_partition_boundaries(new, old) in that order", ok)
    # ---------------- more
    ns = more.own_methods["_nsplits"]
    ok = bool(find("(div, mod) = divmod(self.new_partitions, df.npartitions)", ns) or find("div, mod = divmod(self.new_partitions, df.npartitions)", ns)) and bool(find("nsplits = [div] * df.npartitions", ns)) and bool(find("nsplits[-1] += mod", ns))
    ctx.ob("ABS.more.counts", ns, "nsplits = [new // old] * old, remainder added to the last: the counts sum to the requested number", ok)
    ml = more.own_methods["_layer"]
    stores = [a for a in ast.walk(ml) if isinstance(a, ast.Assign) and isinstance(a.targets[0], ast.Subscript) and eqv(a.targets[0].slice, "(new_name, j)")]
    incs = find("j += 1", ml)
    ctx.count("output_partition_stores", len(stores))
    ctx.floor("output_partition_stores", 2)
    ok = len(stores) == 2 and len(incs) == 2 and all(any(control_equivalent(ml, s_, i_[0]) and s_.lineno < i_[0].lineno for i_ in incs) for s_ in stores) and bool(find("j = 0", ml))
    ctx.ob("ABS.more.counter", ml, "every emitted partition (new_name, j) is followed by exactly one j += 1; j starts at 0", ok, "" if ok else "output partitions are skipped or overwritten")
    ok = bool(find("dsk[new_name, j] = (df._name, i)", ml)) and bool(find("dsk[split_name, i] = (split_evenly, (df._name, i), k)", ml)) and bool(find("dsk[new_name, j] = (getitem, (split_name, i), jj)", ml)) and any(isinstance(l, ast.For) and eqv(l.iter, "range(k)") and eqv(l.target, "jj") for l in ast.walk(ml)) and any(isinstance(l, ast.For) and eqv(l.iter, "enumerate(nsplits)") for l in ast.walk(ml))
    ctx.ob("ABS.more.pieces", ml, "partition i is passed through (k == 1) or cut into pieces 0..k-1 of split_evenly, emitted in order", ok)
    md = more.own_methods["_divisions"]
    ok = (all(eqv(r.value, "(None,) * (1 + sum(self._nsplits))") for r in returns(md)) and bool(returns(md)))
    ctx.ob("ABS.more.divisions", md, "1 + sum(nsplits) unknown divisions", ok)
    se = model.module(DC).func("split_evenly")
    ok = bool(find("divisions = np.linspace(0, len(df), k + 1).astype(int)", se)) and (all(eqv(r.value, "{i: df.iloc[divisions[i]:divisions[i + 1]] for i in range(k)}") for r in returns(se)) and bool(returns(se)))
    ctx.ob("ABS.more.split-evenly", se, "split_evenly: piece i = rows [d[i], d[i+1]) with d = linspace(0, len, k + 1)", ok, "" if ok else "the pieces of a partition overlap, leave rows out or are mis-numbered")
    # ---------------- divisions
    dd = divs.own_methods["_divisions"]
    ok = (all(eqv(r.value, "self.new_divisions") for r in returns(dd)) and bool(returns(dd)))
    ctx.ob("DELEG.divisions", dd, "RepartitionDivisions._divisions = the requested divisions", ok)
    # ---------------- RepartitionSize: same piece bookkeeping as RepartitionToMore (source index i, output counter j)
    rs = model.klass(RP, "RepartitionSize").own_methods["_layer"]
    ok = bool(find("dsk[new_name, j] = (df._name, i)", rs)) and bool(find("dsk[split_name, i] = (split_evenly, (df._name, i), k)", rs)) and bool(find("dsk[new_name, j] = (getitem, (split_name, i), jj)", rs)) and len(find("j += 1", rs)) == 2 and any(isinstance(l, ast.For) and eqv(l.iter, "enumerate(self._nsplits)") and eqv(l.target, "(i, k)") for l in ast.walk(rs))
    ctx.ob("ABS.size.pieces", rs, "RepartitionSize: an unsplit source partition i is passed through as output piece j; split ones contribute their k pieces in order", ok, "" if ok else "a passed-through piece reads the wrong source partition: rows are lost and duplicated when an unsplit partition follows a split one")
    cat_ = [n for n in ast.walk(rs) if isinstance(n, ast.DictComp)]
    ok = len(cat_) == 1 and eqv(cat_[0].value, "(methods.concat, [(new_name, j) for j in range(start, end)])") and eqv(cat_[0].generators[0].iter, "enumerate(zip(self._partition_boundaries, self._partition_boundaries[1:]))")
    ctx.ob("ABS.size.tiling", rs, "output i = concat of pieces range(b[i], b[i+1]) over consecutive boundaries", ok)
    from .C41 import division_location

    division_location(ctx)


VARIANTS = [
    (RP, "                [(self.frame._name, j) for j in range(start, end)],", "                [(self.frame._name, j) for j in range(start, end + 1)],", "ABS.fewer.tiling"),
    (RP, "        nsplits[-1] += mod", "        nsplits[0] = mod", "ABS.more.counts"),
    (RP, "                for jj in range(k):\n                    dsk[new_name, j] = (getitem, (split_name, i), jj)\n                    j += 1", "                for jj in range(k):\n                    dsk[new_name, j] = (getitem, (split_name, i), jj)\n                j += 1", "ABS.more.counter"),
    (DC, "    return {i: df.iloc[divisions[i] : divisions[i + 1]] for i in range(k)}", "    return {i: df.iloc[divisions[i] : divisions[i + 1] - 1] for i in range(k)}", "ABS.more.split-evenly"),
    (RP, "    if new_partitions_boundaries[-1] < frame_npartitions:\n        new_partitions_boundaries[-1] = frame_npartitions", "    if new_partitions_boundaries[-1] < frame_npartitions:\n        pass", "ABS.fewer.boundaries.clean"),
]


def selftest(ctx):
    from ..variants import selftest as st

    return st(ctx, "C44", VARIANTS)
