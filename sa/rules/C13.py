"""C13 -- collections computed together give the same values as computed alone (partial).

Decided:
 TOKFLOW.key-inputs   for every function outside dask/dataframe that forms a key with tokenize(...):
                      every parameter that (may-)flows into what the function builds also (may-)flows
                      into the token, unless exempted (user-supplied names, metadata-only and
                      graph-shape-only parameters; per-site exceptions with a reason each)
 N1.name-has-token    every `_name` override of an expression class carries the deterministic token
                      (or delegates to another expression's name / an explicit user name)
 TOKFLOW.expr-token   Expr.deterministic_token / __dask_tokenize__ cover the type and all operands
Relies on C12 for injectivity of tokenize itself.
"""
from __future__ import annotations

import ast
import re

from ..lib import *
from ..tokflow import analyse
from ..srcmodel import param_names

EXPLANATION = (
    "Parameter-to-token flow analysis (backward may-flow slices over reaching definitions, including "
    "container mutations) at every key-forming function outside dask/dataframe, and a taint rule over every "
    "`_name` override of the expression classes: a value-determining input that does not reach the key means "
    "two different collections can share task keys.  Whether tokenize separates the inputs is C12; value "
    "equality itself is NOT decided."
)
ASSUMPTIONS = ["a parameter that never flows into the returned collection cannot change its values", "tokenize is injective on the inputs (C12)"]

# parameters that never need to reach the token, by role (name patterns), with the reason
GLOBAL_EXEMPT = [
    (re.compile(r"^(name|names|token|key|inname|outname|in_name|out_name|new_name|name_prefix|prefix|label)$"), "caller-supplied name/token overrides or is the key itself"),
    (re.compile(r"^(meta|reduced_meta|like)$"), "metadata only: does not change computed values"),
    (re.compile(r"^(split_every|inline_array|allow_getitem_optimization|warn|lock|return_stored|compute|asarray|fancy|getitem|nout|allow_unknown_chunksizes)$"), "changes graph shape / post-processing only, not the values under the key"),
    (re.compile(r"^(self|cls)$"), "receiver"),
]
# (relpath, qualname) -> {param: reason}
SITE_EXEMPT = {
    ("dask/array/reductions.py", "arg_reduction"): {"agg": "fixed by chunk/combine at all four call sites (argmin/argmax/nanargmin/nanargmax)", "keepdims": "applied by a separately named wrapper step"},
    ("dask/array/reductions.py", "cumreduction"): {"out": "forwarded to prefixscan_blelloch(..., out) / handle_out: applied to the finished result", "preop": "paired one-to-one with func at every call site (cumsum/np.sum, nancumsum/np.nansum, ...)"},
    ("dask/array/_array_expr/_ufunc.py", "ufunc.outer"): {"A": "operands are named by blockwise()", "B": "operands are named by blockwise()", "kwargs": "forwarded to blockwise(), which tokenizes them"},
    ("dask/array/routines.py", "insert"): {"arr": "result is a concatenate of separately named slices", "axis": "idem", "obj": "idem"},
    ("dask/bag/core.py", "partition"): {"p": "not a key: hash partition number"},
    ("dask/bytes/core.py", "read_bytes"): {"sample": "sample is returned next to the delayed blocks, not part of them"},
    ("dask/delayed.py", "call_function"): {"func": "identified by func_token, checked by C15"},
    ("dask/graph_manipulation.py", "_bind_one"): {"blocker": "C16 (not applicable): keys are cloned with seed", "omit_keys": "C16", "omit_layers": "C16", "seed": "C16"},
    ("dask/array/creation.py", "eye"): {"chunks": "the token uses the normalized vchunks/hchunks that are actually used"},
    ("dask/array/percentile.py", "percentile"): {"kwargs": "only the deprecated `interpolation` keyword, folded into `method`; anything else raises", "internal_method": "selects the name PREFIX (percentile_tdigest_chunk- vs percentile_chunk-), so the keys differ"},
    ("dask/array/linalg.py", "tsqr"): {"_max_vchunk_size": "private knob of the recursive implementation (tests only): qr/svd/sfqr never pass it"},
    ("dask/array/core.py", "store"): {"kwargs": "scheduler options: forwarded to dask.compute/persist, never into the store tasks"},
    ("dask/array/random.py", "_wrap_func"): {"extra_chunks": "derived at every call site from a distribution parameter that is in args (len(pvals), len(colors), mean.shape)", "rng": "enters through tokenize(bitgens): the spawned bit generators of rng (C28)"},
}
NAME_SOURCES = ("deterministic_token", "_token", "super()._name", ".expr._name", ".array._name", "tokenize(*self.operands)", "_tokenize_deterministic(*self.operands)", "self.obj.key", "self.__name", "self._info[")


def _exempt(rel, qn, p):
    for rx, why in GLOBAL_EXEMPT:
        if rx.match(p):
            return why
    return SITE_EXEMPT.get((rel, qn), {}).get(p)


def check(ctx):
    key_inputs(ctx)
    name_overrides(ctx)
    aux_key_names(ctx)
    fused_name_hash(ctx)
    _expr_token(ctx)
    # dask/tokenize.py is an anchor of this property: the injectivity rules of C12 are part of it
    from . import C12

    C12.check(ctx)
    # ---------------- take: the helper tasks of the shuffle are named after the OUTPUT (unique per indexing), not the input
    tkf = ctx.model.module("dask/array/slicing.py").func("take")
    tk_ = find("token = M_v", tkf)
    ok = len(tk_) == 1 and isinstance(tk_[0][1]["M_v"], ast.IfExp)
    if ok:
        v = tk_[0][1]["M_v"]
        names = {n.id for n in ast.walk(v) if isinstance(n, ast.Name)}
        ok = eqv(v.body, "outname.split('-')[-1]") and eqv(v.test, "'-' in outname") and "inname" not in names and eqv(v.orelse, "tokenize(outname, chunks, index, axis)")
    ctx.ob("N1.take.split-token", tkf, "token of the shuffle-split/sorter/taker tasks = the output name's token (or tokenize(outname, chunks, index, axis))", ok, "" if ok else "two different fancy indexings of one array emit identically named helper tasks: computed together one reads the other's selection")
    # ---------------- a full output name is never a constant (blockwise/map_blocks take `name=` as the COMPLETE name)
    n_nm = 0
    for rel in ctx.model.package_files("dask"):
        if "/tests/" in rel or not rel.startswith(("dask/array/", "dask/bag/")):
            continue
        src = ctx.model.read(rel)
        if "name=" not in src:
            continue
        for c in ast.walk(ctx.model.module(rel).tree):
            if isinstance(c, ast.Call) and (call_name(c) or "").split(".")[-1] in ("blockwise", "map_blocks", "map_overlap", "elemwise", "core_blockwise"):
                nm = kwarg(c, "name")
                if nm is None:
                    continue
                n_nm += 1
                const_ = isinstance(nm, ast.Constant) and isinstance(nm.value, str)
                ctx.ob("N1.no-constant-name", c, f"{rel}: {call_name(c)}(..., name={unparse(nm)[:50]}) is not a constant", not const_, "" if not const_ else "every result of this routine has the same keys: two of them in one graph overwrite each other (use token= for a name prefix)", nontrivial=False)
    ctx.count("explicit_output_names", n_nm)
    ctx.floor("explicit_output_names", 4)
    # ---------------- masked arrays: the token covers the data UNDER the mask too (getdata / re-masking can expose it)
    nma = ctx.model.module("dask/array/ma.py").func("normalize_masked_array")
    ok = bool(find("data = normalize_token(x.data)", nma)) and bool(find("mask = normalize_token(x.mask)", nma)) and bool(find("fill_value = normalize_token(x.fill_value)", nma)) and any(eqv(r.value, "(data, mask, fill_value)") for r in returns(nma))
    ctx.ob("INJ.masked-array.data", nma, "normalize_masked_array = (token of x.data, token of x.mask, token of x.fill_value)", ok, "" if ok else "hashing x.filled() ignores what lies under the mask: two masked arrays that differ there share a from_array name, and getdata()/a narrower mask returns the other one's values when both are in one graph")
    # ---------------- from_array(name=None | True): the name is the content token (True is not a name)
    faf = ctx.model.module("dask/array/core.py").func("from_array")
    br = [n for n in walk_no_nested(faf) if isinstance(n, ast.If) and eqv(n.test, "name in (None, True)")]
    ok = len(br) == 1 and any(isinstance(s_, ast.Assign) and eqv(s_, "name = f'array-{token}'") for s_ in br[0].body) and not any(isinstance(s_, ast.Assign) and isinstance(s_.value, ast.BoolOp) for s_ in br[0].body)
    ctx.ob("N1.from-array.name-true", faf, "from_array: name in (None, True) -> name = f'array-{token}' (unconditionally)", ok, "" if ok else "`name or ...` keeps the bool True: every such array is called 'True' and shares its keys with all the others")


def key_inputs(ctx, only=None, floor=80, prefix=None):
    """TOKFLOW.key-inputs over every key-forming function (or only the (relpath, qualname) pairs given,
    or only the files under `prefix`)."""
    model = ctx.model
    n_funcs = 0
    for rel in model.package_files("dask"):
        if rel.startswith("dask/dataframe/") or "/tests/" in rel:
            continue
        if prefix is not None and not rel.startswith(prefix):
            continue
        if only is not None and rel not in {r_ for r_, _ in only}:
            continue
        src = model.read(rel)
        if "tokenize" not in src:
            continue
        mod = model.module(rel)
        for qn, f in mod.functions():
            if only is not None and (rel, qn) not in only:
                continue
            r = analyse(f)
            if r is None:
                continue
            tparams, bparams, kc = r
            n_funcs += 1
            if set(param_names(f)) & {"out_name", "outname", "token"}:
                # internal helper that receives its key (or token) from the caller: the caller's naming
                # site is the one analysed
                ctx.ob("TOKFLOW.key-inputs", f, f"{qn}: key/token supplied by the caller", True, nontrivial=False)
                continue
            missing = sorted(p for p in bparams - tparams if _exempt(rel, qn, p) is None)
            ctx.ob(
                "TOKFLOW.key-inputs",
                f,
                f"{qn}: inputs of what is built {sorted(bparams)} reach the key token {sorted(tparams)}",
                not missing,
                "" if not missing else f"parameter(s) {missing} shape the result but not the key: two calls differing only there share task keys",
            )
    ctx.count("key_forming_functions", n_funcs)
    ctx.floor("key_forming_functions", floor, "functions forming a key with tokenize outside dask/dataframe")


def name_overrides(ctx, prefixes=("dask/dataframe/dask_expr/", "dask/array/_array_expr/", "dask/_expr.py"), floor=25):
    """N1: every `_name` override of an expression class carries the deterministic token."""
    model = ctx.model
    n_names = 0
    for rel in model.package_files("dask"):
        if not any(rel.startswith(p_) for p_ in prefixes):
            continue
        mod = model.module(rel)
        for qn, c in mod.classes():
            for st in c.body:
                if isinstance(st, ast.FunctionDef) and st.name == "_name" and any(unparse(d) in ("property", "functools.cached_property", "cached_property") for d in st.decorator_list):
                    n_names += 1
                    rets = [r for r in ast.walk(st) if isinstance(r, ast.Return) and r.value is not None]
                    bad = []
                    for r in rets:
                        v = r.value
                        u = unparse(v) + " " + " ".join(unparse(resolve(x, r, st)) for x in ast.walk(v) if isinstance(x, ast.Name))
                        if any(s in u for s in NAME_SOURCES):
                            continue
                        if Pat("self.operand('name')").match(v) is not None or "self.operand('name')" in u and "deterministic_token" in unparse(st):
                            continue  # explicit user-supplied name
                        bad.append(u[:70])
                    ctx.ob("N1.name-has-token", st, f"{qn}._name carries the deterministic token", not bad and bool(rets), "" if not bad else f"name without a token: {bad}: distinct expressions of this class share keys")
    ctx.count("name_overrides", n_names)
    ctx.floor("name_overrides", floor, "`_name` overrides in expression classes")



OWN_TOKEN_SOURCES = ("self._name", "deterministic_token", "self._token", "tokenize(", "uuid", "always_new_token")


def aux_key_names(ctx, prefixes=("dask/dataframe/dask_expr/", "dask/array/_array_expr/"), floor=18):
    """N1.aux-key: names that a `_layer` method invents for its helper tasks (f-strings) carry the
    expression's own token (self._name / deterministic_token / a fresh tokenize or uuid) -- through local
    definitions if need be.  A helper name built from an *input's* name only is shared by every expression
    over that input: two different operations on the same frame then overwrite each other's helper tasks."""
    model = ctx.model
    n = 0
    for rel in model.package_files("dask"):
        if not any(rel.startswith(p_) for p_ in prefixes):
            continue
        mod = model.module(rel)
        for qn, f in mod.functions():
            if not qn.endswith("._layer"):
                continue
            for st in ast.walk(f):
                if not isinstance(st, ast.JoinedStr):
                    continue
                host = enclosing_stmt(st)
                if isinstance(host, (ast.Raise, ast.Assert)) or any(isinstance(p_, ast.Call) and call_name(p_) in ("ValueError", "RuntimeError", "TypeError", "NotImplementedError", "warnings.warn") for p_ in _parents(st)):
                    continue
                vals = [v.value for v in st.values if isinstance(v, ast.FormattedValue)]
                if not vals:
                    continue
                n += 1

                def tainted(e, at, depth=4):
                    u = unparse(e)
                    if any(s_ in u for s_ in OWN_TOKEN_SOURCES):
                        return True
                    if depth <= 0:
                        return False
                    for nm in [x for x in ast.walk(e) if isinstance(x, ast.Name) and isinstance(x.ctx, ast.Load)]:
                        for _, val, dst in reaching_of(f).reaching(at, nm.id):
                            if isinstance(val, ast.AST) and tainted(val, dst, depth - 1):
                                return True
                    return False
                ok = any(tainted(v, host) for v in vals)
                ctx.ob("N1.aux-key", st, f"{qn}: helper key `{unparse(st)[:60]}` carries the expression's own token", ok, "" if ok else "the helper tasks are named after an input only: another expression over the same input uses the same keys and one of them is overwritten when both are in a graph")
    ctx.count("aux_key_names", n)
    ctx.floor("aux_key_names", floor, "f-string key names in _layer methods")


def _parents(node):
    p = getattr(node, "_parent", None)
    while p is not None and not isinstance(p, ast.stmt):
        yield p
        p = getattr(p, "_parent", None)


_MUTATORS = {"append", "extend", "insert", "pop", "remove", "sort", "reverse", "clear", "update", "add", "discard", "setdefault", "popitem"}


def no_operand_mutation(ctx, prefixes=("dask/dataframe/dask_expr/", "dask/array/_array_expr/", "dask/_expr.py")):
    """EFFECT.no-operand-mutation: expressions are immutable, cached singletons.  A local that is bound
    directly to something reachable from `self` (self.frame.columns, self.operands[1], self.operand("x"))
    is an alias of shared state; mutating it in place changes other expressions that share the operand.
    (No such mutation exists in the expression modules today.)"""
    model = ctx.model
    n = 0
    for rel in model.package_files("dask"):
        if not any(rel.startswith(p_) for p_ in prefixes):
            continue
        mod = model.module(rel)
        for qn, f in mod.functions():
            bound = {}
            for a in ast.walk(f):
                if isinstance(a, ast.Assign) and len(a.targets) == 1 and isinstance(a.targets[0], ast.Name):
                    v = a.value
                    base = v
                    while isinstance(base, (ast.Attribute, ast.Subscript)):
                        base = base.value
                    direct = isinstance(v, (ast.Attribute, ast.Subscript)) and isinstance(base, ast.Name) and base.id == "self"
                    direct = direct or (isinstance(v, ast.Call) and isinstance(v.func, ast.Attribute) and v.func.attr == "operand" and unparse(v.func.value).startswith("self"))
                    bound.setdefault(a.targets[0].id, []).append(direct)
            aliases = {nm for nm, ds in bound.items() if ds and all(ds)}
            n += len(aliases)
            for c in ast.walk(f):
                if isinstance(c, ast.Call) and isinstance(c.func, ast.Attribute) and c.func.attr in _MUTATORS and isinstance(c.func.value, ast.Name) and c.func.value.id in aliases:
                    ctx.ob("EFFECT.no-operand-mutation", c, f"{qn}: `{unparse(c)[:50]}` does not modify shared expression state", False, f"`{c.func.value.id}` is bound directly to state reachable from self and is modified in place: every other expression sharing that operand changes with it")
            for c in ast.walk(f):
                # `alias += [..]` / `alias |= {..}` extend the shared list/set/dict in place; `alias[k] = v` stores into it
                if isinstance(c, ast.AugAssign) and isinstance(c.target, ast.Name) and c.target.id in aliases and isinstance(c.value, (ast.List, ast.ListComp, ast.Set, ast.SetComp, ast.Dict, ast.DictComp)):
                    ctx.ob("EFFECT.no-operand-mutation", c, f"{qn}: `{unparse(c)[:50]}` does not modify shared expression state", False, f"`{c.target.id}` is bound directly to state reachable from self and is extended in place: every other expression sharing that operand changes with it")
                if isinstance(c, (ast.Assign, ast.Delete)):
                    for tg in c.targets:
                        if isinstance(tg, ast.Subscript) and isinstance(tg.value, ast.Name) and tg.value.id in aliases and not tg.value.id.endswith("_cache"):  # memo tables (FromPandas._division_info) are written on purpose
                            ctx.ob("EFFECT.no-operand-mutation", c, f"{qn}: `{unparse(c)[:50]}` does not modify shared expression state", False, f"`{tg.value.id}` is bound directly to state reachable from self and an element of it is replaced/deleted in place")
    ctx.count("self_alias_locals", n)
    ctx.floor("self_alias_locals", 50, "locals bound directly to self.<...> in expression classes")


def fused_name_hash(ctx):
    """INJ.fused-name: over-long fused key names are cut, and a hash of the FULL name is appended -- the
    distinguishing token sits at the end of the name, which is exactly what gets cut off."""
    f = ctx.model.module("dask/optimization.py").func("default_fused_keys_renamer._enforce_max_key_limit")
    hs = find("name_hash = f'{hash(key_name):x}'[:4]", f)
    cut = find("key_name = f'{key_name[:max_fused_key_length]}-{name_hash}'", f)
    rebinds = [a for a in walk_no_nested(f) if isinstance(a, ast.Assign) and eqv(a.targets[0], "key_name")]
    ok = len(hs) == 1 and len(cut) == 1 and len(rebinds) == 1 and dominates(f, hs[0][0], cut[0][0])
    ctx.ob("INJ.fused-name", f, "the 4-hex suffix is the hash of the untruncated name, appended to the truncated name", ok, "" if ok else "the hash is taken after truncation: chains through the same long-named stages get one key and overwrite each other (results of different inputs are swapped)")


def _expr_token(ctx):
    model = ctx.model
    em = model.module("dask/_expr.py")
    ex = model.klass("dask/_expr.py", "Expr")
    dt = ex.own_methods.get("deterministic_token")
    tk = ex.own_methods.get("__dask_tokenize__")
    ok = dt is not None and tk is not None
    if ok:
        # deterministic_token delegates to __dask_tokenize__, which tokenizes the type and every operand
        ok = bool(find("self._determ_token = self.__dask_tokenize__()", dt)) and bool(
            find("self._determ_token = _tokenize_deterministic(type(self), *self.operands)", tk)
        )
        # the cache is only filled from those computations
        for f_ in (dt, tk):
            facts = [inline_facts(f_, n) for n, _ in find("self._determ_token = M_v", f_)]
            ok = ok and all(has_fact(fs, "self._determ_token", False) is not None for fs in facts)
    ctx.ob("TOKFLOW.expr-token", dt or ex.node, "Expr token = tokenize(type(self), *self.operands), cached once", ok)
    nm = ex.own_methods.get("_name")
    ok = nm is not None and "deterministic_token" in unparse(nm)
    ctx.ob("TOKFLOW.expr-name", nm or ex.node, "Expr._name = <funcname>-<deterministic_token>", ok)


VARIANTS = [
    ("dask/array/core.py", "        if where is not True:\n            # ``out`` provides the values wherever the mask is False\n            token_args.append(out)\n", "", "TOKFLOW.key-inputs"),
    ("dask/array/routines.py", "tokenize(reduction, x, axes, trim_excess, kwargs)", "tokenize(reduction, x, axes, trim_excess)", "TOKFLOW.key-inputs"),
    ("dask/array/reshape.py", "tokenize(x, shape, chunks)", "tokenize(x, shape)", "TOKFLOW.key-inputs"),
    ("dask/array/image.py", "filenames, map(os.path.getmtime, filenames), imread, preprocess", "filenames, map(os.path.getmtime, filenames)", "TOKFLOW.key-inputs"),
    ("dask/bag/core.py", 'name = f"filter-{funcname(predicate)}-{tokenize(self, predicate)}"', 'name = f"filter-{funcname(predicate)}-{tokenize(self)}"', "TOKFLOW.key-inputs"),
    ("dask/array/_array_expr/_slicing.py", 'return f"getitem-{self.deterministic_token}"', 'return "getitem-" + str(len(self.operands))', "N1.name-has-token"),
    ("dask/dataframe/dask_expr/io/io.py", 'return f"from_pd_divs-{self.deterministic_token}"', 'return "from_pd_divs"', "N1.name-has-token"),
    ("dask/array/creation.py", '    name = "diag-" + tokenize(v, k)', '    name = "diag-" + tokenize(v)', "TOKFLOW.key-inputs"),
]


def selftest(ctx):
    from ..variants import selftest as st

    return st(ctx, "C13", VARIANTS)
