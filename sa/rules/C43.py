"""C43 -- the DataFrame optimizer preserves results and converges (narrow).

Decided:
 N1.name-has-token     every `_name` override of an expression class carries the deterministic token
                       (distinct expressions never share a key) -- shared with C13
 SIB.rebuild           the generic rewrite / simplify / lower loops rebuild a node with
                       type(expr)(*new_operands) where new_operands is built by appending exactly one
                       entry per operand, in order (arity- and order-preserving), and only rebuild when
                       some operand changed
 MPT.fixpoint          optimize_until applies the stages in the fixed order simplify -> tune -> lower ->
                       fuse, and the loops compare names (`_name`) to detect change
 ARGPOS                expression-constructor sites in dask/_expr.py and the dask_expr files not
                       attributed to another property
Not decided: result preservation by the individual rewrite rules; convergence.
"""
from __future__ import annotations

import ast

from ..lib import *
from . import _tables as T
from . import C13

EXPLANATION = (
    "Structural rules over the generic optimizer loops in dask/_expr.py (operands are rebuilt one-for-one and "
    "in order; change is detected by name; stages run in a fixed order), the name/token taint rule over every "
    "`_name` override, and argument-slot agreement at the remaining expression-constructor sites.  Whether each "
    "rewrite rule preserves results, and convergence, are NOT decided."
)
ASSUMPTIONS = ["_name identifies an expression up to equality of type and operands (C13)"]
CORE = "dask/_expr.py"
ATTRIBUTED = ("_expr.py", "_collection.py", "_reductions.py", "_groupby.py", "_merge.py", "_merge_asof.py", "_concat.py", "_shuffle.py", "_rolling.py", "_cumulative.py")


def _rebuild_sites(f):
    return [n for n in ast.walk(f) if isinstance(n, ast.Call) and unparse(n.func) in ("type(expr)", "type(self)", "type(out)") and len(n.args) == 1 and isinstance(n.args[0], ast.Starred)]


def check(ctx):
    model = ctx.model
    mod = model.module(CORE)
    n_sites = 0
    for qn in ("Expr.rewrite", "Expr.simplify_once", "Expr.lower_once"):
        f = mod.func(qn)
        sites = _rebuild_sites(f)
        if not sites:
            raise AnchorMissing(f"{qn}: rebuild site type(expr)(*new_operands)")
        for c in sites:
            n_sites += 1
            lst = unparse(c.args[0].value)
            inits = find(f"{lst} = []", f, nested=False)
            apps = find(f"{lst}.append(M_x)", f, nested=False)
            loops = [l for a, _ in apps for l in enclosing_loops(a) if isinstance(l, ast.For)]
            over_operands = bool(loops) and all(unparse(l.iter) in ("expr.operands", "self.operands", "out.operands") for l in loops[:1])
            # exactly one append per iteration: the append is control-equivalent to the loop body entry
            one_each = len(apps) == 1 and bool(loops) and enclosing_stmt(apps[0][0])._parent is loops[0]
            ok = len(inits) >= 1 and over_operands and one_each
            ctx.ob("SIB.rebuild.one-for-one", c, f"{qn}: {lst} gets exactly one entry per operand, in operand order", ok, "" if ok else f"inits={len(inits)} appends={len(apps)} over-operands={over_operands} one-per-iteration={one_each}: the rebuilt node has different arity/order")
            # the appended value is the rewritten operand (Expr) or the operand itself
            if apps:
                x = unparse(apps[0][1]["M_x"])
                defs = all_defs(apps[0][1]["M_x"], apps[0][0], f)
                srcs = [unparse(d) for d in defs if d is not None]
                okv = all(("operand" in s) for s in srcs) and bool(srcs)
                ctx.ob("SIB.rebuild.values", apps[0][0], f"{qn}: each entry is the operand or its rewritten form", okv, f"{x} <- {srcs}")
            facts = inline_facts(f, c)
            okc = has_fact(facts, "changed", True) is not None
            ctx.ob("SIB.rebuild.only-when-changed", c, f"{qn}: rebuild only when some operand changed", okc)
    ctx.count("generic_rebuild_sites", n_sites)
    ctx.floor("generic_rebuild_sites", 3)
    # change detection by name
    for qn in ("Expr.rewrite", "Expr.simplify_once"):
        f = mod.func(qn)
        cmp = [n for n in ast.walk(f) if isinstance(n, ast.Compare) and "._name" in unparse(n)]
        ok = len(cmp) >= 2
        ctx.ob("MPT.fixpoint.by-name", f, f"{qn}: change is detected by comparing _name", ok)
    ou = mod.func("optimize_until")
    stages = []
    for n in ast.walk(ou):
        if isinstance(n, ast.Compare) and eqv(n.left, "stage") and isinstance(n.ops[0], ast.Eq):
            stages.append(const(n.comparators[0]))
    callseq = []
    for c in calls(ou):
        if isinstance(c.func, ast.Attribute) and c.func.attr in ("simplify", "lower_completely", "fuse"):
            callseq.append(c.func.attr)
        elif isinstance(c.func, ast.Attribute) and c.func.attr == "rewrite" and const(kwarg(c, "kind")) == "tune":
            callseq.append("tune")
    ok = callseq == ["simplify", "tune", "lower_completely", "simplify", "fuse"]
    ctx.ob("MPT.fixpoint.stage-order", ou, f"optimize_until runs {callseq}", ok, "" if ok else "stages are not applied in the order simplify -> tune -> lower -> simplify -> fuse")
    ctx.ob("MPT.fixpoint.stages", ou, f"early-exit stages {stages}", stages[:3] == ["logical", "simplified-logical", "tuned-logical"] or len(stages) >= 3)
    # N1 (shared with C13)
    before = len(ctx.obligations)
    C13.name_overrides(ctx)
    ctx.count("name_override_obligations", len(ctx.obligations) - before)
    T.argpos(ctx, lambda p: p == CORE or (p.startswith("dask/dataframe/dask_expr/") and p.split("/")[-1] not in ATTRIBUTED), "c43", floor=40)
    from .C13 import aux_key_names

    aux_key_names(ctx)
    # ---------------- filter push-down across stacked filters must stop at reductions -- before AND after lowering
    ex_ = ctx.model.module("dask/dataframe/dask_expr/_expr.py")
    cdp = ex_.func("_check_dependents_are_predicates")
    red = ctx.model.klass("dask/dataframe/dask_expr/_reductions.py", "ApplyConcatApply")
    lowered = {call_name(c) for c in calls(red.own_methods["_lower"], None) if call_name(c) and call_name(c)[:1].isupper() and call_name(c) in ("TreeReduce", "ShuffleReduce")}
    want = {"ApplyConcatApply"} | lowered
    guards = [n for n in ast.walk(cdp) if isinstance(n, ast.Call) and call_name(n) == "isinstance" and eqv(n.args[0], "e") and isinstance(n.args[1], ast.Tuple) and "ApplyConcatApply" in unparse(n.args[1])]
    ok = len(guards) == 1
    got = set()
    if ok:
        got = {unparse(e) for e in guards[0].args[1].elts}
        st_ = enclosing_stmt(guards[0])
        ok = want <= got and isinstance(st_, ast.If) and any(isinstance(b, ast.Return) and const(b.value) is False for b in st_.body) and any(eqv(e_, "allow_reduction") and pol is False for e_, pol in cfg_of(cdp).facts(st_))
    ctx.count("lowered_reduction_classes", len(lowered))
    ctx.floor("lowered_reduction_classes", 2, "classes ApplyConcatApply._lower constructs")
    ctx.ob("TAB.reduction-guard", cdp, f"filters are not merged across a reduction: the guard names ApplyConcatApply and what it lowers to {sorted(lowered)}", ok, "" if ok else f"guard covers {sorted(got)}, missing {sorted(want - got)}: after lowering, a reduction over a filtered frame is no longer recognised and the filter is squashed with an outer one (the reduction then sees unfiltered rows)")
    # ---------------- a scalar selection x['b'] and a list selection x[['b']] are different results
    pcp = ex_.func("plain_column_projection")
    # the comparison that guards `return result` (the rebuilt expression without the outer projection)
    cmps = [st_.test for st_ in walk_no_nested(pcp) if isinstance(st_, ast.If) and isinstance(st_.test, ast.Compare) and "column_union" in unparse(st_.test.left) and any(isinstance(b, ast.Return) and eqv(b.value, "result") for b in st_.body)]
    ok = len(cmps) == 1 and eqv(cmps[0].left, "column_union") and eqv(cmps[0].comparators[0], "parent.operand('columns')") and isinstance(cmps[0].ops[0], ast.Eq)
    ctx.ob("TYPE.projection-dimension", pcp, "the outer Projection is dropped only if column_union equals its RAW columns operand (scalar vs list decides Series vs DataFrame)", ok, "" if ok else f"compares with `{unparse(cmps[0].comparators[0]) if cmps else None}`: the normalised column list cannot tell x['b'] from x[['b']], so the projection that restores the dimension is dropped")
    ok = any(eqv(r.value, "type(parent)(result, parent.operand('columns'))") for r in returns(pcp))
    ctx.ob("TYPE.projection-dimension.rewrap", pcp, "otherwise the parent projection is re-applied with its raw operand", ok)
    from .C13 import no_operand_mutation

    no_operand_mutation(ctx)
    # the OR/AND factoring of stacked filters (shared with C36)
    from .C36 import distributive_rules

    distributive_rules(ctx)
    # ---------------- Assign squash: a key assigned twice keeps its first position (pandas), the later value wins
    rc_ = ctx.model.module("dask/dataframe/dask_expr/_expr.py").func("Assign._remove_common_columns")
    br = [n for n in walk_no_nested(rc_) if isinstance(n, ast.If) and eqv(n.test, "set(self.keys) & set(other.keys)")]
    ok = len(br) == 1 and bool(find("operands = [[k, new.pop(k, v)] for (k, v) in zip(other.keys, other.vals)]", br[0])) and bool(find("new = dict(zip(self.keys, self.vals))", br[0])) and bool(find("operands.extend(([k, v] for (k, v) in new.items()))", br[0])) and any(eqv(r.value, "[other.frame] + list(flatten(operands))") for r in returns(br[0]))
    ctx.ob("ALG.assign-squash.order", rc_, "overlapping keys: other's keys stay in place with the later value substituted, remaining new keys are appended", ok, "" if ok else "the repeated key moves to the end: computed column order differs from the metadata and from pandas")
    # ---------------- Fused broadcasts EVERY single-partition dependency (the ndim rule of Blockwise is for unfused expressions)
    fcl = ex_.cls("Fused") if "ex_" in dir() else ctx.model.module("dask/dataframe/dask_expr/_expr.py").cls("Fused")
    bd = [m_ for m_ in fcl.body if isinstance(m_, ast.FunctionDef) and m_.name == "_broadcast_dep"]
    ok = len(bd) == 1 and (all(eqv(r.value, "dep.npartitions == 1") for r in returns(bd[0])) and bool(returns(bd[0])))
    ctx.ob("ALG.fused.broadcast-dep", bd[0] if bd else fcl, "Fused._broadcast_dep(dep) = dep.npartitions == 1", ok, "" if ok else "with the inherited rule a single-partition member whose ndim is not below the group's top expression gets key (name, i) instead of (name, 0): the fused graph cannot be computed")
    # ---------------- dropna() without subset looks at ALL columns: a projection may not pass below it
    dsu = (ex_ if "ex_" in dir() else ctx.model.module("dask/dataframe/dask_expr/_expr.py")).func("DropnaFrame._simplify_up")
    pj = [n for n in walk_no_nested(dsu) if isinstance(n, ast.If) and "isinstance(parent, Projection)" in unparse(n.test)]
    ok = len(pj) == 1 and eqv(pj[0].test, "isinstance(parent, Projection) and self.subset is not None")
    ctx.ob("DOM.dropna.projection-needs-subset", dsu, "DropnaFrame lets a Projection pass only when subset is given (the subset columns are then kept as additional columns)", ok, "" if ok else "dropna() without subset depends on every column: projecting first drops different rows than pandas")
    # ---------------- rewrites in _simplify_up replace `self` in the parent by substitution, never by position
    fsu = (ex_ if "ex_" in dir() else ctx.model.module("dask/dataframe/dask_expr/_expr.py")).func("Filter._simplify_up")
    orb = [n for n in walk_no_nested(fsu) if isinstance(n, ast.If) and eqv(n.test, "isinstance(self.predicate, Or)")]
    ok = len(orb) == 1 and any(eqv(r.value, "parent.substitute(self, type(self)(self.frame, result))") for r in returns(orb[0])) and not any("parent.operands[1:]" in unparse(r.value) for r in returns(orb[0]))
    ctx.ob("ARGPOS.simplify-up.substitute", fsu, "the Or-rewrite returns parent.substitute(self, <rewritten filter>) (the parent type is not known there)", ok, "" if ok else "rebuilding as type(parent)(new, *parent.operands[1:]) puts the filter into operand 0 of ANY parent: d.b - flt becomes flt' - flt")
    # ---------------- generic: `type(parent)(X, *parent.operands[1:])` presumes that self is operand 0 of the parent;
    # that is only known under a type test of the parent
    n_rb = 0
    for rel in ctx.model.package_files("dask"):
        if not rel.startswith("dask/dataframe/dask_expr/") or "/tests/" in rel:
            continue
        for qn, f_ in ctx.model.module(rel).functions():
            if not qn.endswith("_simplify_up"):
                continue
            for c in ast.walk(f_):
                if isinstance(c, ast.Call) and unparse(c.func) == "type(parent)" and any(isinstance(a, ast.Starred) and unparse(a.value) == "parent.operands[1:]" for a in c.args):
                    n_rb += 1
                    guarded = any(pol and "isinstance(parent" in unparse(e) for e, pol in cfg_of(f_).facts(c))
                    ctx.ob("ARGPOS.simplify-up.guarded", c, f"{qn}: positional rebuild of the parent happens under isinstance(parent, ...)", guarded, "" if guarded else "for an arbitrary parent self need not be its first operand: the parent's real first operand is overwritten", nontrivial=not guarded)
    ctx.count("positional_parent_rebuilds", n_rb)
    ctx.floor("positional_parent_rebuilds", 12)
    # ---------------- squashing two filters needs a ROW-WISE outer predicate: reductions and neighbour-dependent operations block it
    cdp = (ex_ if "ex_" in dir() else ctx.model.module("dask/dataframe/dask_expr/_expr.py")).func("_check_dependents_are_predicates")
    nb = [n for n in ast.walk(cdp) if isinstance(n, ast.If) and eqv(n.test, "_depends_on_other_rows(e)")]
    ok = len(nb) == 1 and any(isinstance(s_, ast.Return) and eqv(s_.value, "False") for s_ in nb[0].body) and any(eqv(e_, "allow_reduction") and pol is False for e_, pol in cfg_of(cdp).facts(nb[0]))
    ctx.ob("DOM.filter-squash.row-wise", cdp, "with allow_reduction=False the walk over the predicate returns False at any expression that depends on other rows", ok, "" if ok else "x = df[p0]; x[x.b.cumsum() > k] is merged into df[p0 & (df.b.cumsum() > k)]: the cumulative/neighbour operation is evaluated on the unfiltered frame")
    dor = (ex_ if "ex_" in dir() else ctx.model.module("dask/dataframe/dask_expr/_expr.py")).func("_depends_on_other_rows")
    listed = {n.id for r in returns(dor) for n in ast.walk(r.value) if isinstance(n, ast.Name)}
    need = {"MapOverlap", "MapOverlapAlign", "CreateOverlappingPartitions", "CumulativeAggregations", "CumulativeBlockwise", "CumulativeFinalize", "RollingReduction", "RollingAggregation"}
    ctx.ob("TAB.neighbour-dependent.classes", dor, f"_depends_on_other_rows covers the abstract and the lowered forms {sorted(need)}", need <= listed, "" if need <= listed else f"missing: {sorted(need - listed)} -- after lowering the merge happens anyway")
    # ---------------- value-preserving casts (filters may pass below them): only TO a float at least as wide
    cpv = (ex_ if "ex_" in dir() else ctx.model.module("dask/dataframe/dask_expr/_expr.py")).func("AsType._cast_preserves_values")
    txt_ = unparse(cpv)
    ok = "a.kind in 'biuf'" in txt_ and "b.kind == 'f'" in txt_ and "b.itemsize >= a.itemsize" in txt_
    ctx.ob("TAB.astype.value-preserving", cpv, "a cast preserves comparisons iff source kind in biuf, target kind == 'f', target at least as wide", ok, "" if ok else "float -> int truncates: a filter evaluated below the cast sees the un-truncated values and keeps different rows")


VARIANTS = [
    ("dask/dataframe/dask_expr/_expr.py", "            if isinstance(e, (ApplyConcatApply, TreeReduce, ShuffleReduce)):", "            if isinstance(e, (ApplyConcatApply, ShuffleReduce)):", "TAB.reduction-guard"),
    ("dask/dataframe/dask_expr/_expr.py", '    if column_union == parent.operand("columns"):', '    if _convert_to_list(column_union) == parent.columns:', "TYPE.projection-dimension"),
    ("dask/dataframe/dask_expr/_expr.py", '        name_prepend = f"overlap-prepend-{self._name}"', '        name_prepend = f"overlap-prepend-{self.frame._name}"', "N1.aux-key"),
    (CORE, "                new_operands.append(new)\n\n            if changed:\n                expr = type(expr)(*new_operands)\n                continue\n            else:\n                break", "                if changed:\n                    new_operands.append(new)\n\n            if changed:\n                expr = type(expr)(*new_operands)\n                continue\n            else:\n                break", "SIB.rebuild.one-for-one"),
    (CORE, "            for operand in expr.operands:\n                if isinstance(operand, Expr):\n                    new = operand.rewrite(kind=kind, rewritten=rewritten)", "            for operand in reversed(expr.operands):\n                if isinstance(operand, Expr):\n                    new = operand.rewrite(kind=kind, rewritten=rewritten)", "SIB.rebuild.one-for-one"),
    (CORE, "    expr = expr.lower_completely()\n    if stage == \"physical\":", "    expr = expr.fuse()\n    if stage == \"physical\":", "MPT.fixpoint.stage-order"),
]


def selftest(ctx):
    from ..variants import selftest as st

    return st(ctx, "C43", VARIANTS)
