"""C49 -- bag sampling returns valid samples reproducibly (partial).

Decided:
 ABS.k-zero        in dask/bag/random.py every division by the sample size k, and every min()/max()
                   over a list of k elements, is dominated by a guard that excludes k == 0; a negative
                   k is rejected before any graph is built
 EFFECT.seeded     random_sample with a random_state draws only from a generator that is seeded from a
                   parameter before its first draw (constructed from it, or setstate(<parameter>) first);
                   the per-partition states are derived from the user's random_state and the key
                   tokenizes that state
 DELEG.sample      sample/choices reduce with replace=False/True respectively and finalise with the same k
Not decided: the sub-multiset property of the drawn sample.
"""
from __future__ import annotations

import ast

from ..lib import *

EXPLANATION = (
    "Zero/sign facts established by dominating guards (abstract interpretation of the sample size k at every "
    "division and every min/max over a k-sized list) in dask/bag/random.py, and a typestate rule for the "
    "random generators used by Bag.random_sample (seeded-before-first-draw).  Whether the draw is a valid "
    "sub-multiset is NOT decided."
)
ASSUMPTIONS = ["per-partition functions passed to Bag.reduction never see an empty partition (empty_safe_apply)"]
RND = "dask/bag/random.py"
BAG = "dask/bag/core.py"


def _k_nonzero(func, node, k="k"):
    facts = inline_facts(func, node)
    return (
        has_fact(facts, f"{k} == 0", False) is not None
        or has_fact(facts, f"{k} > 0", True) is not None
        or has_fact(facts, f"{k} >= 1", True) is not None
        or has_fact(facts, f"{k}", True) is not None
        or _early_exit_on_zero(func, node, k)
    )


def _early_exit_on_zero(func, node, k):
    """`if k == 0: return ...` (or raise) earlier in the function dominates node."""
    g = cfg_of(func)
    for n in walk_no_nested(func):
        if isinstance(n, ast.If) and unparse(n.test) in (f"{k} == 0", f"not {k}", f"{k} <= 0", f"{k} < 1"):
            if n.body and isinstance(n.body[-1], (ast.Return, ast.Raise)) and not n.orelse:
                try:
                    if g.dominates(g.node_of(n), g.node_of(node)) and not in_subtree(node, n):
                        return True
                except AnalysisError:
                    pass
    return False


def check(ctx):
    model = ctx.model
    mod = model.module(RND)
    n_div = n_ext = 0
    for qn, f in mod.functions():
        params = [a.arg for a in f.args.args + f.args.kwonlyargs]
        if "k" not in params:
            continue
        for n in walk_no_nested(f):
            if isinstance(n, ast.BinOp) and isinstance(n.op, (ast.Div, ast.FloorDiv, ast.Mod)) and eqv(n.right, "k"):
                n_div += 1
                ok = _k_nonzero(f, n)
                ctx.ob("ABS.k-zero.division", n, f"{qn}: {unparse(n)[:50]} with k != 0", ok, "" if ok else "k == 0 reaches a division by k (ZeroDivisionError for an empty sample request)")
            if isinstance(n, ast.Call) and call_name(n) in ("min", "max") and len(n.args) == 1 and isinstance(n.args[0], ast.Name):
                src = resolve(n.args[0], n, f)
                sized_by_k = isinstance(src, ast.ListComp) and any(Pat("range(k)").match(g_.iter) is not None for g_ in src.generators)
                if not sized_by_k and isinstance(src, ast.ListComp):
                    # a list derived elementwise from a k-sized list
                    it = src.generators[0].iter
                    if isinstance(it, ast.Name):
                        s2 = resolve(it, n, f)
                        sized_by_k = isinstance(s2, ast.ListComp) and any(Pat("range(k)").match(g_.iter) is not None for g_ in s2.generators)
                if sized_by_k:
                    n_ext += 1
                    ok = _k_nonzero(f, n)
                    ctx.ob("ABS.k-zero.extremum", n, f"{qn}: {unparse(n)} over a list of k elements, k != 0", ok, "" if ok else "k == 0 reaches min()/max() of an empty list (ValueError)")
    ctx.count("divisions_by_k", n_div)
    ctx.count("extrema_over_k_lists", n_ext)
    ctx.floor("divisions_by_k", 2)
    ctx.floor("extrema_over_k_lists", 1)
    sm = mod.func("_sample")
    ok = any(isinstance(n, ast.Raise) and has_fact(inline_facts(sm, n), "k < 0", True) is not None for n in ast.walk(sm))
    g = cfg_of(sm)
    rais = [n for n in ast.walk(sm) if isinstance(n, ast.If) and eqv(n.test, "k < 0")]
    ok = ok and bool(rais) and all(g.dominates(g.node_of(rais[0]), g.node_of(c)) for c in calls(sm, "reduction"))
    ctx.ob("ABS.k-negative", sm, "_sample rejects k < 0 before building the reduction", ok)
    sr = mod.func("_sample_reduce")
    divs = [n for n in ast.walk(sr) if isinstance(n, ast.BinOp) and isinstance(n.op, ast.Div)]
    for n in divs:
        facts = inline_facts(sr, n)
        ok = has_fact(facts, "k_i > 0", True) is not None
        ctx.ob("ABS.reduce-weights", n, f"_sample_reduce: {unparse(n)} only for partitions that contributed (k_i > 0)", ok)
    early = [r for r in returns(sr) if eqv(r.value, "(s, n)")]
    ok = bool(early) and any("k > n and (not replace)" in unparse(e) or "k > n and not replace" in unparse(e) for r in early for e, p in inline_facts(sr, r) if p)
    ctx.ob("DELEG.sample.all-when-short", sr, "without replacement and k > n: everything seen so far is kept", ok)
    for fn, inner, rep in (("sample", "_sample", False), ("choices", "_sample_with_replacement", True)):
        f = mod.func(fn)
        ok = bool(find(f"res = {inner}(population=population, k=k, split_every=split_every)", f)) and (all(Pat("res.map_partitions(_finalize_sample, k)").match(r.value) is not None for r in returns(f)) and bool(returns(f)))
        ctx.ob("DELEG.sample.entry", f, f"{fn}: {inner}(population, k, split_every) then _finalize_sample with the same k", ok)
        g_ = mod.func(inner)
        cs = [c for c in calls(g_, "reduction")]
        ok = len(cs) == 1 and f"replace={rep}" in unparse(cs[0].args[1]) and "k=k" in unparse(cs[0].args[0]) and "k=k" in unparse(cs[0].args[1])
        ctx.ob("DELEG.sample.replace-flag", g_, f"{inner}: reduce with replace={rep}, same k per partition and in the reduce", ok)
    # ---------------- seeded generators
    bm = model.module(BAG)
    rs = bm.func("random_sample")
    ctor = find("random_state = Random()", rs, nested=False)
    sets = find("random_state.setstate(state_data)", rs, nested=False)
    draws = [c for c in calls(rs, None, nested=False) if isinstance(c.func, ast.Attribute) and eqv(c.func.value, "random_state") and c.func.attr in ("random", "randint", "choice", "uniform", "sample", "shuffle", "getrandbits")]
    ctx.count("random_sample_draws", len(draws))
    if ctor:
        ctx.floor("random_sample_draws", 1)
    ok = bool(sets) and all(dominates(rs, sets[0][0], d) for d in draws) and reaching_of(rs).is_param(sets[0][0], "state_data")
    ctx.ob("EFFECT.seeded.before-first-draw", rs, "random_state.setstate(<parameter state_data>) dominates every draw", ok, "" if ok else "a draw can happen from an unseeded generator: the sample differs between recomputations")
    amb = [c for c in calls(rs, None, nested=False) if call_name(c) and call_name(c).split(".")[0] in ("random", "rnd", "np") and c not in draws and call_name(c) not in ("random_state.setstate",)]
    ctx.ob("EFFECT.seeded.no-ambient", rs, "no module-level random source in the per-partition function", not amb, f"{[unparse(a) for a in amb]}")
    meth = bm.func("Bag.random_sample")
    ok = bool(find("random_state = Random(random_state)", meth)) and bool(find("state_data = random_state_data_python(self.npartitions, random_state)", meth))
    ctx.ob("EFFECT.seeded.derived-states", meth, "per-partition states derive from the user's random_state", ok)
    ok = bool(find("name = f'random-sample-{tokenize(self, prob, random_state.getstate())}'", meth))
    ctx.ob("EFFECT.seeded.key", meth, "the key tokenizes the generator state", ok)
    dc = [n for n in ast.walk(meth) if isinstance(n, ast.DictComp)]
    ok = len(dc) == 1 and Pat("{(name, i): (reify, (random_sample, (self.name, i), state, prob)) for i, state in zip(range(self.npartitions), state_data)}").match(dc[0]) is not None
    ctx.ob("EFFECT.seeded.one-state-per-partition", meth, "partition i gets state i", ok)
    rsd = bm.func("random_state_data_python")
    ok = not [c for c in calls(rsd) if call_name(c) in ("np.random.default_rng", "Random", "random.Random") and not c.args]
    ctx.ob("EFFECT.seeded.state-source", rsd, "state generators are always constructed from random_state", ok)
    # ---------------- the sampling steps never hand out or mutate the bag's own partition lists
    rnd = model.module(RND)
    smp = rnd.func("_sample_map_partitions")
    swr = rnd.func("_sample_with_replacement_map_partitions")
    for f_ in (smp, swr):
        pname = f_.args.args[0].arg
        leaks = [r for r in returns(f_) if r.value is not None and any(isinstance(e, ast.Name) and e.id == pname for e in (r.value.elts if isinstance(r.value, ast.Tuple) else [r.value]))]
        ctx.ob("EFFECT.no-alias.map", f_, f"{f_.name} returns a reservoir it built, never the partition `{pname}` itself", not leaks, "" if not leaks else "the partition list itself is returned: the reduce step extends it in place and the bag's data grows")
    sr_ = rnd.func("_sample_reduce")
    acc = [a for a in walk_no_nested(sr_) if isinstance(a, ast.Assign) and eqv(a.targets[0], "s")]
    loopvars = {x.id for l in walk_no_nested(sr_) if isinstance(l, ast.For) for x in ast.walk(l.target) if isinstance(x, ast.Name)} | {t.id for a in walk_no_nested(sr_) if isinstance(a, ast.Assign) for t_ in a.targets for t in ast.walk(t_) if isinstance(t, ast.Name) and any(isinstance(v, ast.Name) and v.id == "i" for v in ast.walk(a.value))}
    bad = [a for a in acc if isinstance(a.value, ast.Name) and a.value.id in loopvars]
    ok = bool(acc) and not bad and any(isinstance(a.value, ast.List) and not a.value.elts for a in acc)
    ctx.ob("EFFECT.no-alias.reduce", sr_, "_sample_reduce accumulates into its own fresh list (s = []), never into one of the incoming reservoirs", ok, "" if ok else f"`{unparse(bad[0]) if bad else 's'}` aliases an incoming reservoir, which is then extended in place")
    # ---------------- the per-partition generator of random_sample is private to the call
    rsf = ctx.model.module(BAG).func("random_sample")
    ctor = [a for a in walk_no_nested(rsf) if isinstance(a, ast.Assign) and isinstance(a.value, ast.Call) and call_name(a.value) == "Random" and not a.value.args]
    draws = [c for c in calls(rsf, "random") if isinstance(c.func, ast.Attribute)]
    ok = len(ctor) == 1 and bool(draws) and all(unparse(c.func.value) == unparse(ctor[0].targets[0]) for c in draws) and bool(find(f"{unparse(ctor[0].targets[0])}.setstate(state_data)", rsf)) if ctor else False
    ctx.ob("EFFECT.seeded.private-generator", rsf, "random_sample creates its own Random() per call, seeds it with state_data and draws only from it", ok, "" if ok else "a generator shared between calls is re-seeded and drawn from: lazily chained or zipped seeded samples clobber each other's stream")
    # ---------------- weighted sampling without replacement works on POSITIONS, not values
    ws = rnd.func("_weighted_sampling_without_replacement")
    ok = bool(find("elt = [(math.log(rnd.random()) / weights[i], i) for i in range(len(weights))]", ws)) and any(eqv(r.value, "[population[x[1]] for x in heapq.nlargest(k, elt)]") for r in returns(ws))
    ctx.ob("ALG.sample.by-position", ws, "keys are computed per position i and the k largest positions are returned", ok, "" if ok else "sampling by value merges duplicate elements (and needs hashable elements): fewer candidates than the population holds")
    # ---------------- per-partition sampling treats its input as a one-shot ITERATOR (partitions after map/filter are iterators)
    swr = rnd.func("_sample_with_replacement_map_partitions")
    lens = [c for c in calls(swr, "len") if c.args and eqv(c.args[0], "population")]
    st = find("stream = iter(population)", swr)
    k0 = [n for n in walk_no_nested(swr) if isinstance(n, ast.If) and eqv(n.test, "k == 0")]
    ok = not lens and len(st) == 1 and len(k0) == 1 and dominates(swr, st[0][0], k0[0]) and any(eqv(r.value, "([], sum((1 for _ in stream)))") for r in returns(k0[0]))
    ctx.ob("TYPE.sample-partition.iterator", swr, "the population is only iterated (stream = iter(population)); k == 0 counts it with sum(1 for _ in stream), never len()", ok, "" if ok else "len() of an iterator partition raises TypeError: choices(b, 0) fails after filter/map/random_sample")


VARIANTS = [
    (RND, "        s.extend(s_i)\n", "        if s:\n            s.extend(s_i)\n        else:\n            s = s_i\n", "EFFECT.no-alias.reduce"),
    (RND, "    if k == 0:\n        # Nothing to sample; only the length of the stream is needed\n        return reservoir, sum(1 for _ in stream)\n", "", "ABS.k-zero.division"),
    (RND, "    if k == 0:\n        # Nothing to sample; only the length of the stream is needed\n        return [], sum(1 for _ in stream)\n", "", "ABS.k-zero.extremum"),
    (RND, "    if k < 0:\n        raise ValueError(\"Cannot take a negative number of samples\")\n", "", "ABS.k-negative"),
    (RND, "        partial(_sample_reduce, k=k, replace=True),", "        partial(_sample_reduce, k=k, replace=False),", "DELEG.sample.replace-flag"),
    (BAG, "    random_state = Random()\n    random_state.setstate(state_data)\n    for i in x:", "    random_state = Random()\n    for i in x:", "EFFECT.seeded.before-first-draw"),
    (BAG, "        state_data = random_state_data_python(self.npartitions, random_state)", "        state_data = random_state_data_python(self.npartitions, None)", "EFFECT.seeded.derived-states"),
    (RND, "        if k_i > 0:\n            p_i = n_i / (k_i * n)", "        if True:\n            p_i = n_i / (k_i * n)", "ABS.reduce-weights"),
]


def selftest(ctx):
    from ..variants import selftest as st

    return st(ctx, "C49", VARIANTS)
