"""C01 -- local schedulers compute exactly the values the task graph denotes.

Decided (structural, necessary conditions only):
 DELEG.*     every scheduler entry point forwards the user's keys unmodified to get_async's
             `result` and hands the same keys to cull/fuse
 MPT.return  the only normal return of get_async is nested_get(result, state["cache"]);
             nested_get / core._pack_result mirror the nesting of the request
 PAIR.*      the task submitted for a key is dsk[key] with data {dep: cache[dep] for dep in
             dependencies[key]}; the result is stored under the key it came back with, before
             finish_task for that same key; execute_task returns the key it was given
 OWN.*       scheduler state is only written in dask/local.py
 ABS.*       dispatch batch size is >= 1 for every admissible chunksize
"""
from __future__ import annotations

import ast

from ..lib import *
from . import _sched, C02

EXPLANATION = (
    "Who-may-write, delegation and pairing rules over dask/local.py, threaded.py, multiprocessing.py "
    "and core.py: keys flow unmodified into get_async and the optimisers, the return mirrors the "
    "request's nesting, each submitted task is dsk[key] with exactly its dependencies' cached values, "
    "results are stored under the key they belong to before dependents are released, and the batch width "
    "is positive for every admissible chunksize.  Value equality over all DAGs and interleavings is NOT decided."
)
ASSUMPTIONS = ["cull/fuse protect requested keys (C09)", "executors run submitted callables exactly once"]

LOCAL = "dask/local.py"


def check(ctx):
    model = ctx.model
    mod = model.module(LOCAL)
    ga = mod.func("get_async")
    _entrypoints(ctx, model, ga)
    _return_shape(ctx, model, mod, ga)
    _task_and_data(ctx, mod, ga)
    _sched.ownership(ctx)
    C02._batch(ctx, mod)
    # multiprocessing.get culls/fuses the *legacy* graph: the dependency extractor it relies on must
    # see every nested key the converter will later evaluate (shared with C08)
    from . import C08

    C08.extractor_kinds(ctx, model.module("dask/core.py").func("keys_in_tasks"))
    C08.converter_only_kinds(ctx, model)
    # ---------------- nested_get mirrors the request level by level (no look-ahead on the first element)
    ng = mod.func("nested_get")
    rs = returns(ng)
    ok = len(rs) == 2 and {unparse(r.value) for r in rs} == {"tuple((nested_get(i, coll) for i in ind))", "coll[ind]"}
    ctx.ob("SIB.nested-get.shape", ng, "nested_get: list -> tuple of nested_get of every element; anything else -> lookup", ok, "" if ok else "a shortcut decides from the first element only: requests that mix keys and sub-lists at one level fail or lose their nesting")
    # ---------------- a requested key that is released early (C03) makes the schedulers disagree (KeyError vs value)
    from .C03 import check as _c03_check
    from .C08 import converter_unhashable

    _c03_check(ctx)
    converter_unhashable(ctx)
    # ---------------- round 4b (C01-m7): Alias(key, target) defaults the target by identity, not truthiness
    from ..lib import find as _f4, eqv as _e4
    ts4 = ctx.model.module("dask/_task_spec.py")
    ai4 = ctx.model.klass("dask/_task_spec.py", "Alias").own_methods["__init__"]
    ifs4 = [n for n in ast.walk(ai4) if isinstance(n, ast.If) and any(isinstance(s_, ast.Assign) and _e4(s_.value, "key") and _e4(s_.targets[0], "target") for s_ in n.body)]
    ok = len(ifs4) == 1 and _e4(ifs4[0].test, "target is None")
    ctx.ob("DOM.alias.default-target.is-none", ifs4[0] if ifs4 else ai4, "Alias.__init__ replaces the target by the key only when `target is None`", ok, "" if ok else "a truthiness test also replaces the legal keys 0, '', () and 0.0: Alias('a', 0) becomes a self-alias, is dropped from the graph and every scheduler fails to find 'a'")


def _get_async_calls(func):
    return [c for c in calls(func) if call_name(c) == "get_async"]


def _entrypoints(ctx, model, ga):
    entries = [
        ("dask/threaded.py", "get", "keys"),
        ("dask/multiprocessing.py", "get", "keys"),
        (LOCAL, "get_sync", "keys"),
    ]
    n = 0
    for rel, fn, kp in entries:
        m = model.module(rel)
        f = m.func(fn)
        cs = _get_async_calls(f)
        if not cs:
            ctx.ob("DELEG.entry", f, f"{fn} -> get_async", False, "entry point no longer reaches get_async")
            continue
        for c in cs:
            n += 1
            b = bind_call(c, ga)
            r = b.get("result")
            ok = r is not None and is_unmodified_param(f, c, r, kp)
            ctx.ob(
                "DELEG.keys-to-result",
                c,
                f"get_async(..., result={kp})",
                ok,
                "" if ok else f"get_async receives result={unparse(r)}, not the caller's unmodified keys",
            )
            d = b.get("dsk")
            # graph provenance: dsk param itself, or the output of cull/fuse chains over it
            ok, how = _graph_from_param(f, c, d, "dsk", kp)
            ctx.ob("DELEG.graph", c, "get_async(dsk=<the caller's graph, possibly culled/fused with the same keys>)", ok, how)
            # results are returned
            st = enclosing_stmt(c)
            ret_ok = isinstance(st, ast.Return) or (
                isinstance(st, ast.Assign)
                and len(st.targets) == 1
                and isinstance(st.targets[0], ast.Name)
                and any(
                    isinstance(rt.value, ast.Name)
                    and rt.value.id == st.targets[0].id
                    and [x[2] for x in reaching_of(f).reaching(rt, rt.value.id)] == [st]
                    for rt in returns(f)
                )
            )
            ctx.ob("DELEG.returns-result", c, "return <get_async(...)>", ret_ok, "" if ret_ok else "the scheduler result is not what the entry point returns")
    # get_apply_async forwards everything
    m = model.module(LOCAL)
    f = m.func("get_apply_async")
    for c in _get_async_calls(f):
        n += 1
        ok = any(isinstance(a, ast.Starred) and eqv(a.value, "args") for a in c.args) and any(
            k.arg is None and eqv(k.value, "kwargs") for k in c.keywords
        )
        ctx.ob("DELEG.keys-to-result", c, "get_apply_async forwards *args, **kwargs", ok)
    ctx.count("get_async_call_sites", n)
    ctx.floor("get_async_call_sites", 4)


def _graph_from_param(f, at, expr, gparam, kparam, depth=0):
    """expr derives from the graph parameter through identity-preserving steps."""
    if expr is None:
        return False, "no graph argument"
    if depth > 6:
        return False, "provenance too deep"
    if isinstance(expr, ast.Name):
        defs = reaching_of(f).reaching(at, expr.id)
        if not defs:
            return False, f"{expr.id} undefined"
        hows = []
        for name, val, st in defs:
            if val == "param":
                if name != gparam:
                    return False, f"graph argument is parameter {name}"
                hows.append("param")
                continue
            if isinstance(st, ast.Assign) and val is None:
                # tuple unpacking:  dsk2, dependencies = cull(dsk, keys)
                call = st.value
                tgt = st.targets[0]
                if isinstance(call, ast.Call) and call_name(call) in ("cull", "fuse") and isinstance(tgt, ast.Tuple) and unparse(tgt.elts[0]) == name:
                    karg = call.args[1] if len(call.args) > 1 else kwarg(call, "keys")
                    if not (karg is not None and is_unmodified_param(f, st, karg, kparam)):
                        return False, f"{call_name(call)} is called with keys={unparse(karg)} instead of the requested keys"
                    ok, how = _graph_from_param(f, st, call.args[0], gparam, kparam, depth + 1)
                    if not ok:
                        return ok, how
                    hows.append(call_name(call))
                    continue
                return False, f"unrecognised definition of {name}: {unparse(st)[:60]}"
            if isinstance(val, ast.AST):
                v = val
                # identity-preserving wrappers
                while isinstance(v, ast.Call) and (call_name(v) in ("ensure_dict", "dict", "convert_legacy_graph") or (isinstance(v.func, ast.Attribute) and v.func.attr == "__dask_graph__")):
                    v = v.args[0] if v.args else v.func.value
                ok, how = _graph_from_param(f, st, v, gparam, kparam, depth + 1)
                if not ok:
                    return ok, how
                hows.append(how)
                continue
            return False, f"unrecognised definition of {name}"
        return True, "graph provenance: " + ",".join(sorted(set(hows)))
    return False, f"graph argument is {unparse(expr)[:60]}"


def _return_shape(ctx, model, mod, ga):
    rets = returns(ga)
    ok = len(rets) == 1 and Pat("nested_get(result, M_s['cache'])").match(rets[0].value) is not None
    ok = ok and reaching_of(ga).is_param(rets[0], "result")
    ctx.ob(
        "MPT.return",
        rets[0] if rets else ga,
        "return nested_get(result, state['cache'])",
        ok,
        "" if ok else "get_async does not return the requested keys looked up in the cache (or `result` was rebound)",
    )
    # results set used to protect requested keys derives from `result`
    for n, b in find("results = M_v", ga, nested=False):
        v = b["M_v"]
        ok = derives_from(ga, n, v, "result")
        ctx.ob("MPT.results-from-request", n, "results = set(<flattened result>)", ok, "" if ok else f"results = {unparse(v)[:60]}")
    for rel, fn, idx_param, coll_param in ((LOCAL, "nested_get", "ind", "coll"), ("dask/core.py", "_pack_result", "keys", "result")):
        f = model.module(rel).func(fn)
        rs = returns(f)
        rec = leaf = False
        for r in rs:
            facts = inline_facts(f, r)
            is_list = has_fact(facts, f"isinstance({idx_param}, list)", True) is not None
            not_list = has_fact(facts, f"isinstance({idx_param}, list)", False) is not None
            v = r.value
            if is_list and isinstance(v, ast.Call) and call_name(v) == "tuple" and len(v.args) == 1 and isinstance(v.args[0], ast.GeneratorExp):
                g = v.args[0]
                gen = g.generators[0]
                inner = g.elt
                if (
                    len(g.generators) == 1
                    and not gen.ifs
                    and unparse(gen.iter) == idx_param
                    and isinstance(inner, ast.Call)
                    and call_name(inner) == fn
                    and any(same(a, gen.target) for a in inner.args)
                    and any(unparse(a) == coll_param for a in inner.args)
                ):
                    rec = True
            if (not_list or (not is_list and len(rs) == 2)) and Pat(f"{coll_param}[{idx_param}]").match(v) is not None:
                leaf = True
        ctx.ob(
            "SIB.nesting",
            f,
            f"{fn}: list -> tuple of recursive calls, leaf -> lookup",
            rec and leaf,
            "" if rec and leaf else f"recursive-case={rec} leaf-case={leaf}",
        )


def _task_and_data(ctx, mod, ga):
    ft = mod.func("get_async.fire_tasks")
    # submission tuple
    n_sub = 0
    for a, ab in find("M_args.append(M_t)", ft, nested=False):
        t = ab["M_t"]
        if not (isinstance(t, ast.Tuple) and len(t.elts) >= 2):
            continue
        n_sub += 1
        k = t.elts[0]
        payload = inline(t.elts[1], a, ft)
        m = Pat("dumps((M_task, M_data))").match(payload)
        ok_task = m is not None and Pat("dsk[M_k]").match(m["M_task"], {"M_k": k}) is not None
        ctx.ob("PAIR.submit.task-of-key", a, "payload task is dsk[key]", ok_task, "" if ok_task else f"payload is {unparse(payload)[:80]}")
        ok_data = False
        detail = ""
        if m is None:
            m = Pat("dumps((M_task, M_data))").match(resolve(t.elts[1], a, ft))
            if m is not None:
                mt = inline(m["M_task"], a, ft)
                ok_task = Pat("dsk[M_k]").match(mt, {"M_k": k}) is not None
        data = resolve(m["M_data"], a, ft) if m is not None else None
        if data is not None and isinstance(data, ast.DictComp):
            dc = data
            g = dc.generators[0]
            ok_iter = Pat("M_s['dependencies'][M_k]").match(g.iter, {"M_k": k}) is not None
            ok_val = Pat("M_s['cache'][M_d]").match(dc.value, {"M_d": dc.key}) is not None and same(dc.key, g.target)
            ok_data = ok_iter and ok_val and len(dc.generators) == 1 and not g.ifs
            detail = f"data = {unparse(dc)[:90]}"
        ctx.ob(
            "PAIR.submit.data-of-key",
            a,
            "data = {dep: state['cache'][dep] for dep in state['dependencies'][key]}",
            ok_data,
            "" if ok_data else detail or "data mapping not recognised",
        )
        # the tuple layout must match execute_task's parameters
        et = mod.func("execute_task")
        want = [p.arg for p in et.args.args]
        got = [unparse(e) if isinstance(e, ast.Name) else None for e in t.elts]
        ok_l = len(got) == len(want) and all(g_ is None or g_ == w for g_, w in list(zip(got, want))[2:])
        ctx.ob("TAB.submit.layout", a, f"args tuple matches execute_task{tuple(want)}", ok_l, "" if ok_l else f"tuple {got} vs parameters {want}")
    ctx.count("submission_tuples", n_sub)
    ctx.floor("submission_tuples", 1)
    # execute_task: runs the task it was given on the data it was given, returns its key
    et = mod.func("execute_task")
    ok_run = False
    for n, b in find("M_task(M_data)", et, nested=False):
        st = enclosing_stmt(n)
        un = [u for u, ub in find("M_a, M_b = loads(task_info)", et, nested=False)]
        for u in un:
            tg = u.targets[0]
            if unparse(tg.elts[0]) == unparse(b["M_task"]) and unparse(tg.elts[1]) == unparse(b["M_data"]) and dominates(et, u, n):
                ok_run = True
    ctx.ob("PAIR.execute.task-on-data", et, "task, data = loads(task_info); task(data)", ok_run)
    rs = returns(et)
    ok_ret = bool(rs) and all(
        isinstance(r.value, ast.Tuple) and len(r.value.elts) == 3 and is_unmodified_param(et, r, r.value.elts[0], "key") for r in rs
    )
    ctx.ob("PAIR.execute.returns-key", et, "return key, result, failed", ok_ret)
    # result packaging: dumps((result, id)) <-> res, worker_id = loads(res_info)
    packs = find("dumps((M_r, M_id))", et, nested=False)
    ok_pack = any(Pat("M_task(M_data)").match(resolve(b["M_r"], n, et)) is not None for n, b in packs)
    ctx.ob("TAB.execute.result-first", et, "result = dumps((task(data), id))", ok_pack)
    bt = mod.func("batch_execute_tasks")
    ok_b = any(
        isinstance(r.value, ast.ListComp)
        and Pat("execute_task(*M_a)").match(r.value.elt) is not None
        and len(r.value.generators) == 1
        and not r.value.generators[0].ifs
        and same(r.value.generators[0].target, Pat("execute_task(*M_a)").match(r.value.elt)["M_a"])
        and unparse(r.value.generators[0].iter) == bt.args.args[0].arg
        for r in returns(bt)
    )
    ctx.ob("PAIR.batch-execute.each-once", bt, "[execute_task(*a) for a in it]", ok_b)
    # main loop: store under the key that came back, then finish that key
    stores = find("M_s['cache'][M_k] = M_v", ga, nested=False)
    ctx.count("cache_store_sites", len(stores))
    ctx.floor("cache_store_sites", 1)
    for n, b in stores:
        k = b["M_k"]
        loops = [l for l in enclosing_loops(n) if isinstance(l, ast.For)]
        ok_key = False
        ok_val = False
        if loops and isinstance(loops[0].target, ast.Tuple) and len(loops[0].target.elts) == 3:
            lt = loops[0].target.elts
            ok_key = same(lt[0], k) and Pat("queue_get(M_q).result()").match(loops[0].iter) is not None
            # value comes from loads(res_info) first component
            for u, ub in find("M_a, M_b = loads(M_info)", ga, nested=False):
                if same(ub["M_a"], b["M_v"]) and same(ub["M_info"], lt[1]) and dominates(ga, u, n):
                    ok_val = True
        ctx.ob("PAIR.result.store-under-own-key", n, "for key, res_info, failed in queue...: state['cache'][key] = res", ok_key, "" if ok_key else "result stored under a different key than it was reported for")
        ctx.ob("PAIR.result.value-from-worker", n, "res, worker_id = loads(res_info); cache[key] = res", ok_val)
        fins = [c for c in calls(ga, "finish_task", nested=False)]
        ok_fin = any(len(c.args) >= 2 and same(c.args[1], k) and dominates(ga, n, c) and eqv(c.args[0], "dsk") for c in fins)
        ctx.ob("PAIR.result.store-before-finish", n, "state['cache'][key] = res ; finish_task(dsk, key, ...)", ok_fin, "" if ok_fin else "finish_task is not called for the same key after the result was stored")
        for c in fins:
            b2 = bind_call(c, mod.func("finish_task"))
            okr = "results" in b2 and unparse(b2["results"]) == "results" and "state" in b2 and unparse(b2["state"]) == "state"
            ctx.ob("DELEG.finish-task-args", c, "finish_task(dsk, key, state, results, ...)", okr, "" if okr else f"bound {[(k_, unparse(v)) for k_, v in b2.items() if isinstance(v, ast.AST)]}")
    # state is built from the requested keys
    for c in calls(ga, "start_state_from_dask", nested=False):
        b3 = bind_call(c, mod.func("start_state_from_dask"))
        ok = "keys" in b3 and unparse(b3["keys"]) == "results" and unparse(b3.get("dsk")) == "dsk" and "cache" in b3 and unparse(b3["cache"]) == "cache"
        ctx.ob("DELEG.start-state-args", c, "start_state_from_dask(dsk, keys=results, cache=cache)", ok)


VARIANTS = [
    ("dask/threaded.py", "        dsk,\n        keys,\n        cache=cache,", "        dsk,\n        list(keys),\n        cache=cache,", "DELEG.keys-to-result"),
    ("dask/multiprocessing.py", "dsk2, dependencies = cull(dsk, keys)", "dsk2, dependencies = cull(dsk, [])", "DELEG.graph"),
    (LOCAL, '    return nested_get(result, state["cache"])', '    return nested_get(list(results), state["cache"])', "MPT.return"),
    (LOCAL, "        return tuple(nested_get(i, coll) for i in ind)", "        return [nested_get(i, coll) for i in ind]", "SIB.nesting"),
    (LOCAL, 'dep: state["cache"][dep] for dep in state["dependencies"][key]\n                    }\n                    args.append', 'dep: state["cache"][dep] for dep in state["dependents"][key]\n                    }\n                    args.append', "PAIR.submit.data-of-key"),
    (LOCAL, "                    state[\"cache\"][key] = res\n                    finish_task(dsk, key, state, results, keyorder.get)", "                    finish_task(dsk, key, state, results, keyorder.get)\n                    state[\"cache\"][key] = res", "PAIR.result.store-before-finish"),
    (LOCAL, "    return key, result, failed", "    return task_info, result, failed", "PAIR.execute.returns-key"),
    (LOCAL, "chunksize = max(-(ntasks // -num_workers), 1)", "chunksize = -(ntasks // -num_workers)", "ABS.batch.width-positive"),
    (LOCAL, "dsk, keys=results, cache=cache, sortkey=keyorder.get", "dsk, keys=None, cache=cache, sortkey=keyorder.get", "DELEG.start-state-args"),
    ("dask/core.py", "    return result[keys]\n", "    return result.get(keys)\n", "SIB.nesting"),
    ("dask/core.py", "            elif typ is list:\n                work.extend(w)\n            elif typ is dict:\n                work.extend(w.values())", "            elif typ is list or typ is dict:\n                work.extend(w)", "SIB.extract.projection"),
]


def selftest(ctx):
    from ..variants import selftest as st

    return st(ctx, "C01", VARIANTS)
