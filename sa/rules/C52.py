"""C52 -- local diagnostics report every executed task faithfully (partial).

Decided:
 TYPED-STORE.cache   Cache._start stores cached values into the (converted) graph only as DataNode
 TAB.profiler        the profiler record is a 3-tuple written at pretask plus a 2-tuple appended at
                     posttask; the completeness filter in _finish and TaskData's field count agree (5),
                     and the field order is (key, task, start, end, worker)
 PAIR.profiler       start is read before the task is recorded, end after it finished (start <= end by
                     construction); records are keyed by the task key
 PAIR.cache          Cache._posttask stores the value it was given under the key it was given
Relies on C05 for "one pretask and one posttask per executed task".
"""
from __future__ import annotations

import ast

from ..lib import *

EXPLANATION = (
    "Typed-store and table rules over dask/cache.py and dask/diagnostics/profile.py: values the cache puts "
    "back into the scheduler's graph are DataNode constructions (never re-interpreted as keys or tasks); the "
    "profiler's per-task record has the same arity and field order at the pretask writer, the posttask "
    "writer, the completeness filter and the TaskData reader.  Timing values themselves are NOT decided."
)
ASSUMPTIONS = ["pretask/posttask fire once per executed task, pretask first (C05)", "default_timer is monotone"]
CACHE = "dask/cache.py"
PROF = "dask/diagnostics/profile.py"


def check(ctx):
    model = ctx.model
    cm = model.module(CACHE)
    st = cm.func("Cache._start")
    stores = [n for n in walk_no_nested(st) if isinstance(n, ast.Assign) and any(isinstance(t, ast.Subscript) and eqv(t.value, "dsk") for t in n.targets)]
    ctx.count("cache_graph_stores", len(stores))
    ctx.floor("cache_graph_stores", 1)
    for n in stores:
        t = [t for t in n.targets if isinstance(t, ast.Subscript)][0]
        m = Pat("DataNode(M_k, M_v)").match(n.value)
        ok = m is not None and same(m["M_k"], t.slice)
        ctx.ob("TYPED-STORE.cache", n, f"dsk[{unparse(t.slice)}] = DataNode({unparse(t.slice)}, <cached value>)", ok, "" if ok else f"stores {unparse(n.value)[:60]}: a cached value that looks like a key or a task is re-interpreted by the scheduler")
        if m is not None:
            okv = Pat("self.cache.data[M_k]").match(m["M_v"], {"M_k": t.slice}) is not None
            ctx.ob("PAIR.cache.same-key", n, "the value stored under a key is the cache entry of that key", okv)
        loops = [l for l in enclosing_loops(n) if isinstance(l, ast.For)]
        ok2 = bool(loops) and Pat("set(dsk) & set(self.cache.data)").match(resolve(loops[0].iter, loops[0], st)) is not None
        ctx.ob("PAIR.cache.overlap-only", n, "only keys present in both the graph and the cache are replaced", ok2)
    pt = cm.func("Cache._posttask")
    puts = [c for c in calls(pt, "put")]
    ok = len(puts) == 1 and [unparse(a) for a in puts[0].args[:2]] == ["key", "value"] and [a.arg for a in pt.args.args[:3]] == ["self", "key", "value"]
    ctx.ob("PAIR.cache.put", pt, "self.cache.put(key, value, ...) with the posttask's own key and value", ok)
    # ---------------- profiler
    pm = model.module(PROF)
    td = pm.toplevel_assign("TaskData")
    fields = None
    if isinstance(td, ast.Call) and call_name(td) == "namedtuple" and len(td.args) == 2 and isinstance(td.args[1], (ast.Tuple, ast.List)):
        fields = [const(e) for e in td.args[1].elts]
    ok = fields == ["key", "task", "start_time", "end_time", "worker_id"]
    ctx.ob("TAB.profiler.fields", f"{PROF}::TaskData", "TaskData = (key, task, start_time, end_time, worker_id)", ok, f"fields {fields}")
    pre = pm.func("Profiler._pretask")
    post = pm.func("Profiler._posttask")
    fin = pm.func("Profiler._finish")
    w1 = find("self._results[key] = M_v", pre, nested=False)
    ok = len(w1) == 1 and isinstance(w1[0][1]["M_v"], ast.Tuple) and [unparse(e) for e in w1[0][1]["M_v"].elts] == ["key", "dsk[key]", "start"]
    ctx.ob("TAB.profiler.pretask", pre, "pretask writes (key, dsk[key], start)", ok, "" if ok else (unparse(w1[0][1]["M_v"]) if w1 else "no record written"))
    w2 = [n for n in walk_no_nested(post) if isinstance(n, ast.AugAssign) and eqv(n.target, "self._results[key]") and isinstance(n.op, ast.Add)]
    ok = len(w2) == 1 and isinstance(w2[0].value, ast.Tuple) and [unparse(e) for e in w2[0].value.elts] == ["end", "id"]
    ctx.ob("TAB.profiler.posttask", post, "posttask appends (end, id)", ok, "" if ok else (unparse(w2[0].value) if w2 else "no record completed"))
    n1 = len(w1[0][1]["M_v"].elts) if w1 and isinstance(w1[0][1]["M_v"], ast.Tuple) else 0
    n2 = len(w2[0].value.elts) if w2 and isinstance(w2[0].value, ast.Tuple) else 0
    flt = [const(n.comparators[0]) for n in ast.walk(fin) if isinstance(n, ast.Compare) and Pat("len(M_v)").match(n.left) is not None and isinstance(n.ops[0], ast.Eq)]
    ok = flt == [n1 + n2] and fields is not None and len(fields) == n1 + n2
    ctx.ob("TAB.profiler.arity", fin, f"pretask arity {n1} + posttask arity {n2} == filter constant {flt} == TaskData fields {len(fields or [])}", ok)
    ok = bool(find("self.results += list(starmap(TaskData, results.values()))", fin)) and bool(find("self._results.clear()", fin))
    ctx.ob("TAB.profiler.finish", fin, "complete records become TaskData; partial ones are dropped; scratch is cleared", ok)
    s = find("start = default_timer()", pre, nested=False)
    e = find("end = default_timer()", post, nested=False)
    ok = bool(s and e) and bool(w1) and dominates(pre, s[0][0], w1[0][0]) and bool(w2) and dominates(post, e[0][0], w2[0])
    ctx.ob("PAIR.profiler.times", pre, "start is taken at pretask, end at posttask", ok)
    sigs_ok = [a.arg for a in pre.args.args] == ["self", "key", "dsk", "state"] and [a.arg for a in post.args.args] == ["self", "key", "value", "dsk", "state", "id"]
    ctx.ob("TAB.profiler.signatures", pre, "callback signatures follow the protocol (key first)", sigs_ok)
    cl = pm.func("Profiler.clear")
    en = pm.func("Profiler.__enter__")
    ok = bool(find("self.clear()", en)) and bool(find("self._results.clear()", cl))
    ctx.ob("PAIR.profiler.reset", en, "entering the profiler clears earlier results", ok)
    # ---------------- the profiler/cache see exactly what the callback protocol delivers: C05's rules are part of this
    from . import C05

    C05.check(ctx)
    # ---------------- a batch reports EVERY task it ran (one result triple per submitted task, in order)
    bet = (model if "model" in dir() else ctx.model).module("dask/local.py").func("batch_execute_tasks")
    ok = (all(eqv(r.value, "[execute_task(*a) for a in it]") for r in returns(bet)) and len(returns(bet)) == 1)
    ctx.ob("CNT.batch.one-result-per-task", bet, "batch_execute_tasks returns [execute_task(*a) for a in it]: one (key, result, failed) per task of the batch", ok, "" if ok else "results of tasks that already completed in the batch are dropped when a later one fails: their posttask callbacks never fire and the profiler omits them")


VARIANTS = [
    (CACHE, "            dsk[key] = DataNode(key, self.cache.data[key])", "            dsk[key] = self.cache.data[key]", "TYPED-STORE.cache"),
    (CACHE, "        overlap = set(dsk) & set(self.cache.data)", "        overlap = set(self.cache.data)", "PAIR.cache.overlap-only"),
    (CACHE, "        self.cache.put(key, value, cost=duration / nb / 1e9, nbytes=nb)", "        self.cache.put(key, nb, cost=duration / nb / 1e9, nbytes=nb)", "PAIR.cache.put"),
    (PROF, "        self._results[key] = (key, dsk[key], start)", "        self._results[key] = (key, start)", "TAB.profiler"),
    (PROF, "        self._results[key] += (end, id)", "        self._results[key] += (id, end)", "TAB.profiler.posttask"),
    (PROF, "if len(v) == 5}", "if len(v) == 4}", "TAB.profiler.arity"),
    (PROF, '    "TaskData", ("key", "task", "start_time", "end_time", "worker_id")', '    "TaskData", ("key", "task", "end_time", "start_time", "worker_id")', "TAB.profiler.fields"),
]


def selftest(ctx):
    from ..variants import selftest as st

    return st(ctx, "C52", VARIANTS)
