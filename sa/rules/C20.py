"""C20 -- array indexing equals NumPy indexing (narrow: twin agreement only).

Decided:
 TWIN.agree        normalize_index, slice_with_int_dask_array, slice_wrap_lists (and the shared core of slice_with_int_dask_array_on_axis and Array.__getitem__) exist once in the classic array engine and once in the array-expression
                   engine; in canonical form (docstrings dropped, locals renamed in binding order) each pair
                   is identical apart from the reviewed engine-plumbing differences frozen in
                   sa/rules/twins_accepted.json.  The copies implement one algorithm: a new divergence means
                   one engine indexes / assembles blocks differently from the other.
 TWIN.shared-line  for loosely related copies, the statements both copies share today stay shared
Not decided: the slice arithmetic of _slice_1d / take / slice_with_bool_dask_array / vindex, which exists only once.
"""
from __future__ import annotations

from ..twin import check_pairs, check_loose
from ._twins import pairs_for, loose_for

EXPLANATION = (
    "Twin cross-check (sibling agreement over whole functions) of normalize_index, slice_with_int_dask_array, slice_wrap_lists (and the shared core of slice_with_int_dask_array_on_axis and Array.__getitem__) between the classic and the "
    "array-expression engine, modulo frozen, reviewed engine-plumbing differences.  A divergence is a "
    "contradiction between two implementations of one specification.  NOT decided: the slice arithmetic of _slice_1d / take / slice_with_bool_dask_array / vindex, which exists only once."
)
ASSUMPTIONS = ["both copies are meant to implement the same algorithm (C30 states that the engines agree)"]
TECHNIQUE = "static analysis: canonicalised AST diff of sibling implementations (alpha-renamed locals, frozen reviewed differences) over /repo source (no execution)"


def check(ctx):
    n = check_pairs(ctx, pairs_for("C20"))
    n += check_loose(ctx, loose_for("C20"))
    ctx.count("twin_pairs", n)
    ctx.floor("twin_pairs", 3)


VARIANTS = [
    ("dask/array/slicing.py", "    idx = idx + (slice(None),) * (len(shape) - n_sliced_dims)", "    idx = idx + (slice(None),) * (len(shape) - n_sliced_dims - 1)", "TWIN.agree"),
    ("dask/array/_array_expr/_slicing.py", "    if len([i for i in idx if isinstance(i, Array) and i.dtype.kind in \"iu\"]) > 1:", "    if len([i for i in idx if isinstance(i, Array) and i.dtype.kind in \"iu\"]) > 2:", "TWIN.agree"),
]


def selftest(ctx):
    from ..variants import selftest as st

    return st(ctx, "C20", VARIANTS)
