"""C20 -- array indexing equals NumPy indexing (narrow: twin agreement only).

Decided:
 TWIN.agree        normalize_index, slice_with_int_dask_array, slice_wrap_lists (and the shared core of slice_with_int_dask_array_on_axis and Array.__getitem__) exist once in the classic array engine and once in the array-expression
                   engine; in canonical form (docstrings dropped, locals renamed in binding order) each pair
                   is identical apart from the reviewed engine-plumbing differences frozen in
                   sa/rules/twins_accepted.json.  The copies implement one algorithm: a new divergence means
                   one engine indexes / assembles blocks differently from the other.
 TWIN.shared-line  for loosely related copies, the statements both copies share today stay shared
Not decided: the slice arithmetic of _slice_1d / take / slice_with_bool_dask_array / vindex, which exists only once.
"""
from __future__ import annotations

from ..twin import check_pairs, check_loose
from ._twins import pairs_for, loose_for

EXPLANATION = (
    "Twin cross-check (sibling agreement over whole functions) of normalize_index, slice_with_int_dask_array, slice_wrap_lists (and the shared core of slice_with_int_dask_array_on_axis and Array.__getitem__) between the classic and the "
    "array-expression engine, modulo frozen, reviewed engine-plumbing differences.  A divergence is a "
    "contradiction between two implementations of one specification.  NOT decided: the slice arithmetic of _slice_1d / take / slice_with_bool_dask_array / vindex, which exists only once."
)
ASSUMPTIONS = ["both copies are meant to implement the same algorithm (C30 states that the engines agree)"]
TECHNIQUE = "static analysis: canonicalised AST diff of sibling implementations (alpha-renamed locals, frozen reviewed differences) over /repo source (no execution)"


def check(ctx):
    n = check_pairs(ctx, pairs_for("C20"))
    n += check_loose(ctx, loose_for("C20"))
    ctx.count("twin_pairs", n)
    ctx.floor("twin_pairs", 3)
    # ---------------- take/shuffle: the narrow integer dtype of the per-chunk index arrays must hold every in-chunk offset
    import ast as _ast
    from ..lib import calls, unparse, find, walk_no_nested, dominates, eqv

    for rel, q in (("dask/array/_shuffle.py", "_shuffle"), ("dask/array/_array_expr/_shuffle.py", "Shuffle._layer")):
        f = ctx.model.module(rel).func(q)
        ms = [c for c in calls(f, "np.min_scalar_type")]
        a0 = unparse(ms[0].args[0]) if len(ms) == 1 else ""
        ok = len(ms) == 1 and a0.startswith("max(*chunks[axis], ") and (a0.endswith("*map(len, new_chunks))") or a0.endswith("*map(len, self._new_chunks))"))
        ctx.ob("ALG.take.index-dtype", f, "np.min_scalar_type(max(*chunks[axis], <limit>, *map(len, new_chunks))): wide enough for offsets into every input chunk and positions in every output chunk", ok, "" if ok else "offsets into an input chunk (or positions in an output chunk) longer than the limit wrap around in the narrow dtype: wrong elements are taken")
    # ---------------- vindex: bounds are checked against the shape AFTER the non-fancy part of the index is applied
    vi = ctx.model.module("dask/array/core.py").func("_vindex")
    red = find("x = x[nonfancy_indexes]", vi)
    loops = [l for l in walk_no_nested(vi) if isinstance(l, _ast.For) and "zip(reduced_indexes, x.shape)" in unparse(l.iter)]
    ok = len(red) == 1 and len(loops) == 1 and dominates(vi, red[0][0], loops[0])
    ctx.ob("ORD.vindex.reduce-before-bounds", vi, "x = x[nonfancy_indexes] dominates the loop that normalises negative / checks out-of-range points against x.shape", ok, "" if ok else "points are wrapped and range-checked against the un-sliced extent: negative points select the wrong element when the same call also slices that axis' neighbours")
    take_rules(ctx)
    # ---------------- normalize_slice: with a negative step, a start clamped to -1 by slice.indices means "nothing"
    ns = ctx.model.module("dask/array/slicing.py").func("normalize_slice")
    import ast as _ast2
    neg = [n for n in _ast2.walk(ns) if isinstance(n, _ast2.If) and eqv(n.test, "start < 0")]
    ok = len(neg) == 1 and any(isinstance(s, _ast2.Return) and eqv(s.value, "slice(0, 0, step)") for s in neg[0].body)
    if ok:
        from ..cfg import cfg_of as _cfg
        facts = [(unparse(e), pol) for e, pol in _cfg(ns).facts(neg[0])]
        later = [n for n in _ast2.walk(ns) if isinstance(n, _ast2.If) and eqv(n.test, "start >= dim - 1")]
        ok = ("step < 0", True) in facts and len(later) == 1 and dominates(ns, neg[0], later[0])
    ctx.ob("ALG.normalize-slice.before-start", ns, "step < 0 and start < 0 (clamped by slice.indices): the empty slice slice(0, 0, step) is returned before start is interpreted", ok, "" if ok else "the clamped start -1 is kept as a literal: x[-n-2:-n-1:-2] selects the last element instead of nothing")
    from .C25 import newaxis_taker

    newaxis_taker(ctx)


def take_rules(ctx):
    """Rules on take / dask-integer-array indexing shared by C20 (indexing) and C24 (take)."""
    import ast as _ast
    from ..lib import calls, unparse, find, walk_no_nested, dominates, eqv, returns
    from ..cfg import cfg_of

    # the "index is the identity" shortcut of take must demand consecutive values
    tk = ctx.model.module("dask/array/slicing.py").func("take")
    fast = [n for n in _ast.walk(tk) if isinstance(n, _ast.If) and "len(index) == full_length" in unparse(n.test)]
    ok = len(fast) == 1 and eqv(fast[0].test, "len(index) == full_length and index[0] == 0 and np.all(np.diff(index) == 1)")
    ctx.ob("ALG.take.identity-shortcut", tk, "take returns the blocks unchanged only for index == arange(n): full length, starts at 0, every step == 1", ok, "" if ok else "a sorted index with duplicates (or gaps closed by duplicates) is taken for the identity: x[[0,1,1,3]] returns x")
    tk2 = ctx.model.module("dask/array/_array_expr/_slicing.py").func("take")
    ok = bool(find("arange = arange_safe(np.sum(x.chunks[axis]), like=index)", tk2)) and any(isinstance(n, _ast.If) and eqv(n.test, "len(index) == len(arange) and np.abs(index - arange).sum() == 0") for n in _ast.walk(tk2))
    ctx.ob("ALG.take.identity-shortcut", tk2, "expression engine: no-op only when index equals arange(n) element-wise", ok)
    # dask integer indexer: negative entries are normalised with the LENGTH OF THE AXIS before they are compared with chunk offsets
    ag = ctx.model.module("dask/array/chunk.py").func("slice_with_int_dask_array_aggregate")
    norm = find("idx = np.where(idx < 0, idx + sum(x_chunks), idx)", ag)
    loops = [l for l in walk_no_nested(ag) if isinstance(l, _ast.For)]
    ok = len(norm) == 1 and bool(loops) and all(dominates(ag, norm[0][0], l) for l in loops)
    ctx.ob("ALG.int-index.negative", ag, "slice_with_int_dask_array_aggregate: idx < 0 -> idx + sum(x_chunks), before the per-chunk loop", ok, "" if ok else "negative entries are compared with chunk offsets un-normalised (or normalised with the wrong length): the selected elements come back in the wrong order / wrong values while shape and chunks stay right")
    pc = ctx.model.module("dask/array/chunk.py").func("slice_with_int_dask_array")
    norm2 = find("idx = np.where(idx < 0, idx + x_size, idx)", pc)
    shift = find("idx = idx - offset", pc)
    ok = len(norm2) == 1 and len(shift) == 1 and dominates(pc, norm2[0][0], shift[0][0])
    ctx.ob("ALG.int-index.negative", pc, "slice_with_int_dask_array (per chunk): idx < 0 -> idx + x_size (the full axis length), before the chunk offset is subtracted", ok)


VARIANTS = [
    ("dask/array/slicing.py", "    idx = idx + (slice(None),) * (len(shape) - n_sliced_dims)", "    idx = idx + (slice(None),) * (len(shape) - n_sliced_dims - 1)", "TWIN.agree"),
    ("dask/array/_array_expr/_slicing.py", "    if len([i for i in idx if isinstance(i, Array) and i.dtype.kind in \"iu\"]) > 1:", "    if len([i for i in idx if isinstance(i, Array) and i.dtype.kind in \"iu\"]) > 2:", "TWIN.agree"),
]


def selftest(ctx):
    from ..variants import selftest as st

    return st(ctx, "C20", VARIANTS)
