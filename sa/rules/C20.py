"""C20 -- array indexing equals NumPy indexing (narrow: twin agreement only).

Decided:
 TWIN.agree        normalize_index, slice_with_int_dask_array, slice_wrap_lists (and the shared core of slice_with_int_dask_array_on_axis and Array.__getitem__) exist once in the classic array engine and once in the array-expression
                   engine; in canonical form (docstrings dropped, locals renamed in binding order) each pair
                   is identical apart from the reviewed engine-plumbing differences frozen in
                   sa/rules/twins_accepted.json.  The copies implement one algorithm: a new divergence means
                   one engine indexes / assembles blocks differently from the other.
 TWIN.shared-line  for loosely related copies, the statements both copies share today stay shared
Not decided: the slice arithmetic of _slice_1d / take / slice_with_bool_dask_array / vindex, which exists only once.
"""
from __future__ import annotations

from ..twin import check_pairs, check_loose
from ._twins import pairs_for, loose_for

EXPLANATION = (
    "Twin cross-check (sibling agreement over whole functions) of normalize_index, slice_with_int_dask_array, slice_wrap_lists (and the shared core of slice_with_int_dask_array_on_axis and Array.__getitem__) between the classic and the "
    "array-expression engine, modulo frozen, reviewed engine-plumbing differences.  A divergence is a "
    "contradiction between two implementations of one specification.  NOT decided: the slice arithmetic of _slice_1d / take / slice_with_bool_dask_array / vindex, which exists only once."
)
ASSUMPTIONS = ["both copies are meant to implement the same algorithm (C30 states that the engines agree)"]
TECHNIQUE = "static analysis: canonicalised AST diff of sibling implementations (alpha-renamed locals, frozen reviewed differences) over /repo source (no execution)"


def check(ctx):
    n = check_pairs(ctx, pairs_for("C20"))
    n += check_loose(ctx, loose_for("C20"))
    ctx.count("twin_pairs", n)
    ctx.floor("twin_pairs", 3)
    # ---------------- take/shuffle: the narrow integer dtype of the per-chunk index arrays must hold every in-chunk offset
    import ast as _ast
    from ..lib import calls, unparse, find, walk_no_nested, dominates, eqv

    for rel, q in (("dask/array/_shuffle.py", "_shuffle"), ("dask/array/_array_expr/_shuffle.py", "Shuffle._layer")):
        f = ctx.model.module(rel).func(q)
        ms = [c for c in calls(f, "np.min_scalar_type")]
        ok = len(ms) == 1 and unparse(ms[0].args[0]).startswith("max(*chunks[axis], ")
        ctx.ob("ALG.take.index-dtype", f, "np.min_scalar_type(max(*chunks[axis], <limit>)): wide enough for every input chunk's offsets", ok, "" if ok else "offsets into an input chunk longer than the limit wrap around in the narrow dtype: wrong elements are taken")
    # ---------------- vindex: bounds are checked against the shape AFTER the non-fancy part of the index is applied
    vi = ctx.model.module("dask/array/core.py").func("_vindex")
    red = find("x = x[nonfancy_indexes]", vi)
    loops = [l for l in walk_no_nested(vi) if isinstance(l, _ast.For) and "zip(reduced_indexes, x.shape)" in unparse(l.iter)]
    ok = len(red) == 1 and len(loops) == 1 and dominates(vi, red[0][0], loops[0])
    ctx.ob("ORD.vindex.reduce-before-bounds", vi, "x = x[nonfancy_indexes] dominates the loop that normalises negative / checks out-of-range points against x.shape", ok, "" if ok else "points are wrapped and range-checked against the un-sliced extent: negative points select the wrong element when the same call also slices that axis' neighbours")


VARIANTS = [
    ("dask/array/slicing.py", "    idx = idx + (slice(None),) * (len(shape) - n_sliced_dims)", "    idx = idx + (slice(None),) * (len(shape) - n_sliced_dims - 1)", "TWIN.agree"),
    ("dask/array/_array_expr/_slicing.py", "    if len([i for i in idx if isinstance(i, Array) and i.dtype.kind in \"iu\"]) > 1:", "    if len([i for i in idx if isinstance(i, Array) and i.dtype.kind in \"iu\"]) > 2:", "TWIN.agree"),
]


def selftest(ctx):
    from ..variants import selftest as st

    return st(ctx, "C20", VARIANTS)
