"""Facts from outside the repository that the table rules compare against: the Python data model
(dunder <-> operator function <-> printed symbol; reflected dunders swap operands) and the generic
ARGPOS rule over expression-constructor call sites."""
from __future__ import annotations

import ast

from ..exprmodel import ExprModel, arg_param_name
from ..lib import *

# dunder stem -> (operator function name(s), symbol)
BINARY = {
    "add": (("add",), "+"),
    "sub": (("sub",), "-"),
    "mul": (("mul",), "*"),
    "truediv": (("truediv",), "/"),
    "div": (("div",), "/"),
    "floordiv": (("floordiv",), "//"),
    "mod": (("mod",), "%"),
    "pow": (("pow",), "**"),
    "and": (("and_",), "&"),
    "or": (("or_",), "|"),
    "xor": (("xor",), "^"),
    "lshift": (("lshift",), "<<"),
    "rshift": (("rshift",), ">>"),
    "lt": (("lt",), "<"),
    "le": (("le",), "<="),
    "gt": (("gt",), ">"),
    "ge": (("ge",), ">="),
    "eq": (("eq",), "=="),
    "ne": (("ne",), "!="),
    "matmul": (("matmul",), "@"),
}
UNARY = {"neg": (("neg",), "-"), "pos": (("pos",), "+"), "invert": (("invert", "inv"), "~"), "abs": (("abs",), "abs")}
COMPARISONS = {"lt", "le", "gt", "ge", "eq", "ne"}
SYMBOL_OF = {}
for _k, (_fns, _s) in list(BINARY.items()) + list(UNARY.items()):
    for _f in _fns:
        SYMBOL_OF[_f] = _s


def dunder_parts(name: str):
    """'__radd__' -> ('add', True); '__add__' -> ('add', False); None if not an operator dunder."""
    if not (name.startswith("__") and name.endswith("__")):
        return None
    stem = name[2:-2]
    if stem in BINARY or stem in UNARY:
        return stem, False
    if stem.startswith("r") and stem[1:] in BINARY:
        # (reflected comparisons are not part of the data model but are harmless when defined)
        return stem[1:], True
    return None


_em_cache: dict[int, ExprModel] = {}


def exprmodel(ctx) -> ExprModel:
    k = id(ctx.model)
    if k not in _em_cache:
        _em_cache[k] = ExprModel(ctx.model)
    return _em_cache[k]


def argpos(ctx, file_filter, label: str, floor: int = 1):
    """ARGPOS over the constructor call sites located in files accepted by file_filter:
    keywords are parameters; a positional argument that is spelled like a
    parameter of the class (x, self.x, self.operand('x')) sits in that parameter's slot.
    Also `_defaults` and `_keyword_only` keys are parameters, for classes defined in those files."""
    em = exprmodel(ctx)
    n = named = 0
    for mod, call, ci in em.constructor_sites():
        if not file_filter(mod.relpath):
            continue
        params = em.parameters(ci)
        if params is None:
            ctx.ob("ARGPOS.parameters", call, f"{ci.name}._parameters is a constant list", None, "cannot resolve _parameters")
            continue
        if em.variadic(ci):
            continue
        n += 1
        problems = []
        # positional arguments up to the first *args are bound to the leading parameters
        pos_args = []
        for a_ in call.args:
            if isinstance(a_, ast.Starred):
                break
            pos_args.append(a_)
        npos = len(pos_args)
        # (more positional operands than parameters is a legitimate idiom: Expr.__new__ keeps extra
        #  operands, e.g. Assign(frame, key, value, ...) and UFuncElemwise read operands[len(_parameters):])
        for k in call.keywords:
            if k.arg and k.arg not in params:
                problems.append(f"keyword `{k.arg}` is not a parameter")
        for i, a in enumerate(pos_args):
            nm = arg_param_name(a)
            if nm in params and i < len(params):
                named += 1
                if params.index(nm) != i:
                    problems.append(f"argument {i} is `{nm}` but slot {i} is parameter `{params[i]}` (`{nm}` is parameter {params.index(nm)})")
        for k in call.keywords:
            if k.arg in params and k.arg in params[:npos]:
                problems.append(f"`{k.arg}` given both positionally and by keyword")
        ctx.ob(
            "ARGPOS",
            call,
            f"{qualname_of(call)}: {ci.name}({', '.join(unparse(a)[:18] for a in call.args)}{', ...' if call.keywords else ''}) against {params}",
            not problems,
            "; ".join(problems),
            nontrivial=bool(call.args),
        )
    ctx.count(f"argpos_sites_{label}", n)
    ctx.count(f"argpos_named_slots_{label}", named)
    ctx.floor(f"argpos_sites_{label}", floor, "expression constructor call sites")
    # class-level tables
    nc = 0
    for ci in em.classes:
        if not file_filter(ci.module.relpath):
            continue
        params = em.parameters(ci)
        if params is None:
            continue
        own_d = "_defaults" in ci.own
        own_k = "_keyword_only" in ci.own
        # (no `_defaults` subset-of `_parameters` obligation: base classes legitimately carry defaults for
        #  parameters that only their subclasses declare, e.g. Reduction._defaults["skipna"])
        if own_d and em.defaults(ci) is not None:
            nc += 1
        if own_k:
            ko = em.keyword_only(ci)
            if ko is not None:
                extra = sorted(k for k in ko if k not in params)
                ctx.ob("ARGPOS.keyword-only", ci.node, f"{ci.name}._keyword_only are parameters", not extra, f"{extra}")
        dup = sorted({p for p in params if params.count(p) > 1})
        if "_parameters" in ci.own:
            ctx.ob("ARGPOS.unique", ci.node, f"{ci.name}._parameters has no duplicates", not dup, f"duplicated {dup}", nontrivial=False)
    ctx.count(f"classes_with_defaults_{label}", nc)


# --------------------------------------------------------------------------- reduction decomposition
# Facts of arithmetic, not copies of repository text: how a reduction over a partitioned collection
# decomposes into (per-partition function, function that combines the per-partition results).
SELF_DECOMPOSABLE = {"sum", "prod", "min", "max", "any", "all", "first", "last", "nlargest", "nsmallest", "cumsum", "cumprod", "cummax", "cummin"}
AGGREGATED_BY_SUM = {"count", "size", "len", "nbytes", "memory_usage", "index_count", "nansum"}
ARG_EXTREMA = {"idxmin", "idxmax", "argmin", "argmax", "nanargmin", "nanargmax"}
# single plain functions that can never aggregate per-partition arg-extrema correctly
PLAIN_AGGREGATES = SELF_DECOMPOSABLE | {"idxmin", "idxmax", "argmin", "argmax", "mean", "median", "count"}
SCAN_MONOID = {"cumsum": ("add", 0), "cumprod": ("mul", 1), "cummax": ("max", float("-inf")), "cummin": ("min", float("inf"))}


def op_name(node, ci=None):
    """Short operation name of a class-attribute value: M.sum -> 'sum'; staticmethod(len) -> 'len';
    sum -> 'sum'; np.sum -> 'sum'; a method def `return df.sum()...` -> 'sum'; else None (opaque)."""
    if node is None:
        return None
    if isinstance(node, ast.Constant) and node.value is None:
        return None
    if isinstance(node, (ast.FunctionDef, ast.AsyncFunctionDef)):
        rs = [r for r in ast.walk(node) if isinstance(r, ast.Return) and r.value is not None]
        if len(rs) == 1:
            v = rs[0].value
            # df.sum().astype(...) / df.size / ser.nbytes
            while isinstance(v, ast.Call) and isinstance(v.func, ast.Attribute) and v.func.attr in ("astype", "to_frame", "T"):
                v = v.func.value
            if isinstance(v, ast.Call) and isinstance(v.func, ast.Attribute) and isinstance(v.func.value, ast.Name):
                return v.func.attr
            if isinstance(v, ast.Attribute) and isinstance(v.value, ast.Name):
                return v.attr
        return "<custom>"
    if isinstance(node, ast.Call) and call_name(node) == "staticmethod" and node.args:
        return op_name(node.args[0])
    d = dotted(node)
    if d is None:
        return "<custom>"
    parts = d.split(".")
    if parts[0] in ("M", "np", "numpy", "operator", "chunk") and len(parts) == 2:
        return parts[1].rstrip("_")
    if len(parts) == 1 and parts[0] in ("sum", "len", "min", "max", "any", "all"):
        return parts[0]
    return "<custom>"


def decomposition(ctx, rule, ci, chunk_name, agg_name, site=None, effective_agg_defaults_to_chunk=True):
    """One obligation: (chunk, aggregate) of class ci is an admissible decomposition."""
    site = site or ci.node
    label = f"{ci.name}: (chunk={chunk_name}, aggregate={agg_name})"
    if chunk_name is None or chunk_name == "<custom>":
        return None  # opaque per-partition function: nothing to say
    eff = agg_name if agg_name not in (None,) else (chunk_name if effective_agg_defaults_to_chunk else None)
    if chunk_name in ARG_EXTREMA:
        ok = eff == "<custom>"
        ctx.ob(rule, site, label, ok, "" if ok else f"per-partition {chunk_name} results cannot be combined by a plain `{eff}`: the position of the extremum of the whole is not a function of the per-partition positions alone (the values must be carried along)")
        return ok
    if chunk_name in SELF_DECOMPOSABLE:
        ok = eff == chunk_name or eff == "<custom>"
        ctx.ob(rule, site, label, ok, "" if ok else f"{chunk_name} of the per-partition {chunk_name}s must be taken with {chunk_name}, not {eff}")
        return ok
    if chunk_name in AGGREGATED_BY_SUM:
        ok = eff in ("sum", "<custom>")
        ctx.ob(rule, site, label, ok, "" if ok else f"per-partition {chunk_name}s add up: the aggregate must be a sum, not {eff}")
        return ok
    return None
