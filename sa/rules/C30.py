"""C30 -- the array expression engine preserves array semantics (narrow; tables only).

Decided:
 ARGPOS            every expression-constructor call site under dask/array/_array_expr/**: keywords are
                   parameters of the class and a positional argument spelled like a parameter sits in that
                   parameter's slot
 N1.name-has-token every `_name` override under _array_expr carries the deterministic token (or an explicit
                   user name) -- distinct array expressions never share keys
 ALG.operators     the operator dunders of the expression-backed Array are elemwise(operator.<same op>, ...)
                   with operands swapped for the reflected form; elemwise builds
                   Elemwise(op, dtype, name, where, *args) in that slot order
 NAME.ufuncs       `X = ufunc(np.X)` bindings of _array_expr/_ufunc.py (shared with C19)
Not decided: values, shapes, chunks; optimizer soundness.
"""
from __future__ import annotations

import ast

from ..lib import *
from ..twin import check_pairs, check_loose
from ._twins import pairs_for, all_pairs, loose_for, all_loose
from . import _tables as T
from . import C13

EXPLANATION = (
    "Argument-slot agreement at every array-expression constructor site, the name/token taint rule over the "
    "`_name` overrides of array expressions, and agreement of the expression-backed Array's operator dunders "
    "with the Python data model.  Values, shapes and chunks of the computed arrays are NOT decided."
)
ASSUMPTIONS = ["Expr.__new__ binds positional operands to _parameters in order"]
PREFIX = "dask/array/_array_expr/"
COL = "dask/array/_array_expr/_collection.py"
SPECIAL = {"__matmul__", "__rmatmul__", "__divmod__", "__rdivmod__", "__pos__", "__abs__"}


def check(ctx):
    model = ctx.model
    T.argpos(ctx, lambda p: p.startswith(PREFIX), "c30", floor=25)
    C13.name_overrides(ctx, prefixes=(PREFIX,), floor=10)
    arr = model.klass(COL, "Array")
    n_d = 0
    for name, f in arr.own_methods.items():
        dp = T.dunder_parts(name)
        if dp is None or name in SPECIAL:
            continue
        stem, reflected = dp
        rs = returns(f)
        if len(rs) != 1:
            continue
        if Pat("elemwise(M_op, *M_rest)").match(rs[0].value) is None:
            continue
        n_d += 1
        call_ = rs[0].value
        op = dotted(call_.args[0])
        fns = (T.BINARY.get(stem) or T.UNARY.get(stem))[0]
        ok_op = op is not None and op.split(".")[0] == "operator" and op.split(".")[-1] in fns
        params = [a.arg for a in f.args.args]
        args = [unparse(a) for a in call_.args[1:]]
        want = ["self"] if len(params) == 1 else ([params[1], "self"] if reflected else ["self", params[1]])
        ok = ok_op and args == want
        ctx.ob("ALG.operators", f, f"Array.{name} = elemwise(operator.{fns[0]}, {', '.join(want)})", ok, "" if ok else f"is elemwise({op}, {', '.join(args)})")
    ctx.count("array_expr_operator_dunders", n_d)
    ctx.floor("array_expr_operator_dunders", 25)
    ew = model.module(COL).func("elemwise")
    ok = (all(Pat("new_collection(Elemwise(op, dtype, name, where, *args))").match(r.value) is not None for r in returns(ew)) and bool(returns(ew)))
    ctx.ob("ALG.operators.elemwise", ew, "elemwise -> Elemwise(op, dtype, name, where, *args)", ok)
    em = T.exprmodel(ctx)
    elc = model.klass(PREFIX + "_blockwise.py", "Elemwise")
    ok = em.parameters(elc) == ["op", "dtype", "name", "where"]
    ctx.ob("ALG.operators.elemwise-parameters", elc.node, "Elemwise._parameters == [op, dtype, name, where]; array operands follow", ok)
    ea = elc.own_methods.get("elemwise_args")
    ok = ea is not None and (all(Pat("self.operands[len(self._parameters):]").match(r.value) is not None for r in returns(ea)) and bool(returns(ea)))
    ctx.ob("ALG.operators.elemwise-args", ea or elc.node, "elemwise_args = operands after the declared parameters, in order", ok)
    # ---------------- twin agreement with the array-expression engine's copies (see sa/twin.py)
    n_tw = check_pairs(ctx, all_pairs())
    ctx.count("twin_pairs", n_tw)
    ctx.floor("twin_pairs", 85, "functions that exist in both array engines")
    check_loose(ctx, all_loose())
    from .C23 import stage_output_name

    stage_output_name(ctx)
    # ---------------- expression-engine linspace: block i starts where block i-1 started + step * (its length)
    ls_ = ctx.model.module("dask/array/_array_expr/_creation.py").func("Linspace._layer")
    ok = bool(find("blockstart = blockstart + self.step * bs", ls_)) and not find("blockstart = blockstop + M_x", ls_)
    ctx.ob("ABS.linspace.tiling.expr", ls_, "Linspace._layer: blockstart advances by step * block length (independent of the endpoint convention)", ok, "" if ok else "with endpoint=False the last value of a block is not one step before the next block's first: every later block is shifted")
    # ---------------- expression-engine partial reductions: the token includes the fan-in per axis, not only the axes
    pr_ = ctx.model.module("dask/array/_array_expr/_reductions.py").func("PartialReduce.__dask_tokenize__")
    tk = [c for c in calls(pr_, "_tokenize_deterministic")]
    ok = len(tk) == 1 and [unparse(a) for a in tk[0].args] == ["self.func", "self.array", "self.split_every", "self.keepdims", "self.dtype"]
    ctx.ob("INJ.partial-reduce.token", pr_, "PartialReduce token = (func, array, split_every as given {axis: fan-in}, keepdims, dtype)", ok, "" if ok else "two tree levels with different fan-in share a name: a later reduction re-uses the first level of an earlier one and aggregates the wrong groups")


VARIANTS = [
    (COL, "    def __rsub__(self, other):\n        return elemwise(operator.sub, other, self)", "    def __rsub__(self, other):\n        return elemwise(operator.sub, self, other)", "ALG.operators"),
    (COL, "    return new_collection(Elemwise(op, dtype, name, where, *args))", "    return new_collection(Elemwise(op, name, dtype, where, *args))", "ARGPOS"),
    (PREFIX + "_slicing.py", 'return f"getitem-{self.deterministic_token}"', 'return "getitem-" + str(len(self.operands))', "N1.name-has-token"),
    (PREFIX + "_expr.py", "Rechunk(self, chunks, threshold, block_size_limit, balance, method)", "Rechunk(self, chunks, block_size_limit, threshold, balance, method)", "ARGPOS"),
    (PREFIX + "_blockwise.py", "        return self.operands[len(self._parameters) :]", "        return self.operands[len(self._parameters) - 1 :]", "ALG.operators.elemwise-args"),
]


def selftest(ctx):
    from ..variants import selftest as st

    return st(ctx, "C30", VARIANTS)
