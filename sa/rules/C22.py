"""C22 -- array reductions and scans equal NumPy for every chunking and split_every (narrow; tables).

Decided:
 ALG.decomposition  every `reduction(a, chunk, aggregate, combine=...)` call in dask/array/reductions.py
                    whose per-block function is a plain NumPy reduction uses an admissible pair:
                    sum/prod/min/max/any/all with themselves; nansum/nanprod per block then sum/prod (or
                    the nan-variant); nanmin/nanmax with themselves; combine, when given, is the chunk
 NAME.reduction     the public function X reduces blocks with X (chunk.X / the size-0-safe wrapper of np.X)
 ALG.scan-monoid    every cumreduction(func, binop, ident, ..., preop=...) call takes scan, merge operator,
                    identity and block pre-reduction from one monoid: (cumsum, +, 0, sum),
                    (cumprod, *, 1, prod) and their nan-variants
Not decided: numerical results; split_every invariance of floating-point sums.
"""
from __future__ import annotations

import ast

from ..lib import *
from ..twin import check_pairs, check_loose
from ._twins import pairs_for, all_pairs, loose_for, all_loose
from . import _tables as T

EXPLANATION = (
    "Algebraic tables over every reduction(...) and cumreduction(...) call in dask/array/reductions.py: the "
    "(per-block, aggregate, combine) functions against the decomposition of the NumPy reduction the public "
    "function is named after, and the (scan, merge, identity, block pre-reduction) tuples against their monoid.  "
    "Numerical agreement with NumPy is NOT decided."
)
ASSUMPTIONS = ["reduction() applies chunk per block, combine at intermediate tree levels (default: aggregate... see _reductions_generic), aggregate at the root"]
RED = "dask/array/reductions.py"
EXPECT = {
    "sum": ("sum", {"sum"}),
    "prod": ("prod", {"prod"}),
    "min": ("min", {"min"}),
    "max": ("max", {"max"}),
    "any": ("any", {"any"}),
    "all": ("all", {"all"}),
    "nansum": ("nansum", {"sum", "nansum"}),
    "nanprod": ("nanprod", {"prod", "nanprod"}),
    "nanmin": ("nanmin", {"nanmin"}),
    "nanmax": ("nanmax", {"nanmax"}),
}
SCAN = {
    "cumsum": ("cumsum", "+", 0, "sum"),
    "cumprod": ("cumprod", "*", 1, "prod"),
    "nancumsum": ("nancumsum", "+", 0, "nansum"),
    "nancumprod": ("nancumprod", "*", 1, "nanprod"),
}


def _core(mod, node, depth=0):
    """Name of the NumPy reduction a per-block function applies: chunk.sum -> sum; chunk_min (wrapper
    returning np.min(...)) -> min; np.nansum -> nansum; partial/other -> None."""
    d = dotted(node)
    if d is None:
        return None
    parts = d.split(".")
    if parts[0] in ("chunk", "np", "numpy") and len(parts) == 2:
        return parts[1]
    if len(parts) == 1 and mod.has(parts[0]) and depth < 2:
        f = mod.defs[parts[0]]
        if isinstance(f, ast.FunctionDef):
            names = set()
            for r in ast.walk(f):
                if isinstance(r, ast.Return) and isinstance(r.value, ast.Call):
                    c = _core(mod, r.value.func, depth + 1)
                    if c:
                        names.add(c)
            names -= {"array", "asarray_safe", "array_safe"}
            if len(names) == 1:
                return names.pop()
    return None


def _merge_op(mod, node):
    d = dotted(node)
    if d in ("operator.add",):
        return "+"
    if d in ("operator.mul",):
        return "*"
    if d and mod.has(d):
        f = mod.defs[d]
        ops = set()
        for r in ast.walk(f):
            if isinstance(r, ast.Return) and isinstance(r.value, ast.BinOp) and {unparse(r.value.left), unparse(r.value.right)} == {"a", "b"}:
                ops.add({ast.Add: "+", ast.Mult: "*"}.get(type(r.value.op), "?"))
        if len(ops) == 1:
            return ops.pop()
    return None


def check(ctx):
    model = ctx.model
    mod = model.module(RED)
    n = 0
    seen = set()
    for qn, f in mod.functions():
        for c in calls(f, "reduction", nested=False):
            if call_name(c) != "reduction":
                continue
            ch = c.args[1] if len(c.args) > 1 else kwarg(c, "chunk")
            ag = c.args[2] if len(c.args) > 2 else kwarg(c, "aggregate")
            cb = kwarg(c, "combine")
            cn, an, bn = _core(mod, ch), _core(mod, ag), (_core(mod, cb) if cb is not None else None)
            if qn in EXPECT:
                n += 1
                seen.add(qn)
                want_c, want_a = EXPECT[qn]
                ok = cn == want_c and an in want_a and (cb is None or bn in ({want_c} | want_a))
                ctx.ob("ALG.decomposition", c, f"{qn}: blocks reduced with {want_c}, partials aggregated with {sorted(want_a)}", ok, "" if ok else f"uses chunk={cn} aggregate={an} combine={bn}")
            elif cn in T.SELF_DECOMPOSABLE | T.AGGREGATED_BY_SUM and an is not None:
                n += 1
                r = T.decomposition(ctx, "ALG.decomposition", type("C", (), {"name": qn, "node": c})(), cn, an, site=c)
            # first argument is the array being reduced (for the table-driven reductions)
            if qn in EXPECT:
                ok0 = bool(c.args) and unparse(c.args[0]) == f.args.args[0].arg
                ctx.ob("DELEG.reduction-input", c, f"{qn}: reduces its first argument", ok0, nontrivial=False)
            for kw in ("axis", "keepdims", "split_every", "out"):
                if kw in [a.arg for a in f.args.args] and kwarg(c, kw) is not None:
                    okk = unparse(kwarg(c, kw)) == kw
                    ctx.ob("DELEG.reduction-kwargs", c, f"{qn}: {kw}={kw}", okk, "" if okk else f"{kw}={unparse(kwarg(c, kw))}", nontrivial=False)
    missing = sorted(set(EXPECT) - seen)
    ctx.ob("NAME.reduction.table", f"{RED}::<module>", f"all of {sorted(EXPECT)} are defined through reduction()", not missing, f"missing {missing}")
    ctx.count("reduction_call_sites", n)
    ctx.floor("reduction_call_sites", 10)
    n_s = 0
    for qn, f in mod.functions():
        for c in calls(f, "cumreduction", nested=False):
            if qn not in SCAN:
                continue
            n_s += 1
            wf, wop, wid, wpre = SCAN[qn]
            fn = _core(mod, c.args[0])
            op = _merge_op(mod, c.args[1])
            ident = const(c.args[2])
            pre = _core(mod, kwarg(c, "preop")) if kwarg(c, "preop") is not None else None
            ok = fn == wf and op == wop and ident == wid and pre == wpre
            ctx.ob("ALG.scan-monoid", c, f"{qn}: (scan={wf}, merge={wop}, identity={wid}, block total={wpre})", ok, "" if ok else f"uses (scan={fn}, merge={op}, identity={ident}, block total={pre})")
    ctx.count("cumreduction_call_sites", n_s)
    ctx.floor("cumreduction_call_sites", 4)
    # ---------------- Blelloch scan (method="blelloch"): sweep strides and operand order
    bl = mod.func("prefixscan_blelloch")
    whiles = [w for w in walk_no_nested(bl) if isinstance(w, ast.While)]
    up = [w for w in whiles if eqv(w.test, "stride2 <= n_vals")]
    down = [w for w in whiles if eqv(w.test, "stride > 0")]
    ctx.count("blelloch_sweeps", len(up) + len(down))
    ctx.floor("blelloch_sweeps", 2, "up-sweep and down-sweep loops of prefixscan_blelloch")
    ok = len(up) == 1 and bool(find("stride = stride2", up[0])) and bool(find("stride2 *= 2", up[0])) and any(isinstance(l, ast.For) and eqv(l.iter, "range(stride2 - 1, n_vals, stride2)") for l in up[0].body)
    ctx.ob("ALG.blelloch.upsweep", bl, "up-sweep: for i in range(stride2 - 1, n_vals, stride2) with strides (1,2),(2,4),... while stride2 <= n_vals", ok)
    ok = len(down) == 1 and bool(find("stride2 = stride", down[0])) and bool(find("stride //= 2", down[0])) and any(isinstance(l, ast.For) and eqv(l.iter, "range(stride2 + stride - 1, n_vals, stride2)") for l in down[0].body)
    ctx.ob("ALG.blelloch.downsweep", bl, "down-sweep: for i in range(stride2 + stride - 1, n_vals, stride2), halving the strides until 0", ok)
    # the down-sweep must start at the smallest power of two >= n_vals // 2 (at least 2); a floor instead
    # of a ceiling skips the partial sums of the tail blocks whenever n_vals // 2 is not a power of two
    st0 = [a for a in walk_no_nested(bl) if isinstance(a, ast.Assign) and eqv(a.targets[0], "stride2") and "n_vals" in unparse(a.value)]
    verdict, how = None, "start stride not found"
    if len(st0) == 1:
        v = st0[0].value
        inner = v
        if isinstance(v, ast.Call) and call_name(v) in ("builtins.max", "max") and len(v.args) == 2 and const(v.args[0]) == 2:
            inner = v.args[1]
            u = unparse(inner)
            E = "n_vals // 2"
            ceil_idioms = (f"2 ** math.ceil(math.log2({E}))", f"1 << ({E} - 1).bit_length()", f"2 ** ({E} - 1).bit_length()")
            floor_idioms = (f"2 ** math.floor(math.log2({E}))", f"2 ** int(math.log2({E}))", f"1 << ({E}).bit_length() - 1", f"1 << int(math.log2({E}))", f"2 ** (({E}).bit_length() - 1)")
            if u in ceil_idioms:
                verdict, how = True, f"{u}: least power of two >= {E}"
            elif u in floor_idioms:
                verdict, how = False, f"{u} is the greatest power of two <= {E}: for n_vals // 2 not a power of two (7-8, 13-16, 25-32 ... blocks) the first down-sweep stride is too small and the tail blocks miss a partial sum"
            else:
                how = f"unrecognised power-of-two idiom: {u}"
        else:
            how = f"start stride is {unparse(v)}"
    ctx.ob("ALG.blelloch.downsweep-start", st0[0] if st0 else bl, "down-sweep starts at max(2, least power of two >= n_vals // 2)", verdict, how)
    ok = bool(find("stride = stride2 // 2", bl))
    ctx.ob("ALG.blelloch.downsweep-start.half", bl, "first down-sweep stride = stride2 // 2", ok)
    # every partial result of a scan with an explicit dtype is accumulated in that dtype: the block scans
    # (func(x, axis=axis, dtype=dtype) in _prefixscan_first/_combine) AND the block totals (preop)
    pre = find("preop = partial(preop, dtype=dtype)", bl)
    mb = find("batches = x.map_blocks(preop, axis=axis, keepdims=True, dtype=dtype)", bl)
    ok = len(pre) == 1 and len(mb) == 1 and dominates(bl, pre[0][0], mb[0][0]) or (len(mb) == 1 and len(pre) == 1 and pre[0][0].lineno < mb[0][0].lineno)
    ctx.ob("ALG.blelloch.totals-dtype", bl, "block totals are computed by preop with dtype=dtype (when preop accepts one), like the block scans", bool(ok), "" if ok else "the totals are accumulated in the input dtype while the blocks are scanned in the requested dtype: with float data and dtype='i8' the blelloch result differs from the sequential one and from NumPy")
    for hn in ("_prefixscan_first", "_prefixscan_combine"):
        hf = mod.func(hn)
        ok = "func(x, axis=axis, dtype=dtype)" in unparse(hf)
        ctx.ob("ALG.blelloch.scan-dtype", hf, f"{hn} scans its block with func(x, axis=axis, dtype=dtype)", ok)
    # operand order (binop need not commute): earlier block first
    zips = [c for c in calls(bl, "zip") if len(c.args) == 3 and eqv(c.args[0], "indices[i]")]
    ok = len(zips) == 2 and all(eqv(c.args[1], "prefix_vals[i - stride]") and eqv(c.args[2], "prefix_vals[i]") for c in zips) and len(find("dsk[key] = (binop, left_val, right_val)", bl)) == 2
    ctx.ob("ALG.blelloch.operand-order", bl, "both sweeps combine (binop, prefix_vals[i - stride], prefix_vals[i]): the earlier block is the left operand", ok)
    # ---------------- twin agreement with the array-expression engine's copies (see sa/twin.py)
    n_tw = check_pairs(ctx, pairs_for("C22"))
    ctx.count("twin_pairs", n_tw)
    ctx.floor("twin_pairs", 5)
    check_loose(ctx, loose_for("C22"))
    # ---------------- sequential scan: the carried prefix ("extra") blocks have the dtype of the scanned blocks
    cr = mod.func("cumreduction")
    fl = [t for t in ast.walk(cr) if isinstance(t, ast.Tuple) and len(t.elts) == 4 and eqv(t.elts[1], "np.full_like")]
    ok = len(fl) == 1 and eqv(fl[0].elts[2], "(x._meta, ident, m.dtype)")
    ctx.ob("ALG.scan.carry-dtype", cr, "the initial carry is np.full_like(x._meta, ident, m.dtype): the dtype of the scanned blocks, not of the input", ok, "" if ok else "the carry has the input dtype: with an explicit dtype every block after the first is promoted while the array declares the requested dtype")
    ok = any(eqv(r.value, "handle_out(out, result)") for r in returns(cr)) and bool(find("result = Array(graph, name, x.chunks, m.dtype, meta=x._meta)", cr))
    ctx.ob("ALG.scan.declared-dtype", cr, "the result declares m.dtype and x.chunks", ok)
    # ---------------- moment_combine: deviation of each block mean FROM the overall mean (sign matters for odd orders)
    mc = mod.func("moment_combine")
    its = find("inner_term = M_v", mc)
    ok = len(its) == 2 and sorted(unparse(b["M_v"]) for _, b in its) == sorted(["np.abs(divide(totals, ns) - mu)", "divide(totals, ns, dtype=dtype) - mu"])
    ctx.ob("ALG.moment.deviation-sign", mc, "inner_term = (block means) - (overall mean) in both branches", ok, "" if ok else "the deviation is taken with the opposite sign: even central moments are unchanged but every odd-order term flips, so moment(order>=3) is wrong when blocks are combined")
    # ---------------- arg-extrema on all-NaN slices: NaN is replaced by the identity of the extremum
    for fn, ident_ in (("_nanargmin", "np.inf"), ("_nanargmax", "-np.inf")):
        f_ = mod.func(fn)
        wh = [c for c in calls(f_, "where") if eqv(c.func, "np.where")]
        ok = len(wh) == 1 and eqv(wh[0].args[0], "np.isnan(x)") and unparse(wh[0].args[1]) == ident_ and eqv(wh[0].args[2], "x")
        ctx.ob("ALG.nanarg-identity", f_, f"{fn}: NaNs are replaced by {ident_} (never selected unless everything is NaN)", ok, "" if ok else f"NaN is replaced by {unparse(wh[0].args[1]) if wh else None}: the NaN position wins the extremum")
    # ---------------- topk / argtopk: k may exceed the axis
    ck = model.module("dask/array/chunk.py")
    at = ck.func("argtopk")
    rs = returns(at)
    ok = bool(rs) and all(isinstance(r.value, ast.Tuple) and len(r.value.elts) == 2 for r in rs) and not any(eqv(r.value, "a_plus_idx") for r in rs)
    early = [r for r in rs if any(eqv(e, "abs(k) >= a.shape[axis]") and pol for e, pol in cfg_of(at).facts(r))]
    ok = ok and len(early) == 1 and eqv(early[0].value, "(a, idx)")
    ctx.ob("SHAPE.argtopk.pair", at, "every exit of chunk.argtopk returns the (values, indices) pair; the k >= n exit returns the concatenated (a, idx)", ok, "" if ok else "the k >= n exit hands back its input, which is a LIST of pairs when several blocks were combined: argtopk_aggregate cannot unpack it")
    for fn in ("topk", "argtopk"):
        f = mod.func(fn)
        rc = [c for c in calls(f, "reduction")]
        osz = kwarg(rc[0], "output_size") if len(rc) == 1 else None
        ok = osz is not None and eqv(osz, "builtins.min(abs(k), a.shape[axis])")
        ctx.ob("ALG.topk.output-size", f, f"{fn}: declared length along the axis is min(abs(k), a.shape[axis])", ok, "" if ok else "with abs(k) > n the declared shape is longer than the computed result")
    # ---------------- arg reductions: a block's global offset is the SUM of the chunk lengths before it
    argr = mod.func("arg_reduction")
    off = find("offsets = M_v", argr)
    ok = len(off) == 1 and eqv(off[0][1]["M_v"], "list(product(*(accumulate(operator.add, bd[:-1], 0) for bd in x.chunks)))")
    ctx.ob("ABS.arg-offsets.cumulative", argr, "offsets = product of the running sums of x.chunks per axis (accumulate(add, bd[:-1], 0))", ok, "" if ok else "block index times a nominal chunk size is only right for regular chunks: with irregular chunks argmin/argmax return shifted indices")
    # ---------------- arg reductions over all axes: ties between blocks are broken by the smallest FLAT index
    acb = mod.func("_arg_combine")
    tie = find("ties = flat_vals == flat_vals[np.ravel(local_args)[0]]", acb)
    fix_ = find("arg = arg * 0 + flat_arg[ties].min()", acb)
    ok = len(tie) == 1 and len(fix_) == 1 and dominates(acb, tie[0][0], fix_[0][0]) and any(eqv(e, "axis is None") and pol for e, pol in cfg_of(acb).facts(fix_[0][0]))
    ctx.ob("ALG.arg-combine.first-occurrence", acb, "_arg_combine(axis=None): among the candidates equal to the extreme value the smallest flat index wins", ok, "" if ok else "the first tied BLOCK wins instead of the first tied ELEMENT: argmin/argmax of bool / duplicate-heavy n-d arrays differ from NumPy")
    # ---------------- quantile rechunks when one of the REDUCED axes has several chunks
    qf = mod.func("quantile")
    rc_ = [n for n in walk_no_nested(qf) if isinstance(n, ast.If) and "numblocks[" in unparse(n.test)]
    ok = len(rc_) == 1 and isinstance(rc_[0].test, ast.Call) and unparse(rc_[0].test.func) == "builtins.any" and isinstance(rc_[0].test.args[0], ast.GeneratorExp) and eqv(rc_[0].test.args[0].elt, "a.numblocks[ax] > 1") and eqv(rc_[0].test.args[0].generators[0].iter, "axis")
    ctx.ob("DOM.quantile.rechunk-reduced-axes", qf, "the single-chunk requirement is tested on the axes in `axis` (not on the first len(axis) axes)", ok, "" if ok else "a reduced axis that is split across chunks is not merged: every block computes its own quantile (wrong values and, with keepdims, a wrong shape)")
    # ---------------- cumulative reductions: the default output dtype is what the NumPy scan returns for the input dtype
    cr_ = mod.func("cumreduction")
    dd_ = [a for a, b_ in find("dtype = M_v", cr_) if any(eqv(e, "dtype is None") and pol for e, pol in cfg_of(cr_).facts(a))]
    ok = len(dd_) == 1 and eqv(dd_[0].value, "getattr(func(np.ones((0,), dtype=x.dtype)), 'dtype', object)")
    ctx.ob("ALG.scan.default-dtype", cr_, "cumreduction: dtype defaults to func(np.ones((0,), dtype=x.dtype)).dtype (bool/int8 cumsum widen like NumPy)", ok, "" if ok else "taking the input dtype makes bool cumsum saturate and narrow integers wrap")


VARIANTS = [
    (RED, "        stride2 = builtins.max(2, 2 ** math.ceil(math.log2(n_vals // 2)))", "        stride2 = builtins.max(2, 2 ** math.floor(math.log2(n_vals // 2)))", "ALG.blelloch.downsweep-start"),
    (RED, "            for i in range(stride2 + stride - 1, n_vals, stride2):", "            for i in range(stride2 + stride, n_vals, stride2):", "ALG.blelloch.downsweep"),
    (RED, "def nansum(a, axis=None, dtype=None, keepdims=False, split_every=None, out=None):\n    return reduction(\n        a,\n        chunk.nansum,\n        chunk.sum,", "def nansum(a, axis=None, dtype=None, keepdims=False, split_every=None, out=None):\n    return reduction(\n        a,\n        chunk.sum,\n        chunk.sum,", "ALG.decomposition"),
    (RED, "        chunk_min,\n        chunk.min,\n        combine=chunk_min,", "        chunk_min,\n        chunk.max,\n        combine=chunk_min,", "ALG.decomposition"),
    (RED, "        np.cumprod,\n        _cumprod_merge,\n        1,", "        np.cumprod,\n        _cumprod_merge,\n        0,", "ALG.scan-monoid"),
    (RED, "        np.cumsum,\n        _cumsum_merge,\n        0,", "        np.cumsum,\n        _cumprod_merge,\n        0,", "ALG.scan-monoid"),
    (RED, "    return a * b\n\n\n@derived_from(np)\ndef cumsum", "    return a + b\n\n\n@derived_from(np)\ndef cumsum", "ALG.scan-monoid"),
    (RED, "        preop=np.nansum,", "        preop=np.sum,", "ALG.scan-monoid"),
]


def selftest(ctx):
    from ..variants import selftest as st

    return st(ctx, "C22", VARIANTS)
