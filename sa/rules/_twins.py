"""Twin table: functions that exist once in the classic array engine and once in the
array-expression engine and implement the same algorithm (see sa/twin.py).  Confirmed pair by pair
on today's tree (68 pairs identical in canonical form, 22 with frozen engine-plumbing differences
in twins_accepted.json).  tag -> the property whose behaviour the *classic* copy implements; every
pair is also an instance of C30 (the expression engine agrees with the classic engine).
"""
from __future__ import annotations

OV, OVX = "dask/array/overlap.py", "dask/array/_array_expr/_overlap.py"
GU, GUX = "dask/array/gufunc.py", "dask/array/_array_expr/_gufunc.py"
RA, RAX = "dask/array/random.py", "dask/array/_array_expr/random.py"
UF, UFX = "dask/array/ufunc.py", "dask/array/_array_expr/_ufunc.py"
CR, CRX = "dask/array/creation.py", "dask/array/_array_expr/_creation.py"
SL, SLX = "dask/array/slicing.py", "dask/array/_array_expr/_slicing.py"
CO, COX = "dask/array/core.py", "dask/array/_array_expr/_collection.py"
EXX = "dask/array/_array_expr/_expr.py"


def _same(ra, rb, names):
    return [(ra, n, rb, n) for n in names]


TWINS = {
    "C26": _same(OV, OVX, [
        "_overlap_internal_chunks", "trim_overlap", "trim_internal", "_trim", "periodic", "reflect", "nearest",
        "constant", "_remove_overlap_boundaries", "boundaries", "ensure_minimum_chunksize",
        "_get_overlap_rechunked_chunks", "overlap", "add_dummy_padding", "map_overlap", "map_overlap.coerce",
        "coerce_depth", "coerce_depth_type", "coerce_boundary", "sliding_window_view",
    ]) + [(CO, "Array.map_overlap", COX, "Array.map_overlap")],
    "C35": _same(GU, GUX, [
        "_parse_gufunc_signature", "_validate_normalize_axes", "gufunc.__init__", "gufunc.__call__", "as_gufunc", "apply_gufunc",
    ]) + [(CO, "map_blocks", "dask/array/_array_expr/_map_blocks.py", "map_blocks")],
    "C28": _same(RA, RAX, [
        "Generator.permutation", "default_rng", "RandomState.__init__", "RandomState._backend", "RandomState.permutation",
        "_rng_from_bitgen", "_spawn_bitgens", "_apply_random_func", "_apply_random", "_choice_rng", "_choice_rs",
        "_make_api", "_make_api.wrapper", "_choice_validate_params",
    ]),
    "C19": _same(UF, UFX, [
        "wrap_elemwise", "wrap_elemwise.wrapped", "da_frompyfunc.__init__", "da_frompyfunc.__getattr__", "da_frompyfunc.__dir__",
        "frompyfunc", "ufunc.__init__", "ufunc.__getattr__", "ufunc.__call__", "ufunc.outer", "angle", "divmod",
    ]) + _same(CO, COX, ["Array.astype", "_as_dtype", "Array.__array_ufunc__", "asarray", "asanyarray", "Array.__divmod__", "Array.__rdivmod__", "Array.real", "Array.imag", "Array.conj", "Array.clip"]),
    "C22": [("dask/array/_reductions_generic.py", "_tree_reduce", "dask/array/_array_expr/_reductions.py", "_tree_reduce")]
    + _same(CO, COX, ["Array.any", "Array.all", "Array.min", "Array.max", "Array.sum", "Array.prod", "Array.mean", "Array.std", "Array.var", "Array.moment"]),
    "C24": _same(CR, CRX, ["repeat"]) + _same(CO, COX, ["concatenate", "stack"]),
    "C34": _same(CR, CRX, ["empty_like", "ones_like", "zeros_like", "full_like"]) + [("dask/array/wrap.py", "full", CRX, "full"), ("dask/array/routines.py", "array", COX, "array")],
    "C20": _same(SL, SLX, ["normalize_index", "slice_with_int_dask_array", "slice_wrap_lists"]),
    "C25": [(CO, "Array.dtype", EXX, "ArrayExpr.dtype"), (CO, "Array.__len__", EXX, "ArrayExpr.__len__"), (CO, "Array.__dask_keys__.keys", EXX, "ArrayExpr._cached_keys.keys")],
}


def pairs_for(*tags):
    out = []
    for t in tags:
        out.extend(TWINS[t])
    return out


def all_pairs():
    seen, out = set(), []
    for t in TWINS:
        for p in TWINS[t]:
            if p not in seen:
                seen.add(p)
                out.append(p)
    return out


# Loose twins: same core statements, different plumbing (see twin.check_loose).  tag as above.
LOOSE = {
    "C19": [(CO, "unify_chunks", EXX, "unify_chunks_expr")],
    "C22": [("dask/array/_reductions_generic.py", "reduction", "dask/array/_array_expr/_reductions.py", "reduction")],
    "C23": [("dask/array/rechunk.py", "_compute_rechunk", "dask/array/_array_expr/_rechunk.py", "_compute_rechunk")],
    "C20": [(SL, "slice_with_int_dask_array_on_axis", SLX, "slice_with_int_dask_array_on_axis"), (CO, "Array.__getitem__", COX, "Array.__getitem__")],
    "C25": [("dask/array/utils.py", "compute_meta", "dask/array/_array_expr/_utils.py", "compute_meta")],
}


def loose_for(*tags):
    out = []
    for t in tags:
        out.extend(LOOSE.get(t, []))
    return out


def all_loose():
    return [p for t in LOOSE for p in LOOSE[t]]
