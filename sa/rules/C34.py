"""C34 -- array creation routines are chunk-invariant and equal NumPy (narrow, structural).

Decided:
 ABS.arange      block i of arange covers start + elem_count*step .. start + (elem_count + bs)*step, with
                 elem_count the running sum of the previous block sizes (initialised to 0, advanced by bs
                 at the end of every iteration) -- consecutive blocks tile the range for every chunking;
                 the length is int(max(ceil((stop - start) / step), 0)) and the declared chunks are the
                 normalisation of the request against (num,)
 ABS.linspace    step = (stop - start) / (num - 1 if endpoint else num) (divisor guarded against 0); block
                 i starts where block i-1 ended (blockstart += step * bs) and stops bs-1 (endpoint) or bs
                 steps later
 DELEG.chunks    indices / eye / tri / fromfunction normalise the requested chunks against the shape they
                 declare
 TWIN.agree      empty_like / ones_like / zeros_like / full_like / full / array agree with the expression
                 engine's copies
Not decided: floating-point rounding of the block boundaries; diag/diagonal index arithmetic.
"""
from __future__ import annotations

import ast

from ..lib import *
from ..twin import check_pairs
from ._twins import pairs_for

EXPLANATION = (
    "Affine-loop rules for arange and linspace (block boundaries are affine in the running element count, which "
    "starts at 0 and advances by the block size), the length and step formulas, normalisation of requested "
    "chunks against the declared shape in indices/eye/tri/fromfunction, and twin agreement of the *_like "
    "helpers.  Floating-point rounding and the diag/diagonal arithmetic are NOT decided."
)
ASSUMPTIONS = ["chunk.arange(start, stop, step, length, dtype) / chunk.linspace produce the block between the boundaries they are given"]
CR = "dask/array/creation.py"


def check(ctx):
    mod = ctx.model.module(CR)
    ar = mod.func("arange")
    loops = [l for l in walk_no_nested(ar) if isinstance(l, ast.For) and eqv(l.iter, "enumerate(chunks[0])")]
    ctx.count("block_loops", len(loops))
    ok = len(loops) == 1 and eqv(loops[0].target, "(i, bs)")
    if ok:
        l = loops[0]
        ok = bool(find("blockstart = start + elem_count * step", l)) and bool(find("blockstop = start + (elem_count + bs) * step", l)) and eqv(l.body[-1], "elem_count += bs") and len(find("elem_count += M_x", l)) == 1
        init = find("elem_count = 0", ar)
        ok = ok and len(init) == 1 and dominates(ar, init[0][0], l) and not in_subtree(init[0][0], l)
    ctx.ob("ABS.arange.tiling", ar, "block i = [start + n_i*step, start + (n_i + bs)*step) with n_i the sum of the earlier block sizes (0 first, += bs last)", ok, "" if ok else "block boundaries are no longer affine in the running element count: blocks overlap, leave gaps or shift")
    ok = bool(find("num = int(max(np.ceil((stop - start) / step), 0))", ar))
    ctx.ob("ABS.arange.length", ar, "num = int(max(ceil((stop - start) / step), 0))", ok)
    ok = bool(find("chunks = normalize_chunks(chunks, (num,), dtype=dtype)", ar)) and any(eqv(r.value, "Array(dsk, name, chunks, dtype=dtype, meta=meta)") for r in returns(ar))
    ctx.ob("DELEG.chunks", ar, "arange: chunks normalised against (num,) and declared on the result", ok)
    tasks = [c for c in calls(ar, "Task")]
    ok = len(tasks) == 1 and [unparse(a) for a in tasks[0].args] == ["(name, i)", "partial(chunk.arange, like=meta)", "blockstart", "blockstop", "step", "bs", "dtype"]
    ctx.ob("ABS.arange.task", ar, "Task((name, i), chunk.arange, blockstart, blockstop, step, bs, dtype)", ok)
    swap = find("(start, stop) = (0, start)", ar) or find("start, stop = (0, start)", ar)
    ok = bool(swap) and any(eqv(e, "stop is None") and pol for e, pol in cfg_of(ar).facts(swap[0][0]))
    ctx.ob("ABS.arange.single-argument", ar, "arange(n) means arange(0, n)", ok)
    # ---------------- linspace
    ls = mod.func("linspace")
    ok = bool(find("div = num - 1 if endpoint else num", ls)) and bool(find("step = float(range_) / div", ls)) and bool(find("range_ = stop - start", ls)) and any(isinstance(n, ast.If) and eqv(n.test, "div == 0") and eqv(n.body[0], "div = 1") for n in walk_no_nested(ls))
    ctx.ob("ABS.linspace.step", ls, "step = (stop - start) / (num - 1 if endpoint else num), divisor 0 replaced by 1", ok)
    loops = [l for l in walk_no_nested(ls) if isinstance(l, ast.For) and eqv(l.iter, "enumerate(chunks[0])")]
    ok = len(loops) == 1
    if ok:
        l = loops[0]
        ok = bool(find("bs_space = bs - 1 if endpoint else bs", l)) and bool(find("blockstop = blockstart + bs_space * step", l)) and bool(find("blockstart = blockstart + step * bs", l)) and bool(find("blockstart = start", ls))
        adv = find("blockstart = blockstart + step * bs", l)
        tk = [c for c in calls(l, "Task")]
        ok = ok and len(tk) == 1 and adv and adv[0][0].lineno > tk[0].lineno and [unparse(a) for a in tk[0].args[2:]] == ["blockstart", "blockstop", "bs"]
    ctx.ob("ABS.linspace.tiling", ls, "block i starts where block i-1 ended (+ step*bs) and stops (bs-1 | bs) steps later", ok)
    ok = bool(find("chunks = normalize_chunks(chunks, (num,), dtype=dtype)", ls))
    ctx.ob("DELEG.chunks", ls, "linspace: chunks normalised against (num,)", ok)
    # ---------------- other creation functions normalise against the shape they declare
    for fn, pat in (("indices", "chunks = normalize_chunks(chunks, shape=dimensions, dtype=dtype)"), ("eye", "(vchunks, hchunks) = normalize_chunks(chunks, shape=(N, M), dtype=dtype)"), ("tri", "chunks = normalize_chunks(chunks, shape=(N, M), dtype=dtype)"), ("fromfunction", "chunks = normalize_chunks(chunks, shape, dtype=dtype)")):
        f = mod.func(fn)
        ok = bool(find(pat, f)) or bool(find(pat.replace("(vchunks, hchunks)", "vchunks, hchunks"), f))
        ctx.ob("DELEG.chunks", f, f"{fn}: {pat}", ok)
    ey = mod.func("eye")
    ok = (all("shape=(N, M)" in unparse(r.value) and "chunks=(vchunks, hchunks)" in unparse(r.value) for r in returns(ey)) and bool(returns(ey)))
    ctx.ob("DELEG.chunks.eye", ey, "eye declares shape (N, M) with the row and column chunks it generated blocks for", ok, "" if ok else "declaring one block size for both dimensions (the first row chunk) is wrong whenever N != M and the chunk size exceeds one of them")
    n = check_pairs(ctx, pairs_for("C34"))
    ctx.count("twin_pairs", n)
    ctx.floor("twin_pairs", 5)
    # ---------------- diag of a 2-d array: the block-diagonal shortcut needs SQUARE diagonal blocks
    dg = mod.func("diag")
    fast = [n for n in ast.walk(dg) if isinstance(n, ast.If) and unparse(n.test).startswith("k == 0 and ")]
    ok = len(fast) == 1 and eqv(fast[0].test, "k == 0 and v.chunks[0] == v.chunks[1]") and any(unparse(r.value).startswith("Array(graph, name, (v.chunks[0],)") for r in returns(fast[0]))
    ctx.ob("ALG.diag.square-blocks", dg, "np.diag per diagonal block only when row and column chunks are identical; otherwise diagonal(v, k)", ok, "" if ok else "np.diag of a non-square block (i,i) does not hold the main-diagonal elements that fall into blocks (i,j), j != i")
    # ---------------- fromfunction: func receives full coordinate grids like np.fromfunction
    ff = mod.func("fromfunction")
    mg = [c for c in calls(ff, "meshgrid")]
    ok = len(mg) == 1 and kwarg(mg[0], "indexing") is not None and unparse(kwarg(mg[0], "indexing")) == "'ij'" and (kwarg(mg[0], "sparse") is None or unparse(kwarg(mg[0], "sparse")) == "False")
    ctx.ob("ALG.fromfunction.dense-grids", ff, "coordinate arrays come from a dense meshgrid(..., indexing='ij')", ok, "" if ok else "sparse grids have extent 1 on the other axes: a func that does not use every coordinate returns blocks of the wrong shape")
    # ---------------- eye: every block gets the diagonal that passes through it, from the block's own position
    ey = mod.func("eye")
    ok = bool(find("block_k = k - (col - row)", ey)) and bool(find("col += hchunk", ey)) and bool(find("row += vchunk", ey))
    conds = [n for n in ast.walk(ey) if isinstance(n, ast.If) and "block_k" in unparse(n.test)]
    ok = ok and len(conds) == 1 and eqv(conds[0].test, "-vchunk < block_k < hchunk") and bool(find("Task(key, np.eye, vchunk, hchunk, block_k, dtype)", conds[0])) and bool(find("Task(key, np.zeros, (vchunk, hchunk), dtype)", conds[0]))
    ctx.ob("ALG.eye.block-diagonal", ey, "block (i, j) starting at (row, col) holds diagonal k - (col - row) iff -rows < that < columns; else zeros", ok, "" if ok else "a block that the k-th diagonal crosses is filled with zeros (or gets the wrong diagonal): ones are lost for ragged edge blocks / k != 0")
    ok = (all(eqv(kwarg(c, "chunks"), "(vchunks, hchunks)") for r in returns(ey) for c in [r.value] if isinstance(c, ast.Call)) and bool(returns(ey)))
    ctx.ob("ALG.eye.declared-chunks", ey, "eye declares chunks=(vchunks, hchunks), the chunks its blocks were built for", ok, "" if ok else "declared chunks differ from the generated blocks: Missing dependency / wrong block shapes when N != M")


VARIANTS = [
    (CR, "        blockstop = start + (elem_count + bs) * step\n", "        blockstop = start + (elem_count + bs - 1) * step\n", "ABS.arange.tiling"),
    (CR, "        dsk[task.key] = task\n        elem_count += bs\n", "        elem_count += bs\n        dsk[task.key] = task\n", "ABS.arange.tiling"),
    (CR, "    div = (num - 1) if endpoint else num", "    div = num if endpoint else (num - 1)", "ABS.linspace.step"),
    (CR, "        blockstart = blockstart + (step * bs)", "        blockstart = blockstop", "ABS.linspace.tiling"),
    (CR, "    num = int(max(np.ceil((stop - start) / step), 0))", "    num = int(max(np.floor((stop - start) / step), 0))", "ABS.arange.length"),
]


def selftest(ctx):
    from ..variants import selftest as st

    return st(ctx, "C34", VARIANTS)
