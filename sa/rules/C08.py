"""C08 -- task-spec conversion and execution preserve the graph's meaning (partial).

Decided:
 SIB.extract-convert   every container kind the legacy dependency extractor (core.keys_in_tasks)
                       descends into is converted elementwise by convert_legacy_task
 SIB.init-call         Task.__init__ collects dependencies from, and Task.__call__ substitutes values
                       into, the same positions (args and kwargs values) and the same kinds
                       (TaskRef, GraphNode)
 TAB.pickle            __getstate__/__setstate__ walk the same slot list; `_dependencies` is a slot of
                       every node; nodes with __reduce__ rebuild through their constructor;
                       NestedContainer drops and restores exactly the `constructor` kwarg, on a copy
 DOM.key-reference     a legacy value becomes a reference only if it is in all_keys
"""
from __future__ import annotations

import ast

from ..lib import *

EXPLANATION = (
    "Sibling-agreement rules between the legacy dependency extractor and the legacy converter (container "
    "kinds traversed), between Task.__init__ and Task.__call__ (positions and node kinds), and between "
    "__getstate__ and __setstate__ (slot list), plus typed-construction checks for convert_legacy_graph.  "
    "Value equality on generated graphs is NOT decided."
)
ASSUMPTIONS = ["Python pickling protocol (__reduce__/__getstate__/__setstate__)"]
TS = "dask/_task_spec.py"
CORE = "dask/core.py"


def _typ_kinds(func, var="typ"):
    kinds = set()
    for n in walk_no_nested(func):
        if isinstance(n, ast.Compare) and len(n.ops) == 1 and isinstance(n.ops[0], ast.Is) and unparse(n.left) == var:
            kinds.add(unparse(n.comparators[0]))
    return kinds

EXTRACT_PROJECTION = {"task": "w[1:]", "list": "w", "dict": "w.values()", "GraphNode": "w.dependencies", "TaskRef": "w.key"}


def extractor_kinds(ctx, kit):
    """Container kinds core.keys_in_tasks descends into, and what it descends into for each.
    Also records one obligation per kind: the projection must be the one that holds the nested
    values (a dict's *values*, a task's arguments w[1:], a node's dependencies)."""
    ext = {}
    for n in walk_no_nested(kit):
        if isinstance(n, ast.If):
            body_calls = [c for c in calls(ast.Module(body=n.body, type_ignores=[])) if isinstance(c.func, ast.Attribute) and c.func.attr in ("extend", "append") and eqv(c.func.value, "work")]
            if not body_calls:
                continue
            arg = unparse(body_calls[0].args[0])
            tests = n.test.values if isinstance(n.test, ast.BoolOp) and isinstance(n.test.op, ast.Or) else [n.test]
            for t in tests:
                txt = unparse(t)
                kind = None
                if "typ is tuple" in txt and "callable" in txt:
                    kind = "task"
                elif txt == "typ is list":
                    kind = "list"
                elif txt == "typ is dict":
                    kind = "dict"
                elif "isinstance(w, GraphNode)" in txt:
                    kind = "GraphNode"
                elif "isinstance(w, TaskRef)" in txt:
                    kind = "TaskRef"
                else:
                    kind = txt
                ext[kind] = arg
                want = EXTRACT_PROJECTION.get(kind)
                if want is not None:
                    ok = arg == want
                    ctx.ob("SIB.extract.projection", n, f"keys_in_tasks: {kind} -> descends into {want}", ok, "" if ok else f"descends into `{arg}`: keys nested in a {kind} are not reported as dependencies (cull drops them, the converter still evaluates them)")
    ctx._extractor_kinds = dict(ext)
    ctx.count("extractor_kinds", len(ext))
    ctx.floor("extractor_kinds", 4, "container kinds keys_in_tasks descends into")
    # membership test for leaves
    leaf = [r for r in find("ret.append(w)", kit)]
    ok = bool(leaf) and has_fact(inline_facts(kit, leaf[0][0]), "w in keys", True) is not None
    ctx.ob("SIB.extract.leaf", kit, "a leaf is a dependency iff it is in keys", ok)
    return ext


def converter_only_kinds(ctx, model):
    """Container kinds the converter evaluates elementwise but the legacy extractor (and therefore
    legacy cull/fuse, which multiprocessing.get applies before conversion) does not look into."""
    ts = model.module(TS)
    conv = ts.func("convert_legacy_task")
    ext = getattr(ctx, "_extractor_kinds", {})
    for n in conv.body:
        if isinstance(n, ast.If) and "isinstance(task," in unparse(n.test) and "list" in unparse(n.test):
            m = Pat("isinstance(task, M_t)").match(n.test)
            kinds = [unparse(e) for e in m["M_t"].elts] if m and isinstance(m["M_t"], ast.Tuple) else []
            for k in kinds:
                ok = k in ext or (k == "tuple" and False)
                ctx.ob(
                    "SIB.convert-extract",
                    n,
                    f"converter evaluates `{k}` elementwise; extractor descends into `{k}`",
                    ok,
                    "" if ok else f"keys nested in a plain {k} are evaluated by the converter (sync/threaded) but invisible to keys_in_tasks/subs: multiprocessing.get, which culls and fuses the legacy graph first, returns them unevaluated",
                )


def converter_dict_subclasses(ctx):
    """TAB.convert.dict-isinstance (C08, C02, C01): the legacy converter recognises dict ARGUMENTS with isinstance,
    so that OrderedDict/defaultdict arguments have the keys in their values resolved like plain dicts."""
    f = ctx.model.module("dask/_task_spec.py").func("convert_legacy_task")
    loops = [l for l in ast.walk(f) if isinstance(l, ast.For) and eqv(l.iter, "args")]
    tests = [n for l in loops for n in ast.walk(l) if isinstance(n, ast.If) and "dict" in unparse(n.test) and any(isinstance(c, ast.Call) and call_name(c) == "Dict" for c in ast.walk(n))]
    ok = len(tests) == 1 and eqv(tests[0].test, "isinstance(a, dict)")
    ctx.ob("TAB.convert.dict-isinstance", f, "convert_legacy_task: `isinstance(a, dict)` selects the Dict(...) conversion of an argument", ok, "" if ok else "a dict subclass argument is passed through unconverted: the task no longer depends on the keys in its values, starts before they exist and receives the literal key strings")


def converter_unhashable(ctx):
    """EXC.convert.unhashable-falls-through (C08, C01): a task that cannot be hashed is not a key, but it may still
    CONTAIN keys: the TypeError handler of the key probe must fall through to the container conversion."""
    f = ctx.model.module("dask/_task_spec.py").func("convert_legacy_task")
    hs = [h for t in ast.walk(f) if isinstance(t, ast.Try) for h in t.handlers if h.type is not None and eqv(h.type, "TypeError")]
    ok = len(hs) == 1 and len(hs[0].body) == 1 and isinstance(hs[0].body[0], ast.Pass)
    ctx.ob("EXC.convert.unhashable-falls-through", f, "`except TypeError: pass` -- an unhashable tuple/list continues to the element-wise conversion", ok, "" if ok else "a tuple holding an unhashable literal is returned verbatim: keys and nested tasks inside it are never substituted")


def check(ctx):
    converter_dict_subclasses(ctx)
    converter_unhashable(ctx)
    model = ctx.model
    ts = model.module(TS)
    core = model.module(CORE)
    kit = core.func("keys_in_tasks")
    conv = ts.func("convert_legacy_task")

    # ---------------- extractor kinds
    ext = extractor_kinds(ctx, kit)
    # ---------------- converter kinds
    task_if = [n for n in conv.body if isinstance(n, ast.If) and "callable(task[0])" in unparse(n.test)]
    if not task_if:
        raise AnchorMissing("convert_legacy_task: task-tuple branch not found")
    task_if = task_if[0]
    rec = "convert_legacy_task"

    def converts_elementwise(node, elem_src: str) -> bool:
        """node contains a comprehension/loop over elem_src whose element goes through convert_legacy_task"""
        for c in ast.walk(node):
            if isinstance(c, (ast.GeneratorExp, ast.ListComp, ast.DictComp, ast.SetComp)):
                for gen in c.generators:
                    if elem_src in unparse(gen.iter):
                        tnames = {x.id for x in ast.walk(gen.target) if isinstance(x, ast.Name)}
                        elt = c.value if isinstance(c, ast.DictComp) else c.elt
                        for k in ast.walk(elt):
                            if isinstance(k, ast.Call) and call_name(k) == rec and any(isinstance(a, ast.Name) and a.id in tnames for a in k.args):
                                return True
            if isinstance(c, ast.For) and elem_src in unparse(c.iter):
                tnames = {x.id for x in ast.walk(c.target) if isinstance(x, ast.Name)}
                for k in ast.walk(c):
                    if isinstance(k, ast.Call) and call_name(k) == rec and any(isinstance(a, ast.Name) and a.id in tnames for a in k.args):
                        return True
        return False

    for kind, arg in sorted(ext.items()):
        if kind == "task":
            ok = converts_elementwise(task_if, "args") or converts_elementwise(task_if, "task[1:]")
            ctx.ob("SIB.extract-convert", task_if, "task tuple: extractor descends into w[1:]; converter converts every argument", ok)
        elif kind == "list":
            lst = [n for n in conv.body if isinstance(n, ast.If) and "isinstance(task," in unparse(n.test) and "list" in unparse(n.test)]
            ok = bool(lst) and converts_elementwise(lst[0], "task")
            ctx.ob("SIB.extract-convert", lst[0] if lst else conv, "list: extractor descends into elements; converter converts each element", ok)
        elif kind == "dict":
            # a dict can occur (1) as a task argument, handled in the argument loop
            dif = [n for n in ast.walk(task_if) if isinstance(n, ast.If) and eqv(n.test, "isinstance(a, dict)")]
            ok = False
            detail = "no dict branch in the argument loop"
            if dif:
                body = ast.Module(body=dif[0].body, type_ignores=[])
                ok = converts_elementwise(body, "a.items()") or converts_elementwise(body, "a.values()")
                detail = "" if ok else "dict argument is wrapped without converting its values: keys referenced inside it are reported as dependencies (keys_in_tasks descends into w.values()) but never substituted"
                # ... and ONLY the values: the extractor does not look at dict keys, so a dict key that
                # happens to equal a graph key must stay a literal
                dcs = [d for d in ast.walk(body) if isinstance(d, ast.DictComp)]
                vals_only = any(
                    len(d.generators) == 1
                    and eqv(d.generators[0].iter, "a.items()")
                    and isinstance(d.generators[0].target, ast.Tuple)
                    and isinstance(d.key, ast.Name)
                    and d.key.id == unparse(d.generators[0].target.elts[0])
                    and isinstance(d.value, ast.Call)
                    and call_name(d.value) == rec
                    and any(unparse(x) == unparse(d.generators[0].target.elts[1]) for x in d.value.args)
                    for d in dcs
                )
                if ok:
                    ctx.ob("SIB.extract-convert.dict-values-only", dif[0], "dict argument: values are converted, keys stay literal ({k: convert(v) for k, v in a.items()})", vals_only, "" if vals_only else "dict keys are converted as well: a label equal to a graph key becomes a reference (and a dependency the extractor never reports)")
            ctx.ob("SIB.extract-convert", dif[0] if dif else task_if, "dict argument: extractor descends into values; converter converts each value", ok, detail)
        elif kind in ("GraphNode", "TaskRef"):
            ok = kind == "TaskRef" or any(isinstance(n, ast.If) and eqv(n.test, "isinstance(task, GraphNode)") and any(isinstance(x, ast.Return) and eqv(x.value, "task") for x in n.body) for n in conv.body)
            ctx.ob("SIB.extract-convert", conv, f"{kind}: passed through unchanged", ok, nontrivial=False)
        else:
            ctx.ob("SIB.extract-convert", kit, f"extractor kind `{kind}`", None, "unknown container kind in keys_in_tasks")
    converter_only_kinds(ctx, model)
    # task construction
    mk = [c for c in calls(task_if, "Task", nested=False)]
    ok = len(mk) == 1 and Pat("Task(key, func, *new_args)").match(mk[0]) is not None
    ctx.ob("TYPED.convert.task", task_if, "return Task(key, func, *new_args)", ok)
    fa = find("func, args = task[0], task[1:]", task_if)
    ctx.ob("TYPED.convert.split", task_if, "func, args = task[0], task[1:]", bool(fa))
    # key references
    als = [c for c in calls(conv, "Alias", nested=False)]
    nref = 0
    for c in als:
        facts = inline_facts(conv, c)
        if has_fact(facts, "M_f(task)", True) is not None and any("_is_dask_future" in unparse(e) for e, p in facts):
            continue
        nref += 1
        ok = has_fact(facts, "task in all_keys", True) is not None
        ctx.ob("DOM.key-reference", c, "Alias(...) only if task in all_keys", ok, "" if ok else "guards: " + "; ".join(fact_strs(facts)))
        ok2 = any(Pat("isinstance(task, (int, float, str, tuple))").match(e) is not None and p for e, p in facts)
        ctx.ob("DOM.key-reference.types", c, "only int/float/str/tuple values can be references", ok2)
    ctx.count("alias_sites", nref)
    ctx.floor("alias_sites", 2)
    # convert_legacy_graph
    clg = ts.func("convert_legacy_graph")
    st = find("new_dsk[k] = t", clg, nested=False)
    okw = any(Pat("DataNode(k, t)").match(b["M_v"]) is not None and has_fact(inline_facts(clg, n), "isinstance(t, GraphNode)", False) is not None for n, b in find("t = M_v", clg, nested=False))
    ctx.ob("TYPED.convert-graph.wrap", clg, "non-node values are wrapped as DataNode(k, t)", okw and bool(st))
    okc = any(Pat("convert_legacy_task(k, arg, all_keys)").match(b["M_v"]) is not None for n, b in find("t = M_v", clg, nested=False))
    loops = [l for l in walk_no_nested(clg) if isinstance(l, ast.For) and eqv(l.iter, "dsk.items()") and eqv(l.target, "(k, arg)")]
    ctx.ob("TYPED.convert-graph.each-key", clg, "for k, arg in dsk.items(): t = convert_legacy_task(k, arg, all_keys)", okc and bool(loops))
    skip = [n for n in walk_no_nested(clg) if isinstance(n, ast.If) and "isinstance(t, Alias)" in unparse(n.test)]
    ok = bool(skip) and "t.target == k" in unparse(skip[0].test)
    ctx.ob("DOM.convert-graph.self-alias", clg, "only a self-alias (target == key) is dropped", ok)

    # ---------------- optional key parameters: 0, 0.0 and '' are legal keys, so "not given" must be
    #                  tested with `is None`, never by truthiness
    n_def = 0
    for qn, cn in ts.classes():
        ci_ = model.classinfo(ts, cn)
        init_ = ci_.own_methods.get("__init__")
        if init_ is None:
            continue
        for asg_, p_, by_none, by_truth, raw in none_default_rebinds(init_):
            if not (by_none or by_truth):
                continue  # a normalisation (isinstance(...) branches), not a default substitution
            n_def += 1
            ctx.ob("DOM.none-default", asg_, f"{ci_.name}.__init__: `{p_}` defaults only when it is None", by_none and not by_truth, "" if by_none and not by_truth else f"`{p_}` is replaced whenever it is falsy: the legal keys 0, 0.0 and '' are treated as 'not given'")
    ctx.count("none_default_rebinds", n_def)
    ctx.floor("none_default_rebinds", 1)
    # ---------------- Task.__init__ vs __call__
    task = model.klass(TS, "Task")
    init = task.own_methods["__init__"]
    call = task.own_methods["__call__"]
    dep_loops = [l for l in walk_no_nested(init) if isinstance(l, ast.For) and "_dependencies" in unparse(l)]
    ok = bool(dep_loops) and Pat("itertools.chain(args, kwargs.values())").match(dep_loops[0].iter) is not None
    ctx.ob("SIB.init-call.positions", init, "dependencies are collected from chain(args, kwargs.values())", ok, "" if ok else f"iterates {unparse(dep_loops[0].iter) if dep_loops else '?'}")
    kinds_init = {}
    if dep_loops:
        for n in ast.walk(dep_loops[0]):
            if isinstance(n, ast.If):
                m = Pat("isinstance(a, M_t)").match(n.test) or (isinstance(n.test, ast.BoolOp) and Pat("isinstance(a, M_t)").match(n.test.values[0]))
                if m:
                    kinds_init[unparse(m["M_t"])] = n
    ok = set(kinds_init) == {"TaskRef", "GraphNode"}
    ctx.ob("SIB.init-call.kinds-init", init, "__init__ handles TaskRef and GraphNode arguments", ok, f"kinds {sorted(kinds_init)}")
    if "TaskRef" in kinds_init:
        n = kinds_init["TaskRef"]
        ok = all("a.key" in unparse(s) for s in ast.walk(n) if isinstance(s, (ast.Assign, ast.Expr)) and s in n.body + [x for i in n.body if isinstance(i, ast.If) for x in i.body + i.orelse])
        ctx.ob("SIB.init-call.taskref-key", n, "TaskRef contributes a.key", ok)
    if "GraphNode" in kinds_init:
        n = kinds_init["GraphNode"]
        inner = [s for i in n.body if isinstance(i, ast.If) for s in i.body + i.orelse]
        ok = bool(inner) and all("a.dependencies" in unparse(s) for s in inner)
        ctx.ob("SIB.init-call.node-deps", n, "nested GraphNode contributes a.dependencies", ok)
    fz = find("self._dependencies = frozenset(_dependencies)", init, nested=False)
    ctx.ob("SIB.init-call.store", init, "self._dependencies = frozenset(_dependencies)", bool(fz))
    ev = [f for f in ast.walk(call) if isinstance(f, ast.FunctionDef) and f.name == "_eval"]
    if not ev:
        raise AnchorMissing("Task.__call__._eval")
    ev = ev[0]
    kinds_call = {}
    for n in ast.walk(ev):
        if isinstance(n, ast.If):
            m = Pat("isinstance(a, M_t)").match(n.test)
            if m:
                kinds_call[unparse(m["M_t"])] = n
    ok = set(kinds_call) == set(kinds_init)
    ctx.ob("SIB.init-call.kinds-agree", call, "__call__ substitutes the same kinds __init__ collected", ok, f"init {sorted(kinds_init)} call {sorted(kinds_call)}")
    if "TaskRef" in kinds_call:
        ok = any(isinstance(r, ast.Return) and Pat("values[a.key]").match(r.value) is not None for r in kinds_call["TaskRef"].body)
        ctx.ob("SIB.init-call.taskref-value", kinds_call["TaskRef"], "TaskRef evaluates to values[a.key]", ok)
    if "GraphNode" in kinds_call:
        ok = any(isinstance(r, ast.Return) and Pat("a({k: values[k] for k in a.dependencies})").match(r.value) is not None for r in kinds_call["GraphNode"].body)
        ctx.ob("SIB.init-call.node-value", kinds_call["GraphNode"], "nested node evaluates on exactly its dependencies' values", ok)
    els = [r for r in ast.walk(ev) if isinstance(r, ast.Return) and eqv(r.value, "a")]
    ctx.ob("SIB.init-call.literal", ev, "anything else is a literal", bool(els))
    ok_args = bool(find("tuple([_eval(M_a) for M_a in self.args])", call)) or bool(find("tuple(_eval(M_a) for M_a in self.args)", call))
    ok_kw = bool(find("{k: _eval(kw) for k, kw in self.kwargs.items()}", call))
    ctx.ob("SIB.init-call.positions-call", call, "__call__ evaluates self.args and self.kwargs values", ok_args and ok_kw)
    rets = [r for r in returns(call)]
    ok = any(Pat("self.func(*new_argspec, **kwargs)").match(r.value) is not None for r in rets) and any(Pat("self.func(*new_argspec)").match(r.value) is not None for r in rets)
    ctx.ob("SIB.init-call.apply", call, "return self.func(*evaluated_args, **evaluated_kwargs)", ok)
    a1 = find("self.args = args", init, nested=False)
    a2 = find("self.kwargs = kwargs", init, nested=False)
    a3 = find("self.func = func", init, nested=False)
    ctx.ob("SIB.init-call.stores", init, "self.func/args/kwargs are the constructor arguments", bool(a1 and a2 and a3))

    # ---------------- pickling
    gs = task.own_methods.get("__getstate__")
    ss = task.own_methods.get("__setstate__")
    ok = gs is not None and ss is not None
    if ok:
        s1 = find("slots = self.__class__.get_all_slots()", gs, nested=False)
        s2 = find("slots = self.__class__.get_all_slots()", ss, nested=False)
        r1 = (all(Pat("tuple(getattr(self, sl) for sl in slots)").match(r.value) is not None for r in returns(gs)) and bool(returns(gs)))
        z = [l for l in walk_no_nested(ss) if isinstance(l, ast.For) and Pat("zip(slots, state)").match(l.iter) is not None and bool(find("setattr(self, sl, val)", l))]
        ok = bool(s1 and s2) and r1 and bool(z)
    ctx.ob("TAB.pickle.slots", task.node, "__getstate__ and __setstate__ iterate get_all_slots() in the same order", ok)
    gn = model.klass(TS, "GraphNode")
    ann = [st.target.id for st in gn.node.body if isinstance(st, ast.AnnAssign) and isinstance(st.target, ast.Name)]
    slots_decl = gn.own.get("__slots__")
    ok = "_dependencies" in ann and "key" in ann and slots_decl is not None and eqv(slots_decl, "tuple(__annotations__)")
    ctx.ob("TAB.pickle.dependencies-slot", gn.node, "`_dependencies` and `key` are slots of every GraphNode", ok)
    gas = gn.own_methods.get("get_all_slots")
    ok = gas is not None and any(isinstance(l, ast.For) and eqv(l.iter, "cls.mro()") for l in walk_no_nested(gas)) and (all(Pat("sorted(set(slots))").match(r.value) is not None for r in returns(gas)) and bool(returns(gas)))
    ctx.ob("TAB.pickle.all-slots", gas or gn.node, "get_all_slots unions __slots__ over the MRO, deterministically ordered", ok)
    nsub = 0
    for ci in model.subclasses(gn, "dask/_task_spec"):
        pass
    for qn, cn in ts.classes():
        ci = model.classinfo(ts, cn)
        if gn not in ci.mro or ci is gn:
            continue
        nsub += 1
        red = ci.own_methods.get("__reduce__")
        if red is not None:
            init_ = ci.own_methods.get("__init__")
            params = [a.arg for a in init_.args.args[1:]] if init_ else []
            ok = False
            for r in returns(red):
                v = r.value
                if isinstance(v, ast.Tuple) and len(v.elts) == 2 and unparse(v.elts[0]) == ci.name and isinstance(v.elts[1], ast.Tuple):
                    got = [unparse(e) for e in v.elts[1].elts]
                    ok = got == [f"self.{p}" for p in params]
            ctx.ob("TAB.pickle.reduce", red, f"{ci.name}.__reduce__ rebuilds through {ci.name}({', '.join(params)})", ok)
    ctx.count("graphnode_subclasses", nsub)
    ctx.floor("graphnode_subclasses", 7)
    nc = model.klass(TS, "NestedContainer")
    g1 = nc.own_methods.get("__getstate__")
    g2 = nc.own_methods.get("__setstate__")
    ok = False
    if g1 is not None and g2 is not None:
        pops = find("state[ix].pop('constructor', None)", g1, nested=False)
        cps = find("state[ix] = state[ix].copy()", g1, nested=False)
        ixs = find("ix = slots.index('kwargs')", g1, nested=False)
        rest = find("self.kwargs['constructor'] = self.__class__.constructor", g2, nested=False)
        sup = find("super().__setstate__(state)", g2, nested=False)
        ok = bool(pops and cps and ixs and rest and sup) and dominates(g1, cps[0][0], pops[0][0]) and dominates(g2, sup[0][0], rest[0][0])
    ctx.ob("TAB.pickle.nested-constructor", nc.node, "NestedContainer: pop 'constructor' from a copy of kwargs; restore it after super().__setstate__", ok)
    # ---------------- every value of a legacy graph goes through convert_legacy_task with the full key set
    clg = ts.func("convert_legacy_graph") if "ts" in dir() else ctx.model.module("dask/_task_spec.py").func("convert_legacy_graph")
    loops_ = [l for l in walk_no_nested(clg) if isinstance(l, ast.For) and eqv(l.iter, "dsk.items()")]
    ok = len(loops_) == 1
    if ok:
        l_ = loops_[0]
        first = l_.body[0]
        ok = eqv(first, "t = convert_legacy_task(k, arg, all_keys)") and eqv(l_.target, "(k, arg)")
    ctx.ob("MPT.convert-all-values", clg, "convert_legacy_graph: the first thing done with every (k, arg) is convert_legacy_task(k, arg, all_keys) -- no value bypasses the conversion", ok, "" if ok else "some values are wrapped without conversion: a literal that equals a graph key (e.g. the number 0 when 0 is a key) is no longer a reference and the node reports no dependency")
    ok = bool(find("all_keys = set(dsk)", clg)) and any(eqv(e, "all_keys is None") and pol for a_ in [x for x, _ in find("all_keys = set(dsk)", clg)] for e, pol in cfg_of(clg).facts(a_))
    ctx.ob("MPT.convert-all-values.default-keys", clg, "all_keys defaults to the graph's own keys only when not given", ok)
    cg = ctx.model.module("dask/core.py").func("get")
    cc = [c for c in calls(cg, "convert_legacy_graph")]
    ok = len(cc) == 1 and unparse(kwarg(cc[0], "all_keys")) == "set(dsk) | set(cache)"
    ctx.ob("DELEG.core-get.cache-keys", cg, "core.get converts with all_keys = keys of the graph and of the supplied cache", ok, "" if ok else "keys that only exist in the cache argument are not recognised as keys: references to them are passed as literals")
    # ---------------- container nodes rebuild the container type they stand for
    ts8 = ctx.model.module("dask/_task_spec.py")
    for cname, typ in (("List", "list"), ("Tuple", "tuple"), ("Set", "set")):
        c_ = ts8.cls(cname)
        vals = {}
        for st in c_.body:
            if isinstance(st, ast.Assign):
                for tg in st.targets:
                    if isinstance(tg, ast.Name) and tg.id in ("constructor", "klass"):
                        vals[tg.id] = unparse(st.value)
        ok = vals.get("constructor") == typ and vals.get("klass") == typ
        ctx.ob("TAB.containers.constructor", c_, f"{cname}: constructor = klass = {typ}", ok, "" if ok else f"{cname} nodes evaluate to {vals.get('constructor')}: equal under == for some types (frozenset == set) but a different type for the consumer")


VARIANTS = [
    (TS, "                new = Dict(\n                    {k: convert_legacy_task(None, v, all_keys) for k, v in a.items()}\n                )", "                new = Dict(a)", "SIB.extract-convert"),
    (TS, "        for a in itertools.chain(args, kwargs.values()):", "        for a in args:", "SIB.init-call.positions"),
    (TS, "            elif isinstance(a, TaskRef):\n                return values[a.key]", "            elif isinstance(a, Alias):\n                return values[a.key]", "SIB.init-call.kinds-agree"),
    (TS, "                return a({k: values[k] for k in a.dependencies})", "                return a(values)", "SIB.init-call.node-value"),
    (TS, "        for sl, val in zip(slots, state):", "        for sl, val in zip(reversed(slots), state):", "TAB.pickle.slots"),
    (TS, "        state[ix] = state[ix].copy()\n", "", "TAB.pickle.nested-constructor"),
    (TS, "        return Alias, (self.key, self.target)", "        return Alias, (self.target, self.key)", "TAB.pickle.reduce"),
    (TS, "            if task in all_keys:\n", "            if True:\n", "DOM.key-reference"),
    (TS, "        if target is None:\n            target = key", "        if not target:\n            target = key", "DOM.none-default"),
    (TS, "{k: convert_legacy_task(None, v, all_keys) for k, v in a.items()}", "{convert_legacy_task(None, k, all_keys): convert_legacy_task(None, v, all_keys) for k, v in a.items()}", "dict-values-only"),
    (TS, "        elif not isinstance(t, GraphNode):\n            t = DataNode(k, t)", "        elif not isinstance(t, GraphNode):\n            t = t", "TYPED.convert-graph.wrap"),
    (TS, "            parsed_args = tuple(convert_legacy_task(None, t, all_keys) for t in task)", "            parsed_args = tuple(task)", "SIB.extract-convert"),
    (CORE, "            elif typ is list:\n                work.extend(w)\n            elif typ is dict:\n                work.extend(w.values())", "            elif typ is list or typ is dict:\n                work.extend(w)", "SIB.extract.projection"),
    (CORE, "                work.extend(w[1:])", "                work.extend(w[2:])", "SIB.extract.projection"),
]


def selftest(ctx):
    from ..variants import selftest as st

    return st(ctx, "C08", VARIANTS)
