"""Partitioning claims of dataframe expressions (shared by C36, C38, C39, C40).

`expr.unique_partition_mapping_columns_from_shuffle` is a set whose elements are either a column name
or a tuple of column names: "rows are mapped to partitions by a hash of these columns".  Merges,
groupby-apply and drop_duplicates skip their shuffle when the input makes a suitable claim, so a
claim that is kept, or matched, wrongly loses or duplicates rows silently.

 CLAIM.typed-element    an element of the claim set is iterated / turned into a set only where it is
                        known to be a tuple (isinstance guard in the same condition); a bare name must be
                        wrapped ({c}), never decomposed into its characters
 CLAIM.subset-direction `need_to_shuffle` may answer "no" only if the grouping/splitting columns are a
                        SUPERSET of the claimed columns (set(by) >= claim)
 CLAIM.assign-drops     Assign keeps a claim only if none of its columns is assigned to
"""
from __future__ import annotations

import ast

from ..lib import *

ATTR = "unique_partition_mapping_columns_from_shuffle"
FILES = ["_expr.py", "_groupby.py", "_merge.py", "_reductions.py", "_shuffle.py", "_repartition.py", "_concat.py", "_collection.py"]
BASE = "dask/dataframe/dask_expr/"


def _element_vars(f):
    """(variable name, node that binds it) for every loop/comprehension variable ranging over a claim set."""
    out = []
    for n in ast.walk(f):
        gens = []
        if isinstance(n, (ast.ListComp, ast.SetComp, ast.GeneratorExp, ast.DictComp)):
            gens = [(g.target, g.iter, n) for g in n.generators]
        elif isinstance(n, ast.For):
            gens = [(n.target, n.iter, n)]
        for tgt, it, scope in gens:
            if isinstance(tgt, ast.Name) and unparse(it).endswith("." + ATTR):
                out.append((tgt.id, scope))
    return out


def _guarded_tuple(use, var, scope) -> bool:
    """`use` (an expression decomposing `var`) sits where isinstance(var, tuple) is known to hold."""
    want = f"isinstance({var}, tuple)"
    child = use
    p = getattr(use, "_parent", None)
    while p is not None and child is not scope:
        if isinstance(p, ast.IfExp):
            t = unparse(p.test)
            if child is p.body and t == want:
                return True
            if child is p.orelse and t == f"not {want}":
                return True
        if isinstance(p, ast.BoolOp) and isinstance(p.op, ast.And):
            idx = [i for i, v in enumerate(p.values) if v is child]
            if idx and any(unparse(v) == want for v in p.values[: idx[0]]):
                return True
        if isinstance(p, ast.If):
            t = unparse(p.test)
            if any(child is s for s in p.body) and t == want:
                return True
            if any(child is s for s in p.orelse) and t == f"not {want}":
                return True
        if isinstance(p, ast.comprehension):
            pass
        child = p
        p = getattr(p, "_parent", None)
    return False


def check_claims(ctx, floor_vars=8):
    model = ctx.model
    n_vars = 0
    for fn in FILES:
        rel = BASE + fn
        if not model.exists(rel):
            continue
        mod = model.module(rel)
        for qn, f in mod.functions():
            for var, scope in _element_vars(f):
                n_vars += 1
                bad = []
                for u in ast.walk(scope):
                    dec = None
                    if isinstance(u, ast.Call) and isinstance(u.func, ast.Name) and u.func.id in ("set", "list", "tuple", "sorted", "frozenset") and len(u.args) == 1 and isinstance(u.args[0], ast.Name) and u.args[0].id == var:
                        dec = u
                    elif isinstance(u, ast.comprehension) and isinstance(u.iter, ast.Name) and u.iter.id == var:
                        dec = u.iter
                    elif isinstance(u, ast.For) and isinstance(u.iter, ast.Name) and u.iter.id == var:
                        dec = u.iter
                    if dec is None:
                        continue
                    # a comprehension's own `for t in var` is judged at the comprehension expression
                    probe = dec
                    if isinstance(u, ast.comprehension):
                        probe = u._parent if hasattr(u, "_parent") else dec
                    if not _guarded_tuple(probe, var, scope):
                        bad.append(unparse(u if not isinstance(u, ast.comprehension) else probe)[:60])
                ctx.ob(
                    "CLAIM.typed-element",
                    scope,
                    f"{qn}: claim element `{var}` (a column name or a tuple of names) is decomposed only under isinstance({var}, tuple)",
                    not bad,
                    "" if not bad else f"{bad}: a single column name is split into its characters -- claims on multi-character (or character-composed) column names are matched wrongly and a needed shuffle is skipped",
                )
    ctx.count("claim_element_variables", n_vars)
    ctx.floor("claim_element_variables", floor_vars, "loop variables ranging over unique_partition_mapping_columns_from_shuffle")
    # ---------------- subset direction in need_to_shuffle
    n_dir = 0
    for rel, cname in ((BASE + "_groupby.py", "GroupByApply"), (BASE + "_reductions.py", "ApplyConcatApply")):
        ci = model.klass(rel, cname)
        f = ci.own_methods.get("need_to_shuffle")
        if f is None:
            raise AnchorMissing(f"{cname}.need_to_shuffle")
        cmps = [c for c in ast.walk(f) if isinstance(c, (ast.Compare, ast.BinOp)) and unparse(c).startswith("set(") and any(v in unparse(c) for v, _ in _element_vars(f))]
        cmps = [c for c in cmps if isinstance(c, ast.Compare) or isinstance(c.op, (ast.BitAnd, ast.BitOr, ast.Sub))]
        n_dir += len(cmps)
        for c in cmps:
            var = _element_vars(f)[0][0]
            if isinstance(c, ast.Compare):
                left_has = var in unparse(c.left)
                op = c.ops[0]
                ok = (isinstance(op, ast.GtE) and not left_has) or (isinstance(op, ast.LtE) and left_has)
            else:
                ok = False
            ctx.ob("CLAIM.subset-direction", c, f"{cname}.need_to_shuffle: no shuffle only if the grouping columns are a superset of a claimed column set", ok, "" if ok else f"`{unparse(c)[:80]}`: being partitioned by (a, b) does not keep the groups of `a` alone in one partition (nor does a mere overlap): the shuffle is skipped and groups are split across partitions")
        rets = [r for r in returns(f) if const(r.value) is False]
        ok = bool(rets) and all(any(isinstance(getattr(r, "_parent", None), ast.If) and cmp_ in list(ast.walk(r._parent.test)) for cmp_ in cmps) for r in rets)
        ctx.ob("CLAIM.subset-direction.only-exit", f, f"{cname}.need_to_shuffle: the only `return False` is behind that test", ok)
    ctx.count("claim_subset_tests", n_dir)
    ctx.floor("claim_subset_tests", 2)
    # ---------------- Assign drops claims on assigned columns
    asg = model.klass(BASE + "_expr.py", "Assign").own_methods.get(ATTR)
    if asg is None:
        raise AnchorMissing("Assign." + ATTR)
    comps = [n for n in ast.walk(asg) if isinstance(n, ast.SetComp)]
    ok = len(comps) == 1 and len(comps[0].generators[0].ifs) == 1
    if ok:
        cond = comps[0].generators[0].ifs[0]
        v = comps[0].generators[0].target.id
        ok = unparse(cond) == f"not (set({v}) if isinstance({v}, tuple) else {{{v}}}).intersection(keys)" and bool(find("keys = set(self.keys)", asg))
    ctx.ob("CLAIM.assign-drops", asg, "Assign keeps a claim iff none of its columns (name or tuple of names) is assigned to", ok, "" if ok else "a claim on an overwritten column survives: a later merge/groupby on that column skips its shuffle (L.merge(R, on='key').assign(key=...).merge(T, on='key') loses rows)")
