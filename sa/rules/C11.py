"""C11 -- equal task nodes compute equal values.

Decided:
 ORD.container-token   inside the identity functions of nested-container nodes (resolved per concrete
                       class through the MRO) an order-destroying operation (sorted/set/frozenset)
                       is applied to element tokens only for unordered containers, and for dict
                       containers only to tokens of (key, value) *pairs*
 TOKFLOW.call-reads    every attribute a node's __call__ reads flows into the node's token
 SIB.eq-hash           __eq__ compares type and token; __hash__ hashes the same token
"""
from __future__ import annotations

import ast

from ..lib import *

EXPLANATION = (
    "Order-sensitivity and token-flow rules over dask/_task_spec.py: which order-destroying operations are "
    "applied to element tokens inside __dask_tokenize__ (per concrete container class, through the MRO), and "
    "whether every slot read by __call__ reaches the token that __eq__/__hash__ use.  Collision freedom of "
    "the hash itself is NOT decided (see C12)."
)
ASSUMPTIONS = ["dask.tokenize.tokenize is deterministic and injective on the values involved (C12)"]
TS = "dask/_task_spec.py"
ORDER_DESTROYING = {"sorted", "set", "frozenset"}


def _self_attrs(func, skip_methods=()):
    out = set()
    for n in ast.walk(func):
        if isinstance(n, ast.Attribute) and isinstance(n.value, ast.Name) and n.value.id == "self" and isinstance(n.ctx, ast.Load):
            out.add(n.attr)
    return out


def _closure_attrs(ci, meth_name, seen=None):
    """Data attributes read via self.X in method meth_name and the self-methods it calls (MRO-resolved)."""
    seen = seen if seen is not None else set()
    if meth_name in seen:
        return set()
    seen.add(meth_name)
    owner, m = ci.method(meth_name)
    if m is None:
        return set()
    attrs = set()
    for a in _self_attrs(m):
        o2, m2 = ci.method(a)
        if m2 is not None:
            # property or method: follow
            attrs |= _closure_attrs(ci, a, seen)
        else:
            attrs.add(a)
    return attrs


def check(ctx):
    model = ctx.model
    ts = model.module(TS)
    gn = model.klass(TS, "GraphNode")
    nc = model.klass(TS, "NestedContainer")
    containers = [model.classinfo(ts, cn) for qn, cn in ts.classes() if nc in model.classinfo(ts, cn).mro and model.classinfo(ts, cn) is not nc]
    ctx.count("container_classes", len(containers))
    ctx.floor("container_classes", 4)
    for ci in containers:
        _, klass = ci.lookup("klass")
        kname = unparse(klass) if klass is not None else None
        # identity functions: __dask_tokenize__ and the self-methods it calls
        todo = ["__dask_tokenize__"]
        seen = set()
        sites = 0
        while todo:
            mn = todo.pop()
            if mn in seen:
                continue
            seen.add(mn)
            owner, m = ci.method(mn)
            if m is None:
                continue
            for a in _self_attrs(m):
                o2, m2 = ci.method(a)
                if m2 is not None and a not in ("args", "kwargs"):
                    todo.append(a)
            for c in calls(m):
                nm = call_name(c)
                if nm in ORDER_DESTROYING and c.args:
                    sites += 1
                    arg = c.args[0]
                    src = unparse(arg)
                    over_pairs = "batched(self.args, 2" in src or "self.items()" in src or "zip(self.args[::2], self.args[1::2])" in src
                    over_elems = "self.args" in src and not over_pairs
                    if kname in ("set", "frozenset"):
                        ok, why = True, "unordered container"
                    elif kname == "dict":
                        ok = over_pairs and not over_elems
                        why = "sorted over (key, value) pair tokens" if ok else "order-destroying operation over the flat key/value tokens of a dict: the pairing is lost"
                    else:
                        ok = not (over_elems or over_pairs)
                        why = "" if ok else f"element order of a {kname} is part of its identity but the element tokens are passed through {nm}()"
                    ctx.ob("ORD.container-token", c, f"{ci.name} (klass={kname}): {nm}(...) in {owner.name}.{mn}", ok, why)
        # the element tokens must be there at all
        attrs = _closure_attrs(ci, "__dask_tokenize__")
        ok = "args" in attrs
        ctx.ob("TOKFLOW.container-elements", ci.node, f"{ci.name}: token covers self.args", ok)
        okk = "klass" in attrs or any(isinstance(x, ast.Call) and Pat("type(self).__name__").match(x) for x in [])
        owner, m = ci.method("__dask_tokenize__")
        has_type = m is not None and bool(find("type(self).__name__", m))
        ctx.ob("TOKFLOW.container-kind", ci.node, f"{ci.name}: token carries the container kind", has_type or "klass" in attrs)
    # ---- every node class: __call__ reads  <=  token reads
    n_nodes = 0
    for qn, cn in ts.classes():
        ci = model.classinfo(ts, cn)
        if gn not in ci.mro or ci is gn:
            continue
        oc, call = ci.method("__call__")
        ot, tok = ci.method("__dask_tokenize__")
        if call is None or tok is None or oc is gn:
            continue
        n_nodes += 1
        reads = _closure_attrs(ci, "__call__") - {"key", "_dependencies", "dependencies", "_verify_values"}
        if nc in ci.mro:
            # exception (one symbol wide): for nested containers `func` and `kwargs` are fixed by the
            # class -- NestedContainer.__init__ passes self.to_container and constructor=self.constructor --
            # and the class name is part of the token.  The shape of that call is checked here.
            init = nc.own_methods.get("__init__")
            fixed = init is not None and bool(find("super().__init__(None, self.to_container, *args, constructor=self.constructor, **kwargs)", init))
            ctx.ob("TOKFLOW.container-fixed-func", ci.node, f"{ci.name}: func/kwargs are class constants (to_container, constructor)", fixed, nontrivial=False)
            if fixed:
                reads -= {"func", "kwargs"}
        treads = _closure_attrs(ci, "__dask_tokenize__")
        # Alias: key is part of identity as well (two aliases of one target under different keys differ)
        missing = sorted(reads - treads)
        ctx.ob(
            "TOKFLOW.call-reads",
            cn,
            f"{ci.name}: attributes read by __call__ {sorted(reads)} all reach the token {sorted(treads)}",
            not missing,
            "" if not missing else f"__call__ depends on {missing} which the token ignores: nodes computing different values compare equal",
        )
    ctx.count("node_classes", n_nodes)
    ctx.floor("node_classes", 7)
    # ---- every tokenizer in the module tags its token with the node type: a reference to key k, an
    #      alias of k, a data node holding k and the literal k must all tokenize differently
    n_tok = 0
    for qn, cn in ts.classes():
        ci2 = model.classinfo(ts, cn)
        f = ci2.own_methods.get("__dask_tokenize__")
        if f is None:
            continue
        n_tok += 1
        rs = [r for r in ast.walk(f) if isinstance(r, ast.Return) and r.value is not None]
        ok = bool(rs)
        for r in rs:
            v = r.value
            tagged = isinstance(v, ast.Tuple) and v.elts and unparse(v.elts[0]) in ("type(self).__name__", f"'{ci2.name}'", "type(self)")
            delegated = isinstance(v, ast.Call) and unparse(v) in ("self._get_token()", "super().__dask_tokenize__()")
            if not (tagged or delegated):
                ok = False
        ctx.ob("TAB.type-tag", f, f"{ci2.name}.__dask_tokenize__ carries the node type", ok, "" if ok else f"returns {[unparse(r.value)[:50] for r in rs]}: the token of this node coincides with the token of the plain value it wraps")
    ctx.count("tokenizers_in_task_spec", n_tok)
    ctx.floor("tokenizers_in_task_spec", 4)
    # ---- eq / hash
    eq = gn.own_methods.get("__eq__")
    ok = eq is not None and bool(find("type(value) is not type(self)", eq)) and any(Pat("tokenize(self) == tokenize(value)").match(r.value) is not None for r in returns(eq))
    ctx.ob("SIB.eq-hash.eq", eq or gn.node, "GraphNode.__eq__: same type and same token", ok)
    task = model.klass(TS, "Task")
    h = task.own_methods.get("__hash__")
    ok = h is not None and (all(Pat("hash(self._get_token())").match(r.value) is not None for r in returns(h)) and bool(returns(h)))
    t2 = task.own_methods.get("__dask_tokenize__")
    ok = ok and t2 is not None and (all(Pat("self._get_token()").match(r.value) is not None for r in returns(t2)) and bool(returns(t2)))
    ctx.ob("SIB.eq-hash.hash", h or task.node, "Task.__hash__ and __dask_tokenize__ use the same token", ok)
    gt = task.own_methods.get("_get_token")
    ok = False
    if gt is not None:
        tk = [c for c in calls(gt, "tokenize")]
        ok = len(tk) == 1 and isinstance(tk[0].args[0], ast.Tuple) and [unparse(e) for e in tk[0].args[0].elts] == ["type(self).__name__", "self.func", "self.args", "self.kwargs"]
        # the cache is only filled from that computation
        asg = find("self._token = M_v", gt, nested=False)
        ok = ok and len(asg) == 1 and asg[0][1]["M_v"] is tk[0]
    ctx.ob("TOKFLOW.task-token", gt or task.node, "Task token = tokenize((type name, func, args, kwargs)), cached once", ok)
    # nobody else writes _token with a value other than None
    bad = []
    for qn, f in ts.functions():
        for n, b in find("M_o._token = M_v", f, nested=False):
            if const(b["M_v"]) is not None and f is not gt:
                bad.append(f"{qn}: {unparse(n)}")
    ctx.ob("OWN.task-token", ts.site(task.node), "only _get_token fills the token cache", not bad, "; ".join(bad))
    # node equality is token equality: the injectivity rules over dask/tokenize.py (C12) are part of it
    from . import C12

    C12.check(ctx)
    # ---------------- DataNode identity = a content token of its value (not the value's repr)
    dnt = ctx.model.module("dask/_task_spec.py").func("DataNode.__dask_tokenize__")
    ok = (all(eqv(r.value, "(type(self).__name__, tokenize(self.value))") for r in returns(dnt)) and bool(returns(dnt)))
    ctx.ob("INJ.datanode-token", dnt, "DataNode.__dask_tokenize__ = (type name, tokenize(self.value))", ok, "" if ok else "without a content hash the identity of a data node is the repr of its payload: arrays that differ past the printed digits, or in an elided middle, make equal nodes with different values")


VARIANTS = [
    (TS, "        return [tokenize(a) for a in self.args]", "        return sorted(tokenize(a) for a in self.args)", "ORD.container-token"),
    (TS, "        return sorted(tokenize(kv) for kv in batched(self.args, 2, strict=True))", "        return sorted(tokenize(a) for a in self.args)", "ORD.container-token"),
    (TS, "                self.func,\n                self.args,\n                self.kwargs,\n            )\n        )\n        return self._token", "                self.func,\n                self.args,\n            )\n        )\n        return self._token", "TOKFLOW"),
    (TS, "        return (type(self).__name__, self.key, self.target)", "        return (type(self).__name__, self.key)", "TOKFLOW.call-reads"),
    (TS, "        return (type(self).__name__, tokenize(self.value))", "        return (type(self).__name__, tokenize(self.typ))", "TOKFLOW.call-reads"),
    (TS, "        return hash(self._get_token())", "        return hash(self.key)", "SIB.eq-hash.hash"),
    (TS, "    def __reduce__(self):\n        return TaskRef, (self.key,)", "    def __dask_tokenize__(self):\n        return self.key\n\n    def __reduce__(self):\n        return TaskRef, (self.key,)", "TAB.type-tag"),
    (TS, "        if type(value) is not type(self):\n            return False\n\n        from dask.tokenize import tokenize", "        from dask.tokenize import tokenize", "SIB.eq-hash.eq"),
]


def selftest(ctx):
    from ..variants import selftest as st

    return st(ctx, "C11", VARIANTS)
