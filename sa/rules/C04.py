"""C04 -- a failing task surfaces its exception and the scheduler terminates cleanly.

Decided:
 MPT.finish-in-finally   the finish-callback loop is the `finally` of the try enclosing start
                         callbacks, state construction and the main loop, ranges over the started
                         callbacks and reports `not succeeded`; succeeded flips only as the last
                         statement of the try body
 MPT.failed-branch       from the `failed` outcome no path reaches the cache store / finish_task
                         without passing raise_exception or the local re-execution
 EXC.execute-task        task execution is under `except BaseException`, packed by pack_exception
 TAB.exc-pair            every pack_exception produces an (exception, traceback) pair and the main
                         loop unpacks exactly that pair into raise_exception
 SUB.remote-exception    the wrapper type has type(exc) among its bases
 EXC.shadow              a pack_exception fallback must not rebind the original exception
"""
from __future__ import annotations

import ast

from ..lib import *

EXPLANATION = (
    "Must-pass-through and exception-discipline rules over local.py, threaded.py and multiprocessing.py: "
    "finish callbacks sit in the finally of the scheduler's try and see `not succeeded`; a failed result "
    "can reach neither the cache nor finish_task; task execution is wrapped in a BaseException handler; "
    "the (exception, traceback) pair has the same arity and order at every producer and the consumer; "
    "remote exceptions subclass the original type.  Absence of hangs in real pools is NOT decided."
)
ASSUMPTIONS = ["executors deliver every submitted future's result or exception to its done-callback"]
LOCAL = "dask/local.py"


def check(ctx):
    model = ctx.model
    mod = model.module(LOCAL)
    ga = mod.func("get_async")
    g = cfg_of(ga)

    # ---- (a) finish loop in finally
    fin_calls = [c for c, b in find("finish(M_d, M_s, M_f)", ga, nested=False)]
    ctx.count("finish_dispatch_sites", len(fin_calls))
    ctx.floor("finish_dispatch_sites", 1)
    for c in fin_calls:
        loops = [l for l in enclosing_loops(c) if isinstance(l, ast.For)]
        t, part = try_of(loops[0] if loops else c)
        in_finally = t is not None and part == "finalbody"
        ctx.ob("MPT.finish-in-finally", c, "finish callbacks run in `finally`", in_finally, "" if in_finally else "finish callbacks are not in a finally block")
        if not in_finally:
            continue
        body_has = {
            "start callbacks": any(in_subtree(n, t) and try_of(n)[1] == "body" for n, _ in find("M_cb[0](dsk)", ga, nested=False)),
            "state construction": any(try_of_outer(c2, t) == "body" for c2 in calls(ga, "start_state_from_dask", nested=False)),
            "main loop": any(isinstance(n, ast.While) and try_of_outer(n, t) == "body" for n in walk_no_nested(ga)),
            "order": any(try_of_outer(c2, t) == "body" for c2 in calls(ga, "order", nested=False)),
        }
        missing = [k for k, v in body_has.items() if not v]
        ctx.ob("MPT.finish-covers", c, "the try guarded by the finish callbacks encloses start callbacks, order, state construction and the main loop", not missing, "" if not missing else "outside the try: " + ", ".join(missing))
        ok_iter = bool(loops) and eqv(loops[0].iter, "started_cbs")
        ctx.ob("MPT.finish-over-started", c, "for ... in started_cbs", ok_iter, "" if ok_iter else f"finish loop ranges over {unparse(loops[0].iter) if loops else '?'}")
        ok_flag = Pat("finish(dsk, state, not succeeded)").match(c) is not None
        ctx.ob("MPT.finish-flag", c, "finish(dsk, state, not succeeded)", ok_flag, "" if ok_flag else f"called as {unparse(c)}")
        # succeeded assignments
        asg = find("succeeded = M_v", ga, nested=False)
        vals = [(n, const(b["M_v"])) for n, b in asg]
        trues = [n for n, v in vals if v is True]
        falses = [n for n, v in vals if v is False]
        ok = len(vals) == 2 and len(trues) == 1 and len(falses) == 1 and t.body[-1] is trues[0] and g.dominates(g.node_of(falses[0]), g.node_of(t))
        ctx.ob("MPT.succeeded-last", t, "succeeded = False before try; succeeded = True as last statement of the try body", ok, "" if ok else f"assignments: {[(n.lineno, v) for n, v in vals]}")

    # ---- (b) failed branch
    stores = find("M_s['cache'][M_k] = M_v", ga, nested=False)
    fts = calls(ga, "finish_task", nested=False)
    nfail = 0
    for n in walk_no_nested(ga):
        if isinstance(n, ast.If) and eqv(n.test, "failed"):
            nfail += 1
            hdr = g.node_of(n)
            btrue = [s for s in g.succ[hdr] if g.nodes[s].kind == "branch" and g.nodes[s].label[2] is True]
            via = set()
            for c in calls(n, "raise_exception", nested=False):
                via.add(g.node_of(c))
            # local re-execution: task(data) where task = dsk[key]
            for c, b in find("M_t(M_d)", n, nested=False):
                tv = resolve(b["M_t"], c, ga)
                if Pat("dsk[M_k]").match(tv) is not None:
                    via.add(g.node_of(c))
            for tgt, what in [(s_[0], "cache store") for s_ in stores] + [(c, "finish_task") for c in fts]:
                ok = bool(btrue) and g.all_paths_pass(btrue[0], g.node_of(tgt), via)
                ctx.ob("MPT.failed-branch", n, f"failed => raise_exception | local re-run before {what}", ok, "" if ok else f"a failed result can reach the {what} without raising")
            # the pair
            un = find("M_a, M_b = loads(M_i)", n, nested=False)
            ok = False
            for u, ub in un:
                for c in calls(n, "raise_exception", nested=False):
                    if len(c.args) == 2 and same(c.args[0], ub["M_a"]) and same(c.args[1], ub["M_b"]):
                        ok = True
            ctx.ob("TAB.exc-pair.consumer", n, "exc, tb = loads(res_info); raise_exception(exc, tb)", ok, "" if ok else "exception/traceback pair is not passed on in order")
    ctx.count("failed_branches", nfail)
    ctx.floor("failed_branches", 1)
    # loop variable `failed` is the third component produced by execute_task
    et = mod.func("execute_task")
    rs = returns(et)
    ok = bool(rs) and all(isinstance(r.value, ast.Tuple) and len(r.value.elts) == 3 and eqv(r.value.elts[2], "failed") for r in rs)
    ctx.ob("TAB.failed-flag", et, "execute_task returns (key, result, failed)", ok)

    # ---- (c) execute_task exception discipline
    runs = [c for c, b in find("M_t(M_d)", et, nested=False) if Pat("M_a, M_b = loads(task_info)").find(et) and unparse(b["M_t"]) == "task"]
    ctx.count("task_run_sites", len(runs))
    ctx.floor("task_run_sites", 1)
    for c in runs:
        t, part = try_of(c)
        hs = [h for h in (t.handlers if t else []) if h.type is None or eqv(h.type, "BaseException")]
        ok = t is not None and part == "body" and bool(hs)
        ctx.ob("EXC.execute-task.catch-all", c, "task(data) under `except BaseException`", ok, "" if ok else "task execution is not protected by a BaseException handler")
        if ok:
            h = hs[0]
            pk = [k for k in calls(h, "pack_exception", nested=False)]
            okp = bool(pk) and h.name is not None and unparse(pk[0].args[0]) == h.name
            ctx.ob("EXC.execute-task.packs", h, "result = pack_exception(e, dumps)", okp)
            fl = [(n, const(b["M_v"])) for n, b in find("failed = M_v", et, nested=False)]
            okf = any(v is True and in_subtree(n, h) for n, v in fl) and all(v is False for n, v in fl if not in_subtree(n, h))
            ctx.ob("EXC.execute-task.flag", h, "failed = True only in the handler", okf)
    se = mod.get("SynchronousExecutor.submit")
    ok = False
    for t in [n for n in walk_no_nested(se) if isinstance(n, ast.Try)]:
        for h in t.handlers:
            if (h.type is None or eqv(h.type, "BaseException")) and h.name and find(f"M_f.set_exception({h.name})", h):
                ok = True
    ctx.ob("EXC.sync-executor", se, "except BaseException as e: fut.set_exception(e)", ok)

    # ---- (d) producers of the pair
    prods = [("dask/threaded.py", "pack_exception"), ("dask/multiprocessing.py", "pack_exception"), (LOCAL, "default_pack_exception")]
    for rel, fn in prods:
        f = model.module(rel).func(fn)
        p0 = f.args.args[0].arg
        rs = returns(f)
        if not rs:
            ok = any(isinstance(n, ast.Raise) and n.exc is not None and unparse(n.exc) == p0 for n in walk_no_nested(f))
            ctx.ob("TAB.exc-pair.producer", f, f"{fn}: re-raises the exception", ok)
            continue
        for r in rs:
            v = resolve(r.value, r, f)
            if isinstance(v, ast.Call) and call_name(v) == "dumps" and v.args:
                v = v.args[0]
            vals = [v]
            if isinstance(r.value, ast.Name):
                vals = []
                for name, val, st in reaching_of(f).reaching(r, r.value.id):
                    if isinstance(val, ast.Call) and call_name(val) == "dumps" and val.args:
                        vals.append(val.args[0])
                    else:
                        vals.append(val)
            ok = bool(vals) and all(isinstance(x, ast.Tuple) and len(x.elts) == 2 for x in vals)
            ctx.ob("TAB.exc-pair.producer", r, f"{fn} yields an (exception, traceback) pair", ok, "" if ok else f"yields {[unparse(x)[:40] if isinstance(x, ast.AST) else x for x in vals]}")
            # first component must be the *original* exception (the parameter, not rebound)
            for x in vals:
                if isinstance(x, ast.Tuple) and len(x.elts) == 2:
                    st = enclosing_stmt(x) if hasattr(x, "_parent") else r
                    first = x.elts[0]
                    orig = isinstance(first, ast.Name) and first.id == p0 and reaching_of(f).is_param(st, p0)
                    h_ = None
                    n_ = st
                    while n_ is not None and not isinstance(n_, ast.ExceptHandler):
                        n_ = getattr(n_, "_parent", None)
                    where = "fallback handler" if n_ is not None else "main path"
                    ctx.ob(
                        "EXC.shadow.original-exception",
                        st,
                        f"{fn} ({where}): first component is the original exception `{p0}`",
                        orig,
                        "" if orig else f"`{unparse(first)}` is not the exception passed in (rebound by an except clause): the original type is lost",
                    )
    # ---- (e) remote_exception
    re_ = model.module("dask/multiprocessing.py").func("remote_exception")
    tcs = [c for c in calls(re_, "type", nested=False) if len(c.args) == 3]
    ok = False
    for c in tcs:
        bases = c.args[1]
        if isinstance(bases, ast.Tuple) and any(Pat("type(exc)").match(e) is not None for e in bases.elts) and any(eqv(e, "RemoteException") for e in bases.elts):
            ok = True
    ctx.ob("SUB.remote-exception", re_, "type(name, (RemoteException, type(exc)), ...)", ok, "" if ok else "wrapper type does not derive from the original exception type")
    # the wrapper cache must be keyed by the exception *type*: a cached wrapper is only a subclass of
    # type(exc) if the key determines type(exc)
    keys_used = []
    for n in walk_no_nested(re_):
        if isinstance(n, ast.Subscript) and eqv(n.value, "exceptions"):
            keys_used.append((n, inline(n.slice, n, re_)))
        if isinstance(n, ast.Compare) and len(n.ops) == 1 and isinstance(n.ops[0], (ast.In, ast.NotIn)) and eqv(n.comparators[0], "exceptions"):
            keys_used.append((n, inline(n.left, n, re_)))
    ctx.count("remote_exception_cache_uses", len(keys_used))
    for n, k in keys_used:
        ok = Pat("type(exc)").match(k) is not None or Pat("exc.__class__").match(k) is not None
        ctx.ob("SUB.remote-exception.cache-key", n, f"exceptions[{unparse(k)}]: wrapper cache keyed by the exception type", ok, "" if ok else f"cache key {unparse(k)} does not determine type(exc): a wrapper built for another type can be returned")
    # multiprocessing passes its own pack/raise functions
    mg = model.module("dask/multiprocessing.py").func("get")
    for c in [c for c in calls(mg) if call_name(c) == "get_async"]:
        b = bind_call(c, ga)
        ok = unparse(b.get("pack_exception")) == "pack_exception" and unparse(b.get("raise_exception")) == "reraise"
        ctx.ob("DELEG.mp-exception-hooks", c, "get_async(pack_exception=pack_exception, raise_exception=reraise)", ok)
    tg = model.module("dask/threaded.py").func("get")
    for c in [c for c in calls(tg) if call_name(c) == "get_async"]:
        b = bind_call(c, ga)
        ok = unparse(b.get("pack_exception")) == "pack_exception"
        ctx.ob("DELEG.threaded-exception-hooks", c, "get_async(pack_exception=pack_exception)", ok)
    # ---------------- the scheduler runs inside local_callbacks: the active set is restored on failure too
    cbm = ctx.model.module("dask/callbacks.py")
    lc = cbm.func("local_callbacks")
    ys = [n for n in ast.walk(lc) if isinstance(n, ast.Yield)]
    ok = len(ys) == 1
    if ok:
        t_, part_ = try_of(enclosing_stmt(ys[0]))
        ok = t_ is not None and part_ == "body" and bool(t_.finalbody) and "Callback.active = callbacks" in unparse(ast.Module(body=t_.finalbody, type_ignores=[]))
    ctx.ob("SCOPE.local-callbacks.finally", lc, "local_callbacks restores Callback.active in a finally around the yield (also when the scheduler raises)", ok, "" if ok else "after a failing computation the globally active callbacks stay swapped out: later computations call none of them")
    # ---------------- a failing task completes its Future on the Pool path too
    saa = (model if "model" in dir() else ctx.model).module("dask/local.py").func("submit_apply_async")
    cs_ = [c for c in calls(saa, "apply_async")]
    ok = len(cs_) == 1
    if ok:
        c = cs_[0]
        pos = [unparse(a) for a in c.args]
        kws = {k.arg: unparse(k.value) for k in c.keywords}
        okc = (len(pos) >= 4 and pos[3] == "fut.set_result") or kws.get("callback") == "fut.set_result"
        oke = (len(pos) >= 5 and pos[4] == "fut.set_exception") or kws.get("error_callback") == "fut.set_exception"
        ok = okc and oke
    ctx.ob("PAIR.future.both-callbacks", saa, "apply_async(fn, args, kwargs, fut.set_result, fut.set_exception): the future is completed on success AND on failure", ok, "" if ok else "a failing task never completes its future: get_async waits for ever, no exception surfaces and the finish callbacks never run")
    # ---------------- in-process executors surface the task's own exception object
    dpe = (model if "model" in dir() else ctx.model).module("dask/local.py").func("default_pack_exception")
    body = [s_ for s_ in dpe.body if not (isinstance(s_, ast.Expr) and isinstance(s_.value, ast.Constant))]
    ok = len(body) == 1 and isinstance(body[0], ast.Raise) and eqv(body[0].exc, "e")
    ctx.ob("EXC.default-pack.reraise", dpe, "default_pack_exception re-raises the task's exception itself (`raise e`)", ok, "" if ok else "packing (exception, traceback) with dumps fails for process-based executors (tracebacks cannot be pickled): the pickling error replaces the task's exception")
    # ---------------- argument evaluation never runs inside an iterator protocol that swallows StopIteration
    tcall = (model if "model" in dir() else ctx.model).module("dask/_task_spec.py").func("Task.__call__")
    maps = [c for c in calls(tcall, "map")]
    na = find("new_argspec = M_v", tcall)
    ok = not maps and len(na) == 1 and isinstance(na[0][1]["M_v"], ast.Call) and call_name(na[0][1]["M_v"]) == "tuple" and isinstance(na[0][1]["M_v"].args[0], ast.ListComp)
    ctx.ob("EXC.task-call.no-map", tcall, "Task.__call__ evaluates its arguments in a list comprehension, not through map()/a generator", ok, "" if ok else "a StopIteration raised by a nested task ends the iterator silently: the consumer runs with truncated arguments and the failure never surfaces")


def try_of_outer(node, t):
    """Which part of try statement t contains node (walking outward), or None."""
    child = node
    n = getattr(node, "_parent", None)
    while n is not None:
        if n is t:
            for p in ("body", "handlers", "orelse", "finalbody"):
                if any(child is x for x in getattr(n, p)):
                    return p
            return None
        child = n
        n = getattr(n, "_parent", None)
    return None


VARIANTS = [
    (LOCAL, "            succeeded = True\n\n        finally:\n", "            pass\n\n        finally:\n            succeeded = True\n", "MPT.succeeded-last"),
    (LOCAL, "                    finish(dsk, state, not succeeded)", "                    finish(dsk, state, succeeded)", "MPT.finish-flag"),
    (LOCAL, "            for _, _, _, _, finish in started_cbs:", "            for _, _, _, _, finish in callbacks:", "MPT.finish-over-started"),
    (LOCAL, "                        else:\n                            raise_exception(exc, tb)", "                        else:\n                            pass", "MPT.failed-branch"),
    (LOCAL, "                            raise_exception(exc, tb)", "                            raise_exception(tb, exc)", "TAB.exc-pair.consumer"),
    (LOCAL, "    except BaseException as e:\n        result = pack_exception(e, dumps)", "    except Exception as e:\n        result = pack_exception(e, dumps)", "EXC.execute-task.catch-all"),
    (LOCAL, "        except BaseException as e:\n            fut.set_exception(e)", "        except Exception as e:\n            fut.set_exception(e)", "EXC.sync-executor"),
    ("dask/threaded.py", "    return e, sys.exc_info()[2]", "    return e, sys.exc_info()[2], None", "TAB.exc-pair.producer"),
    ("dask/multiprocessing.py", "(RemoteException, type(exc)),", "(RemoteException, Exception),", "SUB.remote-exception"),
    ("dask/multiprocessing.py", "            raise_exception=reraise,\n", "", "DELEG.mp-exception-hooks"),
    ("dask/multiprocessing.py", "    if type(exc) in exceptions:\n        typ = exceptions[type(exc)]", "    if type(exc).__name__ in exceptions:\n        typ = exceptions[type(exc).__name__]", "SUB.remote-exception.cache-key"),
]


def selftest(ctx):
    from ..variants import selftest as st

    return st(ctx, "C04", VARIANTS)
