"""C50 -- block-wise text reading reproduces the file exactly (narrow, structural).

Decided:
 SIB.split           the two line splitters -- bag.text.file_to_blocks (blocksize=None) and bag.text.decode
                     (explicit blocksize) -- implement one function: empty text -> no lines; every part but
                     the last gets the delimiter back; the last part is kept only when the text does not end
                     with the delimiter (no empty trailing element); they must agree step by step
 TAB.newlines        the set of delimiters handled by the universal-newline reader is the same literal
                     list in read_text and decode
 ABS.tiling          read_bytes: offsets start at 0, every appended offset comes with the length
                     off[-1] - off[-2], the last length is size - off[-1] (lengths telescope to the file
                     size: blocks tile the file without gap or overlap); not_zero moves the first offset
                     and shrinks the first length together; the block-size division is guarded against a
                     zero divisor
 DELEG.blocks        each delayed read receives (offset, length) from the same position of the two lists
                     and the caller's delimiter; read_block_from_file forwards (off, bs, delimiter) to
                     fsspec's read_block and reads the whole file only for (0, None); read_text forwards the
                     encoded line delimiter (b"\\n" by default) and its blocksize, decodes every block in
                     file-then-block order and pairs paths with blocks by per-file block counts
 ABS.files-partition files_per_partition groups tile the file list (slice width == range step)
 TOKFLOW.block-keys  block keys contain the offset and a token of (fs, delimiter, path, ukey, compression,
                     offsets)
Not decided: fsspec.read_block's delimiter seeking; codecs; the contents of the lines.
"""
from __future__ import annotations

import ast

from ..lib import *

EXPLANATION = (
    "Sibling agreement of the two line splitters (blocksize None vs explicit), tiling of the byte offsets and "
    "lengths computed by read_bytes (telescoping lengths, paired first-block adjustment, guarded division), "
    "and unmodified forwarding of offsets, lengths, delimiter and blocksize down to fsspec.read_block.  "
    "fsspec's delimiter seeking and the decoded contents are NOT decided."
)
ASSUMPTIONS = ["fsspec.utils.read_block(f, off, bs, delimiter) returns the bytes from the first delimiter at/after off to the first delimiter at/after off+bs", "str.split(d) returns at least one part"]
BY = "dask/bytes/core.py"
TX = "dask/bag/text.py"


def _alpha(src: str, ren: dict) -> str:
    t = ast.parse(src, mode="eval")
    for n in ast.walk(t):
        if isinstance(n, ast.Name) and n.id in ren:
            n.id = ren[n.id]
    return ast.unparse(t)


def _split_steps(f, delim: str):
    """Normalised description of a splitter: (empty-guard, parts, emitted sequence)."""
    ren = {delim: "DELIM"}
    parts = find("parts = text.split(M_d)", f)
    guard = [n for n in walk_no_nested(f) if isinstance(n, ast.If) and eqv(n.test, "not text") and len(n.body) == 1 and isinstance(n.body[0], ast.Return) and eqv(n.body[0].value, "[]")]
    # the emitted sequence: the BinOp list expression mentioning parts[:-1]
    emitted = None
    for n in ast.walk(f):
        if isinstance(n, ast.BinOp) and isinstance(n.op, ast.Add) and "parts[:-1]" in unparse(n.left) and "parts[:-1]" not in unparse(n.right):
            emitted = n
    steps = {
        "empty-guard": bool(guard) and bool(parts) and dominates(f, guard[0], parts[0][0]),
        "split-on": _alpha(unparse(parts[0][1]["M_d"]), ren) if parts else None,
    }
    if emitted is not None:
        left = emitted.left
        if isinstance(left, ast.ListComp):
            v = left.generators[0].target.id if isinstance(left.generators[0].target, ast.Name) else "?"
            steps["head"] = _alpha(unparse(left), {**ren, v: "X"})
        else:
            steps["head"] = unparse(left)
        steps["tail"] = _alpha(unparse(emitted.right), ren)
    else:
        steps["head"] = steps["tail"] = None
    return steps, emitted


def check(ctx):
    model = ctx.model
    tx = model.module(TX)
    by = model.module(BY)
    ftb = tx.func("file_to_blocks")
    dec = tx.func("decode")
    rt = tx.func("read_text")
    rb = by.func("read_bytes")
    rbf = by.func("read_block_from_file")

    # ---------------- SIB.split
    s1, e1 = _split_steps(ftb, "delimiter")
    s2, e2 = _split_steps(dec, "line_delimiter")
    ctx.count("splitters", int(e1 is not None) + int(e2 is not None))
    ctx.floor("splitters", 2, "the list expression `[... parts[:-1]] + <tail>` in file_to_blocks and decode")
    for step in ("empty-guard", "split-on", "head", "tail"):
        ok = s1[step] == s2[step] and s1[step] not in (None, False)
        ctx.ob("SIB.split." + step, ftb if step != "tail" else (e1 or ftb), f"step `{step}` agrees between file_to_blocks and decode", ok, f"file_to_blocks: {s1[step]} | decode: {s2[step]}")
    # the text ends with a delimiter exactly when the last part is EMPTY; text.endswith(delimiter) is not the
    # same thing for a self-overlapping delimiter ('xaaa'.split('aa') == ['x', 'a'] although it ends with 'aa')
    want_tail = "parts[-1:] if parts[-1] else []"
    for nm, f, s in (("file_to_blocks", ftb, s1), ("decode", dec, s2)):
        ok = s["tail"] == want_tail and s["head"] == "[X + DELIM for X in parts[:-1]]"
        ctx.ob("SIB.split.no-empty-tail", f, f"{nm}: lines = [p + d for p in parts[:-1]] + (parts[-1:] unless that last part is empty)", ok, "" if ok else f"emits head={s['head']} tail={s['tail']}: a text ending with the delimiter yields an empty trailing element, or (endswith test) a non-empty last part that overlaps the delimiter is lost")
    # the delimiter branch of file_to_blocks reads the whole text; the other iterates the file
    ok = bool(find("text = f.read()", ftb)) and any(isinstance(n, ast.For) and eqv(n.iter, "f") for n in walk_no_nested(ftb))
    ctx.ob("SIB.split.file-branches", ftb, "custom delimiter: split the whole text; otherwise iterate the file's own lines", ok)
    # include_path pairs every line with the path
    gens = [n for n in ast.walk(ftb) if isinstance(n, ast.IfExp) and eqv(n.test, "include_path")]
    ok = len(gens) == 2 and all(eqv(g.body, "(line, lazy_file.path)") and eqv(g.orelse, "line") for g in gens)
    ctx.ob("SIB.split.include-path", ftb, "(line, path) if include_path else line -- in both branches", ok)

    # ---------------- TAB.newlines
    def newline_lists(f):
        out = []
        for n in ast.walk(f):
            if isinstance(n, ast.Compare) and len(n.ops) == 1 and isinstance(n.ops[0], ast.In) and isinstance(n.comparators[0], (ast.List, ast.Tuple, ast.Set)):
                vals = [const(e) for e in n.comparators[0].elts]
                if "\n" in vals:
                    out.append((n, frozenset(vals)))
        return out
    l1, l2 = newline_lists(rt), newline_lists(dec)
    ok = len(l1) == 1 and len(l2) == 1 and l1[0][1] == l2[0][1] == frozenset([None, "", "\n", "\r", "\r\n"])
    ctx.ob("TAB.newlines", rt, "universal-newline delimiters: the same list {None,'','\\n','\\r','\\r\\n'} in read_text and decode", ok, "" if ok else f"read_text {sorted(map(repr, l1[0][1])) if l1 else None} vs decode {sorted(map(repr, l2[0][1])) if l2 else None}")
    ok = bool(find("lines = io.StringIO(text, newline=line_delimiter)", dec)) and any(eqv(r.value, "list(lines)") for r in returns(dec))
    ctx.ob("TAB.newlines.decode", dec, "decode: universal newlines are split by io.StringIO(text, newline=line_delimiter)", ok)
    ok = bool(find("text = block.decode(encoding, errors)", dec))
    ctx.ob("DELEG.decode", dec, "decode: text = block.decode(encoding, errors)", ok)

    # ---------------- ABS.tiling
    off0 = find("off = [0]", rb)
    len0 = find("length = []", rb)
    wl = next((n for n in walk_no_nested(rb) if isinstance(n, ast.While) and "place" in unparse(n.test)), None)
    if wl is None:
        raise AnchorMissing("read_bytes: the offset loop `while size - place > ...` was not found")
    ok = len(off0) == 1 and len(len0) == 1 and bool(find("place = 0", rb)) and dominates(rb, off0[0][0], wl) and dominates(rb, len0[0][0], wl)
    ctx.ob("ABS.tiling.start", rb, "off = [0]; length = []; place = 0 before the loop", ok)
    adv = find("place += blocksize1", wl)
    oa = find("off.append(int(place))", wl)
    la = find("length.append(off[-1] - off[-2])", wl)
    ok = len(adv) == 1 and len(oa) == 1 and len(la) == 1 and all(enclosing_stmt(x[0][0]) in wl.body for x in (adv, oa, la)) and adv[0][0].lineno < oa[0][0].lineno < la[0][0].lineno
    appends_in_loop = [c for c in calls(wl, "append")]
    ok = ok and len(appends_in_loop) == 2
    ctx.ob("ABS.tiling.step", wl, "each iteration: place += blocksize1; off.append(int(place)); length.append(off[-1] - off[-2])", ok, "" if ok else "an offset is appended without the matching length (or the length is not the distance to the previous offset): blocks overlap or leave a gap")
    last = find("length.append(size - off[-1])", rb)
    ok = len(last) == 1 and not in_subtree(last[0][0], wl) and last[0][0].lineno > wl.lineno and dominates(rb, wl, last[0][0])
    ctx.ob("ABS.tiling.last", rb, "after the loop: length.append(size - off[-1]) (lengths telescope to size - off[0])", ok, "" if ok else "the final block does not extend to the end of the file")
    ok = eqv(wl.test, "size - place > blocksize1 * 2 - 1")
    ctx.ob("ABS.tiling.bound", wl, "loop continues while more than 2*blocksize1 - 1 bytes remain (every offset stays < size)", ok)
    z1 = find("off[0] = 1", rb)
    z2 = find("length[0] -= 1", rb)
    ok = len(z1) == 1 and len(z2) == 1 and control_equivalent(rb, z1[0][0], z2[0][0]) and any(eqv(e, "not_zero") and pol for e, pol in cfg_of(rb).facts(z1[0][0])) and dominates(rb, last[0][0], z2[0][0]) if last else False
    ctx.ob("ABS.tiling.not-zero", rb, "not_zero: off[0] = 1 together with length[0] -= 1 (the end of the first block does not move)", ok)
    ok = bool(find("offsets.append(off)", rb)) and bool(find("lengths.append(length)", rb)) and control_equivalent(rb, find("offsets.append(off)", rb)[0][0], find("lengths.append(length)", rb)[0][0])
    ctx.ob("ABS.tiling.collect", rb, "offsets.append(off) and lengths.append(length) together, once per file", ok)
    e1_ = find("offsets.append([])", rb)
    e2_ = find("lengths.append([])", rb)
    ok = len(e1_) == 1 and len(e2_) == 1 and control_equivalent(rb, e1_[0][0], e2_[0][0]) and any(eqv(e, "size == 0") and pol for e, pol in cfg_of(rb).facts(e1_[0][0]))
    ctx.ob("ABS.tiling.empty-file", rb, "empty file: no offsets and no lengths", ok)
    div = [n for n in ast.walk(rb) if isinstance(n, ast.BinOp) and isinstance(n.op, ast.Div) and eqv(n, "size / (size // blocksize)")]
    ok = len(div) == 1
    if ok:
        facts = {(unparse(e), pol) for e, pol in cfg_of(rb).facts(enclosing_stmt(div[0]))}
        ok = ("size > blocksize", True) in facts and ("size % blocksize", True) in facts
    ctx.ob("ABS.tiling.divisor", rb, "blocksize1 = size / (size // blocksize) only when size > blocksize (divisor >= 1) and size % blocksize != 0", ok, "" if ok else "the divisor size // blocksize can be 0 (files smaller than the block size)")
    ok = bool(find("blocksize1 = blocksize", rb))
    ctx.ob("ABS.tiling.divisor.else", rb, "otherwise blocksize1 = blocksize", ok)
    none_off = find("offsets = [[0]] * len(paths)", rb)
    none_len = find("lengths = [[None]] * len(paths)", rb)
    ok = len(none_off) == 1 and len(none_len) == 1 and any(eqv(e, "blocksize is None") and pol for e, pol in cfg_of(rb).facts(none_off[0][0]))
    ctx.ob("ABS.tiling.whole-file", rb, "blocksize None: one block (offset 0, length None) per file", ok)

    # ---------------- DELEG.blocks
    outer = next((n for n in walk_no_nested(rb) if isinstance(n, ast.For) and eqv(n.iter, "zip(paths, offsets, lengths)")), None)
    ok = outer is not None and eqv(outer.target, "(path, offset, length)")
    ctx.ob("DELEG.blocks.zip-files", rb, "for path, offset, length in zip(paths, offsets, lengths)", ok)
    dr = [c for c in calls(rb, "delayed_read")]
    ok = len(dr) == 1 and bool(find("delayed_read = delayed(read_block_from_file)", rb))
    if ok:
        c = dr[0]
        ok = [unparse(a) for a in c.args] == ["OpenFile(fs, path, compression=compression)", "o", "l", "delimiter"] and unparse(kwarg(c, "dask_key_name")) == "key"
        comp = getattr(c, "_parent", None)
        ok = ok and isinstance(comp, ast.ListComp) and eqv(comp.generators[0].target, "(o, key, l)") and eqv(comp.generators[0].iter, "zip(offset, keys, length)")
    ctx.ob("DELEG.blocks.read-args", rb, "delayed_read(OpenFile(fs, path, compression=compression), o, l, delimiter, dask_key_name=key) for o, key, l in zip(offset, keys, length)", ok, "" if ok else "offset, length or delimiter do not reach the block reader as computed")
    ok = bool(find("keys = [f'read-block-{o}-{token}' for o in offset]", rb)) and bool(find("token = tokenize(fs_token, delimiter, path, fs.ukey(path), compression, offset)", rb))
    ctx.ob("TOKFLOW.block-keys", rb, "keys = read-block-{o}-{tokenize(fs_token, delimiter, path, ukey, compression, offset)}", ok)
    rbk = [c for c in calls(rbf, "read_block")]
    ok = len(rbk) == 1 and [unparse(a) for a in rbk[0].args] == ["f", "off", "bs", "delimiter"] and [a.arg for a in rbf.args.args] == ["lazy_file", "off", "bs", "delimiter"]
    if ok:
        rd_ = reaching_of(rbf)
        ok = all(rd_.is_param(rbk[0], nm) for nm in ("off", "bs", "delimiter"))
    ctx.ob("DELEG.blocks.read-block", rbf, "read_block_from_file(lazy_file, off, bs, delimiter) -> read_block(f, off, bs, delimiter) with the offset, length and delimiter exactly as planned by read_bytes", ok, "" if ok else "the planned offset/length is altered on the way: blocks overlap or leave gaps (a record is returned twice, or lost)")
    whole = find("f.read()", rbf)
    ok = len(whole) == 1 and {("off == 0", True), ("bs is None", True)} <= {(unparse(e), pol) for e, pol in cfg_of(rbf).facts(enclosing_stmt(whole[0][0]))}
    ctx.ob("DELEG.blocks.whole-file", rbf, "f.read() only for (off == 0 and bs is None)", ok)
    # read_text -> read_bytes
    rbc = [c for c in calls(rt, "read_bytes")]
    ok = len(rbc) == 1
    if ok:
        c = rbc[0]
        ok = eqv(c.args[0], "urlpath") and unparse(kwarg(c, "delimiter")) == "linedelimiter.encode() if linedelimiter is not None else b'\\n'" and unparse(kwarg(c, "blocksize")) == "blocksize" and const(kwarg(c, "sample")) is False and unparse(kwarg(c, "compression")) == "compression" and unparse(kwarg(c, "include_path")) == "include_path"
        ok = ok and any(eqv(e, "blocksize is None") and pol is False for e, pol in cfg_of(rt).facts(enclosing_stmt(c)))
    ctx.ob("DELEG.text.read-bytes", rt, "read_text -> read_bytes(urlpath, delimiter=<encoded line delimiter or b'\\n'>, blocksize=blocksize, sample=False, ...)", ok)
    dd = find("[delayed(decode)(b, encoding, errors, linedelimiter) for b in concat(raw_blocks)]", rt)
    ok = len(dd) == 1 and bool(find("raw_blocks = o[1]", rt))
    ctx.ob("DELEG.text.decode-order", rt, "every raw block is decoded, in file-then-block order, with the caller's delimiter", ok)
    pp = find("paths = list(concat([[path] * len(raw_blocks[i]) for i, path in enumerate(o[2])]))", rt)
    zz = find("[delayed(attach_path)(entry, path) for entry, path in zip(blocks, paths)]", rt)
    ok = len(pp) == 1 and len(zz) == 1
    ctx.ob("DELEG.text.paths", rt, "include_path: each file's path repeated once per block of that file, zipped with the blocks", ok)
    # blocksize None branch: newline handling
    nl = find("newline = linedelimiter", rt)
    ld = find("linedelimiter = None", rt)
    ok = len(nl) == 1 and len(ld) == 1 and control_equivalent(rt, nl[0][0], ld[0][0]) and nl[0][0].lineno < ld[0][0].lineno and bool(find("newline = ''", rt))
    ctx.ob("DELEG.text.newline", rt, "universal delimiters are handed to open(newline=...) and cleared; custom ones use newline='' and are split by file_to_blocks", ok)
    pf = [c for c in calls(rt, "partial") if c.args and eqv(c.args[0], "file_to_blocks")]
    ok = len(pf) == 2 and all([unparse(a) for a in c.args] == ["file_to_blocks", "include_path"] and unparse(kwarg(c, "delimiter")) == "linedelimiter" for c in pf)
    ctx.ob("DELEG.text.file-to-blocks", rt, "partial(file_to_blocks, include_path, delimiter=linedelimiter) in both groupings", ok)
    # ---------------- ABS.files-partition
    fl = next((n for n in walk_no_nested(rt) if isinstance(n, ast.For) and eqv(n.iter, "range(0, len(files), files_per_partition)")), None)
    ok = fl is not None and bool(find("block_files = files[start:start + files_per_partition]", fl)) and eqv(fl.target, "start")
    ctx.ob("ABS.files-partition", rt, "for start in range(0, len(files), n): files[start:start + n] (groups tile the file list)", ok)
    ok = bool(find("delayed(concat)(delayed(map)(partial(file_to_blocks, include_path, delimiter=linedelimiter), block_files))", rt))
    ctx.ob("ABS.files-partition.concat", rt, "a group's lines are the concatenation of its files' lines in order", ok)
    excl = [n for n in walk_no_nested(rt) if isinstance(n, ast.If) and eqv(n.test, "blocksize is not None and files_per_partition is not None") and any(isinstance(b, ast.Raise) for b in n.body)]
    ctx.ob("ABS.files-partition.exclusive", rt, "blocksize and files_per_partition are mutually exclusive (raise)", bool(excl))
    # ---------------- block boundaries are found by a context-free search (fsspec.utils.read_block): exact only for delimiters that cannot overlap themselves
    rb_calls = [c for c in calls(rbf, "read_block")]
    imp = by.imports.get("read_block")
    if len(rb_calls) == 1 and imp == "fsspec.utils.read_block" and eqv(rb_calls[0], "read_block(f, off, bs, delimiter)"):
        guards = [n for n in ast.walk(rb) if isinstance(n, ast.Raise) and any("delimiter" in unparse(t.test) and "overlap" in unparse(t.test) for t in [p for p in [getattr(n, "_parent", None)] if isinstance(p, ast.If)])]
        ctx.ob("ALG.boundary.context-free", rbf, "read_block(f, off, bs, delimiter): the boundary is the next occurrence of the delimiter after an arbitrary offset", bool(guards), "" if guards else "for a self-overlapping delimiter the occurrence found from an arbitrary offset need not be one that a left-to-right split uses: read_text returns different lines for different block sizes")
    else:
        ctx.ob("ALG.boundary.context-free", rbf, "read_block_from_file delegates to fsspec.utils.read_block(f, off, bs, delimiter)", None, "the boundary search changed: re-review how boundaries are found for self-overlapping delimiters")


VARIANTS = [
    (TX, "                + (parts[-1:] if parts[-1] else [])\n", "                + parts[-1:]\n", "SIB.split"),
    (TX, "                + (parts[-1:] if parts[-1] else [])\n", "                + (parts[-1:] if not text.endswith(delimiter) else [])\n", "SIB.split.no-empty-tail"),
    (TX, "        out = [t + line_delimiter for t in parts[:-1]] + (\n            parts[-1:] if parts[-1] else []\n        )", "        out = [t + line_delimiter for t in parts[:-1]] + parts[-1:]", "SIB.split"),
    (TX, "        out = [t + line_delimiter for t in parts[:-1]] + (", "        out = [t for t in parts[:-1]] + (", "SIB.split.head"),
    (TX, '    if line_delimiter in [None, "", "\\n", "\\r", "\\r\\n"]:', '    if line_delimiter in [None, "", "\\n", "\\r\\n"]:', "TAB.newlines"),
    (BY, "                    length.append(off[-1] - off[-2])", "                    length.append(int(blocksize1))", "ABS.tiling.step"),
    (BY, "                length.append(size - off[-1])", "                length.append(blocksize)", "ABS.tiling.last"),
    (BY, "                    off[0] = 1\n                    length[0] -= 1", "                    off[0] = 1", "ABS.tiling.not-zero"),
    (BY, "                if size % blocksize and size > blocksize:", "                if size % blocksize:", "ABS.tiling.divisor"),
    (BY, "                o,\n                l,\n                delimiter,", "                o,\n                l,\n                None,", "DELEG.blocks.read-args"),
    (BY, "        return read_block(f, off, bs, delimiter)", "        return read_block(f, off, bs, None)", "DELEG.blocks.read-block"),
    (TX, "            blocksize=blocksize,\n            sample=False,", "            sample=False,", "DELEG.text.read-bytes"),
    (TX, "                block_files = files[start : (start + files_per_partition)]", "                block_files = files[start : (start + files_per_partition - 1)]", "ABS.files-partition"),
]


def selftest(ctx):
    from ..variants import selftest as st

    return st(ctx, "C50", VARIANTS)
