"""C26 -- overlap computations match the unchunked stencil (narrow: twin agreement only).

Decided:
 TWIN.agree   every function of dask/array/overlap.py that also exists in the array-expression engine
              (dask/array/_array_expr/_overlap.py) -- overlap, trim_internal, _trim, boundaries and the four
              boundary kinds, ensure_minimum_chunksize, _overlap_internal_chunks, add_dummy_padding,
              coerce_depth/coerce_boundary, map_overlap, sliding_window_view, ... -- is, in canonical form
              (docstrings dropped, locals renamed in binding order), identical to its copy, apart from the
              engine-plumbing differences frozen in sa/rules/twins_accepted.json.  The two copies
              implement one algorithm; a divergence means one engine computes a different stencil.
Not decided: that the shared algorithm is right (depth/boundary arithmetic over run-time chunks is out
of reach for this family); functions without a twin (overlap_internal's graph layer).
"""
from __future__ import annotations

from ..twin import check_pairs
from ._twins import pairs_for

EXPLANATION = (
    "Twin cross-check (sibling agreement over whole functions): each of the 21 overlap functions that exists "
    "both in the classic and in the array-expression engine has the same canonical text in both copies, modulo "
    "the frozen engine-plumbing differences.  A divergence is a contradiction: one engine breaks the stencil "
    "semantics.  The correctness of the shared algorithm itself is NOT decided."
)
ASSUMPTIONS = ["both copies are meant to implement the same algorithm (C30 states that the engines agree)"]
TECHNIQUE = "static analysis: canonicalised AST diff of sibling implementations (alpha-renamed locals, frozen reviewed differences) over /repo source (no execution)"
OV, OVX = "dask/array/overlap.py", "dask/array/_array_expr/_overlap.py"


def check(ctx):
    n = check_pairs(ctx, pairs_for("C26"))
    ctx.count("twin_pairs", n)
    ctx.floor("twin_pairs", 20, "overlap functions with a copy in the expression engine")


VARIANTS = [
    (OV, "                    d = d - overlap * 2\n", "                    d = d - overlap\n", "TWIN.agree"),
    (OVX, "                d = d - overlap[1] if j != len(bd) - 1 else d\n", "                d = d - overlap[1] if j != len(bd) else d\n", "TWIN.agree"),
    (OV, "    depths = [max(d) if isinstance(d, tuple) else d for d in depth2.values()]\n    new_chunks = []", "    depths = [min(d) if isinstance(d, tuple) else d for d in depth2.values()]\n    new_chunks = []", "TWIN.agree"),
]


def selftest(ctx):
    from ..variants import selftest as st

    return st(ctx, "C26", VARIANTS)
