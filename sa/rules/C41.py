"""C41 -- known divisions always describe the partitions truthfully (narrow, structural).

Decided:
 ALG.definitions     Expr.npartitions = len(divisions) - 1 (unless the expression carries an explicit
                     npartitions operand); known_divisions = non-empty and first division not None
 DOM.from-pandas     FromPandas publishes real divisions only on the path guarded by "sort requested or the
                     index is monotonic increasing" (from sorted_division_locations); every other path
                     publishes (None,) * len(locations); the unsorted row locations tile [0, nrows] in steps
                     of chunksize and end at len(data); an explicit divisions request ends its locations at
                     len(data)
 ALG.boundary-slice  boundary_slice keeps an end point exactly when the matching *_boundary flag is set:
                     >= / > at the left, <= / < at the right, and the monotonic fast path cuts with
                     get_slice_bound(stop, "left") / (start, "right") for the exclusive cases
 ORD.strict          the two places that decide to KEEP known divisions for data that arrives in several
                     pieces -- Concat._monotonic_divisions and the presorted test of set_index/sort_values --
                     require every piece to end STRICTLY below the start of the next (the last division of
                     a piece is inclusive, so equality would put one index value into two partitions)
Not decided: that each operation's declared divisions bound the values its partitions actually hold.
"""
from __future__ import annotations

import ast

from ..lib import *

EXPLANATION = (
    "Definitions (npartitions, known_divisions), dominance of FromPandas' known divisions by the "
    "sortedness guard with unknown divisions on every other path and locations tiling the rows, the comparator "
    "table of boundary_slice, and strict separation wherever divisions of several pieces are chained.  Whether "
    "each operation's declared divisions bound its actual index values is NOT decided."
)
ASSUMPTIONS = ["sorted_division_locations returns divisions that bound the sorted index (C45, not claimed)"]
EX = "dask/dataframe/dask_expr/_expr.py"
IO = "dask/dataframe/dask_expr/io/io.py"
ME = "dask/dataframe/methods.py"


def division_location(ctx):
    """PAIR.division-location (also used by C44: from_pandas cut points feed repartition)."""
    # ---------------- sorted_division_locations: a division value and its location are read off the SAME position
    sdl = ctx.model.module("dask/dataframe/io/io.py").func("sorted_division_locations")
    dup = [n for n in ast.walk(sdl) if isinstance(n, ast.If) and eqv(n.test, "duplicates") and any(isinstance(s, ast.Assign) and eqv(s, "pos = int(offsets[ind])") for s in n.body)]
    ok = len(dup) == 1
    if ok:
        body = dup[0].body
        ipos = [k for k, s in enumerate(body) if isinstance(s, ast.Assign) and eqv(s, "pos = int(offsets[ind])")][0]
        later = [s for s in body[ipos + 1:] for n in ast.walk(s) if isinstance(n, ast.Name) and isinstance(n.ctx, ast.Store) and n.id in ("ind", "div", "i")]
        ok = not later and eqv(dup[0].orelse[0], "pos = i") if dup[0].orelse else False
    ctx.ob("PAIR.division-location", sdl, "pos = int(offsets[ind]) is taken after every adjustment of ind/div in that step (else: pos = i)", ok, "" if ok else "the division value comes from the stepped-back position but the cut stays at the over-stepped one: rows at or above a division land in the preceding partition")


def check(ctx):
    model = ctx.model
    expr = model.klass(EX, "Expr")
    np_ = expr.own_methods["npartitions"]
    rs = returns(np_)
    ok = len(rs) == 2 and {unparse(r.value) for r in rs} == {"self.operand('npartitions')", "len(self.divisions) - 1"}
    if ok:
        r2 = [r for r in rs if eqv(r.value, "len(self.divisions) - 1")][0]
        ok = any(eqv(e, "'npartitions' in self._parameters") and pol is False for e, pol in cfg_of(np_).facts(r2))
    ctx.ob("ALG.definitions.npartitions", np_, "npartitions = len(divisions) - 1 unless an explicit npartitions operand exists", ok)
    kd = expr.own_methods["known_divisions"]
    ok = (all(eqv(r.value, "len(self.divisions) > 0 and self.divisions[0] is not None") for r in returns(kd)) and bool(returns(kd)))
    ctx.ob("ALG.definitions.known", kd, "known_divisions = len(divisions) > 0 and divisions[0] is not None", ok)
    # ---------------- FromPandas
    fp = model.klass(IO, "FromPandas").own_methods["_divisions_and_locations"]
    g = cfg_of(fp)
    asg = [a for a in walk_no_nested(fp) if isinstance(a, ast.Assign) and "divisions" in unparse(a.targets[0]) and not unparse(a.targets[0]).startswith("_division_info_cache")]
    ctx.count("from_pandas_division_sources", len(asg))
    ctx.floor("from_pandas_division_sources", 3)
    for a in asg:
        v = unparse(a.value)
        facts = {(unparse(e), pol) for e, pol in g.facts(a)}
        if "sorted_division_locations" in v:
            ok = ("sort or self.frame._data.index.is_monotonic_increasing", True) in facts and ("nrows == 0", False) in facts
            ctx.ob("DOM.from-pandas.sorted-only", a, "real divisions come from sorted_division_locations, only when sort is requested or the index is monotonic increasing", ok, "" if ok else "divisions are computed for an index that is not known to be sorted")
        else:
            ok = v == "(None,) * len(locations)"
            ctx.ob("DOM.from-pandas.unknown-otherwise", a, "every other path publishes (None,) * len(locations)", ok, "" if ok else f"publishes {v}")
    loc = find("locations = list(range(0, nrows, chunksize)) + [len(data)]", fp)
    ctx.ob("DOM.from-pandas.locations", fp, "unsorted data: row locations range(0, nrows, chunksize) + [len(data)] tile the frame", len(loc) == 1)
    fpd = model.klass(IO, "FromPandasDivisions").own_methods["_divisions_and_locations"]
    ok = bool(find("indexer[-1] = len(data)", fpd)) and bool(find("_division_info_cache[key] = (key, indexer)", fpd)) and bool(find("key = tuple(self.operand('divisions'))", fpd))
    ctx.ob("DOM.from-pandas.explicit", fpd, "explicit divisions: the last location is len(data) and the divisions are the requested ones", ok)
    # ---------------- boundary_slice
    bs = model.module(ME).func("boundary_slice")
    table = {"df = df[df.index >= start]": ("left_boundary", True), "df = df[df.index > start]": ("left_boundary", False), "df = df[df.index <= stop]": ("right_boundary", True), "df = df[df.index < stop]": ("right_boundary", False)}
    for pat, (flag, pol) in table.items():
        hit = find(pat, bs)
        ok = len(hit) == 1 and any(unparse(e) == flag and p == pol for e, p in cfg_of(bs).facts(hit[0][0]))
        ctx.ob("ALG.boundary-slice", bs, f"{pat.split('=', 1)[1].strip()} exactly when {flag} is {pol}", ok, "" if ok else "an end point is kept or dropped against its boundary flag: the last partition loses its maximum or a value appears in two partitions")
    r1 = find("right_index = result.index.get_slice_bound(stop, 'left')", bs)
    r2 = find("left_index = result.index.get_slice_bound(start, 'right')", bs)
    ok = len(r1) == 1 and len(r2) == 1 and any(eqv(e, "right_boundary") and p is False for e, p in cfg_of(bs).facts(r1[0][0])) and any(eqv(e, "left_boundary") and p is False for e, p in cfg_of(bs).facts(r2[0][0])) and bool(find("result = result.iloc[:right_index]", bs)) and bool(find("result = result.iloc[left_index:]", bs))
    ctx.ob("ALG.boundary-slice.monotonic", bs, "monotonic index: exclusive right end cuts at the left bound of stop, exclusive left end at the right bound of start", ok)
    # ---------------- strict chaining
    cc = model.klass("dask/dataframe/dask_expr/_concat.py", "Concat").own_methods["_monotonic_divisions"]
    cmps = [n for n in ast.walk(cc) if isinstance(n, ast.Compare) and "divisions[-1]" in unparse(n.left) and "divisions[0]" in unparse(n.comparators[0])]
    ok = len(cmps) == 1 and isinstance(cmps[0].ops[0], ast.Lt)
    ctx.ob("ORD.strict.concat", cc, "concat keeps divisions only if each frame's last division < the next frame's first", ok, "" if ok else "equal boundary divisions are chained: the boundary value lives in two partitions")
    cd = model.module("dask/dataframe/dask_expr/_shuffle.py").func("_calculate_divisions")
    ps = find("presorted = M_v", cd)
    conj = [v for n_, b in ps for v in (b["M_v"].values if isinstance(b["M_v"], ast.BoolOp) else [b["M_v"]])]
    ok = any(eqv(v, "(maxes2 < mins2).all()") for v in conj)
    ctx.ob("ORD.strict.presorted", cd, "set_index/sort_values keep the input partitions only if every maximum < the next minimum", ok)
    # ---------------- a blockwise merge with a single-partition side inherits the OTHER side's divisions only for the
    # join kinds that keep exactly that side's rows
    bm = model.klass("dask/dataframe/dask_expr/_merge.py", "BlockwiseMerge").own_methods["_divisions"]
    want = {"self.right.divisions": ("use_right", "self.left.npartitions == 1", {"right", "inner"}), "self.left.divisions": ("use_left", "self.right.npartitions == 1", {"inner", "left", "leftsemi"})}
    for r in returns(bm):
        u = unparse(r.value)
        if u not in want:
            continue
        flag, single, hows = want[u]
        par = r._parent
        conj = [unparse(v) for v in (par.test.values if isinstance(par, ast.If) and isinstance(par.test, ast.BoolOp) else [])]
        got = None
        for c_ in conj:
            if c_.startswith("self.how in "):
                got = set(ast.literal_eval(c_[len("self.how in "):]))
        ok = flag in conj and single in conj and got == hows
        ctx.ob("ALG.merge-divisions", r, f"BlockwiseMerge reports {u} only when {flag}, {single} and how in {sorted(hows)}", ok, "" if ok else f"condition is {conj}: for other join kinds the result also holds rows of the single-partition side that lie outside these divisions")
    division_location(ctx)


VARIANTS = [
    (IO, "            elif sort or self.frame._data.index.is_monotonic_increasing:", "            elif sort or self.frame._data.index.is_monotonic:", "DOM.from-pandas.sorted-only"),
    (ME, "                df = df[df.index <= stop]\n            else:\n                df = df[df.index < stop]", "                df = df[df.index < stop]\n            else:\n                df = df[df.index <= stop]", "ALG.boundary-slice"),
    (ME, '        right_index = result.index.get_slice_bound(stop, "left")', '        right_index = result.index.get_slice_bound(stop, "right")', "ALG.boundary-slice.monotonic"),
    (EX, "            return len(self.divisions) - 1", "            return len(self.divisions)", "ALG.definitions.npartitions"),
    ("dask/dataframe/dask_expr/_concat.py", "                dfs[i].divisions[-1] < dfs[i + 1].divisions[0]", "                dfs[i].divisions[-1] <= dfs[i + 1].divisions[0]", "ORD.strict.concat"),
]


def selftest(ctx):
    from ..variants import selftest as st

    return st(ctx, "C41", VARIANTS)
