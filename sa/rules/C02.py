"""C02 -- each needed task runs exactly once and only after its dependencies finished.

Structural clauses decided (all are necessary conditions of the behaviour):
 DOM.ready-append   a key is appended to state["ready"] only when its waiting set became
                    empty after removing the finished key, and its waiting entry is dropped
 DOM.ready-initial  the initial ready collection is a *set*; each insertion is guarded by
                    "nothing to wait for"
 PAIR.pop-run       every pop from ready marks the key running and submits it exactly once
 OWN.*              running/finished/ready are only mutated by the scheduler functions
 ABS.batch          the batching loop tiles the submitted list without overlap or gap
 REACH.needed       the traversal is seeded from the requested keys and follows dependencies only
"""
from __future__ import annotations

import ast

from ..lib import *
from . import _sched

EXPLANATION = (
    "Static rules over dask/local.py: dominance of the emptiness test of a key's waiting set over every "
    "store into the ready list, pairing of ready.pop with running.add and exactly one submission, "
    "ownership of the scheduler-state fields, tiling of the batch slices, and seeding of the traversal "
    "from the requested keys.  Decides these structural clauses on every path of the code; does NOT "
    "decide exactly-once execution under real thread-pool timing."
)
ASSUMPTIONS = [
    "Python semantics of set/dict/list methods",
    "callbacks do not mutate scheduler state (they receive it by reference)",
    "chunksize is positive or -1 as documented",
]

LOCAL = "dask/local.py"


def check(ctx):
    model = ctx.model
    mod = model.module(LOCAL)
    ft = mod.func("finish_task")
    _ready_append(ctx, mod, ft)
    _ready_initial(ctx, mod)
    _pop_run(ctx, mod)
    _sched.ownership(ctx, fields=("ready", "running", "finished", "waiting"))
    _batch(ctx, mod)
    _needed_only(ctx, mod)
    # ---------------- the traversal is seeded with exactly the requested keys (an empty request stays empty)
    ga_ = mod.func("get_async")
    ss = [c for c in calls(ga_, "start_state_from_dask")]
    ok = len(ss) == 1 and unparse(kwarg(ss[0], "keys")) == "results" and eqv(ss[0].args[0], "dsk")
    ctx.ob("REACH.needed.seed", ga_, "start_state_from_dask(dsk, keys=results, ...): the set of requested keys, unmodified", ok, "" if ok else f"seeded with `{unparse(kwarg(ss[0], 'keys')) if ss else None}`: an empty request is turned into 'all keys' and tasks nobody asked for are executed")
    from .C08 import converter_dict_subclasses

    converter_dict_subclasses(ctx)
    # ---------------- cull hands fuse dependency LISTS that keep multiplicity (a key used twice is listed twice)
    cu = ctx.model.module("dask/optimization.py").func("cull")
    dk = find("dependencies_k = M_v", cu)
    ok = len(dk) == 1 and eqv(dk[0][1]["M_v"], "get_dependencies(dsk, k, as_list=True)")
    ctx.ob("CNT.cull.dependency-multiplicity", cu, "cull: dependencies_k = get_dependencies(dsk, k, as_list=True)", ok, "" if ok else "a de-duplicated list tells fuse that a task used twice by its only dependent is used once: it is inlined at every use and runs several times under multiprocessing.get")


# --------------------------------------------------------------------------- (a)
def _ready_append(ctx, mod, ft):
    sites = []
    for qn, f in mod.functions():
        for n, b in find("M_st['ready'].append(M_k)", f, nested=False):
            sites.append((f, n, b))
    ctx.count("ready_append_sites", len(sites))
    ctx.floor("ready_append_sites", 1, "state['ready'].append in dask/local.py")
    key_param = "key"
    for f, n, b in sites:
        k = b["M_k"]
        ktxt = unparse(k)
        facts = inline_facts(f, n)
        fb = has_fact(facts, "M_s['waiting'][M_k]", False, {"M_k": k}) or has_fact(
            facts, "len(M_s['waiting'][M_k]) == 0", True, {"M_k": k}
        )
        ctx.ob(
            "DOM.ready-append.empty-waiting",
            n,
            f"state['ready'].append({ktxt})",
            fb is not None,
            "guards: " + "; ".join(fact_strs(facts)) if fb is None else "dominated by emptiness of state['waiting'][%s]" % ktxt,
        )
        # the finished key was removed from that waiting set before the test
        removes = [
            (r, rb)
            for r, rb in find("M_x.remove(M_key)", f, nested=False)
            if dominates(f, r, n)
            and Pat("M_s['waiting'][M_k]").match(inline(rb["M_x"], r, f), {"M_k": k}) is not None
        ]
        ok = any(unparse(rb["M_key"]) == key_param and reaching_of(f).is_param(r, key_param) for r, rb in removes)
        ctx.ob(
            "DOM.ready-append.removed-finished-key",
            n,
            f"state['waiting'][{ktxt}].remove(key) before append",
            ok,
            "no dominating removal of the finished key from the waiting set" if not ok else "",
        )
        # the waiting entry is dropped together with the append
        dels = [
            d
            for d, db in find("del M_s['waiting'][M_k]", f, nested=False)
            if same(db["M_k"], k) and control_equivalent(f, d, n)
        ]
        ctx.ob(
            "PAIR.ready-append.del-waiting",
            n,
            f"del state['waiting'][{ktxt}] with append",
            bool(dels),
            "the waiting entry is not deleted on the path that makes the key ready" if not dels else "",
        )
        # the key ranges over the dependents of the finished key
        loops = [l for l in enclosing_loops(n) if isinstance(l, ast.For) and unparse(l.target) == ktxt]
        ok = False
        if loops:
            it = inline(loops[0].iter, loops[0], f)
            ok = any(
                unparse(bb["M_key"]) == key_param
                for _, bb in find("M_s['dependents'][M_key]", it)
            )
        ctx.ob(
            "DOM.ready-append.ranges-over-dependents",
            n,
            f"for {ktxt} in <state['dependents'][key]>",
            ok,
            "" if ok else "the candidate does not range over the dependents of the finished key",
        )


# --------------------------------------------------------------------------- (b)
def _ready_initial(ctx, mod):
    f = mod.func("start_state_from_dask")
    # the state dict literal
    dicts = [n for n in ast.walk(f) if isinstance(n, ast.Dict) and dict_literal_keys(n) and "ready" in dict_literal_keys(n)]
    if not dicts:
        raise AnchorMissing("start_state_from_dask: state dict literal with key 'ready' not found")
    sd = dict_literal_keys(dicts[0])
    ready_expr = inline(sd["ready"], dicts[0], f)
    m = Pat("sorted(M_set, *M_rest)").match(ready_expr)
    src = None
    if m is not None and isinstance(m["M_set"], ast.Name):
        src = m["M_set"].id
    setinit = None
    if src:
        for d in reaching_of(f).reaching(dicts[0], src) if False else []:
            pass
        # all plain assignments of the source must be set constructions
        from ..srcmodel import assigned_names

        defs = assigned_names(f).get(src, [])
        setinit = bool(defs) and all(
            isinstance(d, ast.Assign)
            and (Pat("set()").match(d.value) is not None or isinstance(d.value, (ast.Set, ast.SetComp)))
            for d in defs
        )
    ctx.ob(
        "DOM.ready-initial.from-set",
        dicts[0],
        "state['ready'] = sorted(<set>)",
        bool(src and setinit),
        f"initial ready list is built from {unparse(ready_expr)[:80]}" if not (src and setinit) else f"built from set {src}",
    )
    if not src:
        return
    # the local mapping that becomes state["waiting"]
    wnames = [n.id for n in ast.walk(sd["waiting"]) if isinstance(n, ast.Name) and n.id not in ("dict",)] if "waiting" in sd else []
    if len(wnames) != 1:
        raise AnchorMissing("start_state_from_dask: cannot identify the local waiting map")
    W = wnames[0]
    adds = find(f"{src}.add(M_k)", f, nested=False)
    ctx.count("ready_set_add_sites", len(adds))
    ctx.floor("ready_set_add_sites", 1)
    for n, b in adds:
        k = b["M_k"]
        ktxt = unparse(k)
        facts = inline_facts(f, n)
        why = None
        # idiom 1: task.dependencies - set(cache) is empty, for the key being visited
        for e, pol in facts:
            if pol is False:
                mm = Pat("M_t.dependencies - set(M_c)").match(e)
                if mm is not None:
                    # the task must be dsk[k]
                    t = inline(mm["M_t"], n, f)
                    if any(same(tb["M_k"], k) for _, tb in find("M_d.get(M_k, *M_r)", t) + find("M_d[M_k]", t)):
                        why = "no dependency outside the cache"
        # idiom 2: waiting[k] became empty after removing the resolved data key
        if why is None and has_fact(facts, f"{W}[M_k]", False, {"M_k": k}) is not None:
            rem = [
                r
                for r, rb in find(f"{W}[M_k].remove(M_x)", f, nested=False)
                if same(rb["M_k"], k) and dominates(f, r, n)
            ]
            if rem:
                why = "waiting set emptied by resolving a data node"
        # idiom 3: k is not waiting at all
        if why is None and has_fact(facts, f"M_k in {W}", False, {"M_k": k}) is not None:
            why = "key has no waiting entry"
        ctx.ob(
            "DOM.ready-initial.guard",
            n,
            f"{src}.add({ktxt})",
            why is not None,
            why or ("unguarded insertion; guards: " + "; ".join(fact_strs(facts))),
        )
    # waiting[key] is assigned exactly the missing dependencies
    w = find(f"{W}[M_k] = M_v", f, nested=False)
    for n, b in w:
        v = inline(b["M_v"], n, f)
        ok = any(True for _ in find("M_t.dependencies - set(M_c)", v))
        ctx.ob(
            "DOM.waiting-initial.value",
            n,
            f"waiting[{unparse(b['M_k'])}] = <deps - cache>",
            ok,
            "" if ok else f"waiting set initialised from {unparse(v)[:80]}",
        )
    ctx.count("waiting_initial_sites", len(w))
    ctx.floor("waiting_initial_sites", 1)


# --------------------------------------------------------------------------- (c)
def _pop_run(ctx, mod):
    sites = []
    for qn, f in mod.functions():
        for n, b in find("M_st['ready'].pop(*M_rest)", f, nested=False):
            sites.append((f, n))
    ctx.count("ready_pop_sites", len(sites))
    ctx.floor("ready_pop_sites", 1)
    for f, n in sites:
        st = enclosing_stmt(n)
        if not (isinstance(st, ast.Assign) and len(st.targets) == 1 and isinstance(st.targets[0], ast.Name)):
            ctx.ob("PAIR.pop-run.bind", n, "key = state['ready'].pop()", None, "popped key is not bound to a name")
            continue
        k = st.targets[0].id
        adds = [a for a, ab in find(f"M_s['running'].add({k})", f, nested=False) if control_equivalent(f, st, a)]
        ctx.ob(
            "PAIR.pop-run.running-add",
            n,
            "state['ready'].pop() ; state['running'].add(key)",
            len(adds) == 1,
            "" if len(adds) == 1 else f"{len(adds)} running.add({k}) in the same block",
        )
        subs = []
        for a, ab in find("M_args.append(M_t)", f, nested=False):
            t = ab["M_t"]
            if isinstance(t, ast.Tuple) and t.elts and unparse(t.elts[0]) == k and control_equivalent(f, st, a):
                subs.append((a, ab))
        ctx.ob(
            "PAIR.pop-run.one-submission",
            n,
            "state['ready'].pop() ; args.append((key, ...)) exactly once",
            len(subs) == 1,
            "" if len(subs) == 1 else f"{len(subs)} submissions for the popped key",
        )
        # a popped key keeps the same binding up to the submission (no rebinding in between)
        if subs:
            a = subs[0][0]
            r = reaching_of(f).reaching(a, k)
            ok = len(r) == 1 and r[0][2] is st
            ctx.ob("PAIR.pop-run.same-key", n, "submitted key is the popped key", ok, "" if ok else "key rebound between pop and submission")


# --------------------------------------------------------------------------- (e)
def _batch(ctx, mod):
    f = mod.func("get_async.fire_tasks")
    subs = find("submit(M_fn, M_each)", f, nested=False)
    ctx.count("submit_sites", len(subs))
    ctx.floor("submit_sites", 1)
    for n, b in subs:
        ok_fn = unparse(b["M_fn"]) == "batch_execute_tasks"
        ctx.ob("ABS.batch.worker-fn", n, "submit(batch_execute_tasks, <slice>)", ok_fn, "" if ok_fn else unparse(b["M_fn"]))
        each = inline(b["M_each"], n, f)
        m = Pat("M_args[M_i * M_c:(M_i + 1) * M_c]").match(each)
        loops = [l for l in enclosing_loops(n) if isinstance(l, ast.For)]
        ok = False
        detail = f"slice is {unparse(each)}"
        c = None
        if m is not None and loops:
            lp = loops[0]
            i, c, args = m["M_i"], m["M_c"], m["M_args"]
            rng = Pat("range(-(len(M_args) // -M_c))").match(lp.iter, {"M_args": args, "M_c": c})
            ok = rng is not None and same(lp.target, i)
            if not ok:
                detail = f"loop is `for {unparse(lp.target)} in {unparse(lp.iter)}` for slice {unparse(each)}"
        ctx.ob(
            "ABS.batch.tiling",
            n,
            "for i in range(ceil(len(args)/c)): args[i*c:(i+1)*c]",
            ok,
            "consecutive half-open slices of width c tile range(len(args))" if ok else detail,
        )
        # the list that is tiled is the list the popped keys were appended to
        if m is not None:
            appended = {unparse(ab["M_args"]) for _, ab in find("M_args.append(M_t)", f, nested=False)}
            ok2 = unparse(m["M_args"]) in appended
            ctx.ob("ABS.batch.same-list", n, "the tiled list is the list of prepared tasks", ok2, "" if ok2 else f"tiled {unparse(m['M_args'])}, appended to {appended}")
        # batch width is >= 1 on every path
        if c is not None and isinstance(c, ast.Name) and loops:
            defs = reaching_of(f).reaching(loops[0], c.id)
            for name, val, st in defs:
                if val == "param":
                    ctx.ob("ABS.batch.width-positive", st, f"{c.id} is the caller's chunksize (documented positive when not -1)", True, nontrivial=False)
                    continue
                okw = False
                if isinstance(val, ast.AST):
                    mm = Pat("max(M_a, M_b)").match(val)
                    if mm is not None:
                        consts = [const(mm["M_a"]), const(mm["M_b"])]
                        okw = any(isinstance(x, int) and x >= 1 for x in consts)
                ctx.ob(
                    "ABS.batch.width-positive",
                    st,
                    f"{c.id} = {unparse(val) if isinstance(val, ast.AST) else val}",
                    okw,
                    "clamped to >= 1" if okw else "computed batch width can be 0 when nothing is ready (division by zero in the batching loop)",
                )
        # results come back: the future reports into the queue
        cbs = find("M_fut.add_done_callback(M_q.put)", f, nested=False)
        okcb = any(control_equivalent(f, n, c_) for c_, _ in cbs)
        ctx.ob("PAIR.batch.done-callback", n, "submit(...) ; fut.add_done_callback(queue.put)", okcb, "" if okcb else "submitted batch never reports back")


# --------------------------------------------------------------------------- (f)
def _needed_only(ctx, mod):
    f = mod.func("start_state_from_dask")
    inits = find("stack = M_v", f, nested=False)
    ok = len(inits) == 1 and Pat("list(keys)").match(inits[0][1]["M_v"]) is not None
    ctx.ob(
        "REACH.needed.seed",
        inits[0][0] if inits else f,
        "stack = list(keys)",
        ok,
        "" if ok else "traversal is not seeded from the requested keys",
    )
    # keys parameter defaults to every key only when None
    rebinds = [(n, b) for n, b in find("keys = M_v", f, nested=False)]
    for n, b in rebinds:
        facts = inline_facts(f, n)
        ok = has_fact(facts, "keys is None", True) is not None
        ctx.ob(
            "REACH.needed.default-only-when-none",
            n,
            "keys is replaced by `every key` only when the caller passed None",
            ok,
            "" if ok else "an explicit (e.g. empty) request is replaced by the whole graph: unneeded tasks run; guards: " + "; ".join(fact_strs(facts)),
        )
    pushes = find("stack.append(M_x)", f, nested=False) + find("stack.extend(M_x)", f, nested=False)
    ctx.count("stack_push_sites", len(pushes))
    ctx.floor("stack_push_sites", 1)
    for n, b in pushes:
        x = b["M_x"]
        loops = [l for l in enclosing_loops(n) if isinstance(l, ast.For) and same(l.target, x)]
        ok = bool(loops) and Pat("M_t.dependencies").match(inline(loops[0].iter, loops[0], f)) is not None
        ctx.ob(
            "REACH.needed.push-dependencies",
            n,
            f"stack.append({unparse(x)}) for {unparse(x)} in task.dependencies",
            ok,
            "" if ok else "pushed key is not a dependency of the visited task",
        )
    # visited once
    seen_guard = find("seen.add(M_k)", f, nested=False)
    ok = False
    for n, b in seen_guard:
        facts = inline_facts(f, n)
        if has_fact(facts, "M_k in seen", False, {"M_k": b["M_k"]}) is not None:
            ok = True
    ctx.ob("REACH.needed.visit-once", f, "if key in seen: continue ; seen.add(key)", ok, "" if ok else "no visited-set guard")


# --------------------------------------------------------------------------- witness self-test (thorough)
VARIANTS = [
    (LOCAL, '        if not s:\n            del state["waiting"][dep]\n', '        if True:\n            del state["waiting"][dep]\n', "DOM.ready-append.empty-waiting"),
    (LOCAL, '            del state["waiting"][dep]\n', "            pass\n", "PAIR.ready-append.del-waiting"),
    (LOCAL, 'for dep in sorted(state["dependents"][key], key=sortkey, reverse=True):', 'for dep in sorted(state["dependencies"][key], key=sortkey, reverse=True):', "ranges-over-dependents"),
    (LOCAL, '        s = state["waiting"][dep]\n        s.remove(key)\n', '        s = state["waiting"][dep]\n        s.discard(dep)\n', "removed-finished-key"),
    (LOCAL, '                    state["running"].add(key)\n', "                    pass\n", "PAIR.pop-run.running-add"),
    (LOCAL, "args[i * chunksize : (i + 1) * chunksize]", "args[i * chunksize : (i + 1) * chunksize + 1]", "ABS.batch.tiling"),
    (LOCAL, "chunksize = max(-(ntasks // -num_workers), 1)", "chunksize = -(ntasks // -num_workers)", "ABS.batch.width-positive"),
    (LOCAL, "                stack.append(dep)\n", "                stack.append(key)\n", "REACH.needed.push-dependencies"),
    (LOCAL, "            if not _wait:\n", "            if _wait is not None:\n", "DOM.ready-initial.guard"),
    (LOCAL, "    stack = list(keys)\n", "    stack = list(dsk)\n", "REACH.needed.seed"),
    (LOCAL, "    if keys is None:\n        keys = list(set(dsk) - set(cache))", "    if not keys:\n        keys = list(set(dsk) - set(cache))", "REACH.needed.default-only-when-none"),
    (LOCAL, "                    fut.add_done_callback(queue.put)\n", "                    pass\n", "PAIR.batch.done-callback"),
    (LOCAL, "    ready_set = set()\n", "    ready_set = []\n", "DOM.ready-initial.from-set"),
    ("dask/cache.py", "        self.durations = dict()\n", "        self.durations = dict()\n        state['ready'].append(None)\n", "OWN.state-writer"),
]


def selftest(ctx):
    from ..variants import selftest as st

    return st(ctx, "C02", VARIANTS)
