"""C25 -- lazy array metadata matches the computed data (narrow: the definitions of the metadata).

Decided (dask/array/core.py::Array):
 ALG.metadata       the chunk-derived metadata are the functions of `chunks` they are defined to be:
                    numblocks = lengths of the chunk tuples; npartitions = their product; shape = the sum
                    of each chunk tuple; chunksize = the maxima; ndim = len(shape); size = product(shape);
                    nbytes = size * itemsize; dtype is the meta's dtype
 TYPESTATE.cache    every cached property that (transitively) depends on `chunks` is invalidated by the
                    `_chunks` setter (compute_chunk_sizes replaces nan chunks in place: a stale cache would
                    keep reporting the old shape)
 ALG.keys           __dask_keys__ nests the block keys in C order: the last axis varies fastest and each key
                    is (name, i0, ..., ik); the cache is dropped when the name changes
 TWIN.agree         dtype / __len__ / the key nesting agree with the expression engine's copies
Not decided: that every operation declares the right chunks for what its blocks compute.
"""
from __future__ import annotations

import ast

from ..lib import *
from ..twin import check_pairs, check_loose
from ._twins import pairs_for, loose_for

EXPLANATION = (
    "Definitional rules over dask/array/core.py::Array: each chunk-derived property (numblocks, npartitions, "
    "shape, chunksize, ndim, size, nbytes) is the stated function of `chunks`; the `_chunks` setter invalidates "
    "every cached property that depends on chunks; __dask_keys__ nests keys in C order; plus twin agreement with "
    "the expression engine for dtype/__len__/keys.  Whether operations declare correct chunks is NOT decided."
)
ASSUMPTIONS = ["cached_cumsum(c, initial_zero=True)[-1] is sum(c)", "cached_max(c) is max(c)"]
CORE = "dask/array/core.py"
DEFS = {
    "numblocks": "tuple(map(len, self.chunks))",
    "npartitions": "reduce(mul, self.numblocks, 1)",
    "shape": "tuple((cached_cumsum(c, initial_zero=True)[-1] for c in self.chunks))",
    "chunksize": "tuple((cached_max(c) for c in self.chunks))",
    "ndim": "len(self.shape)",
    "size": "reduce(mul, self.shape, 1)",
    "nbytes": "self.size * self.dtype.itemsize",
    "itemsize": "self.dtype.itemsize",
}


def newaxis_taker(ctx):
    """ALG.newaxes.taker-positions (C25, C20): None entries are re-inserted into a fancy-index taker at the
    positions that are left after the integers of the index were applied (the taker has no axes for them)."""
    f = ctx.model.module("dask/array/slicing.py").func("slice_with_newaxes")
    tk = find("indexer = M_e(dsk[v.args[1].key].value[1], None)", f)
    ok = len(tk) == 1 and eqv(tk[0][1]["M_e"], "expand") and bool(find("expand = expander(where_none)", f)) and bool(find("arg = expand_orig(v.args[1], None)", f))
    ctx.ob("ALG.newaxes.taker-positions", f, "taker branch: expand(<taker>, None) with the integer-adjusted positions; plain-index branch: expand_orig(v.args[1], None)", ok, "" if ok else "the new axis lands one place too far right for every integer that precedes the None: computed shape differs from the declared one")


def check(ctx):
    model = ctx.model
    arr = model.klass(CORE, "Array")
    props = {}
    for st in arr.node.body:
        if isinstance(st, ast.FunctionDef) and any(unparse(d) in ("property", "cached_property", "functools.cached_property") for d in st.decorator_list):
            props.setdefault(st.name, st)
    for name, want in DEFS.items():
        f = props.get(name)
        if f is None:
            raise AnchorMissing(f"Array.{name}")
        rs = returns(f)
        ok = len(rs) == 1 and unparse(rs[0].value) == want
        ctx.ob("ALG.metadata", f, f"Array.{name} = {want}", ok, "" if ok else f"defined as {unparse(rs[0].value) if rs else None}: the lazy {name} no longer follows from chunks")
    dt = props["dtype"]
    ok = {unparse(r.value) for r in returns(dt)} == {"dtype"} and bool(find("dtype = self._meta.dtype", dt)) and bool(find("dtype = self._meta[0].dtype", dt))
    ctx.ob("ALG.metadata", dt, "Array.dtype = the meta's dtype", ok)
    # ---------------- cache invalidation
    cached = {n for n, f in props.items() if any("cached_property" in unparse(d) for d in f.decorator_list)}
    reads = {}
    for n, f in props.items():
        reads[n] = {x.attr for x in ast.walk(f) if isinstance(x, ast.Attribute) and isinstance(x.value, ast.Name) and x.value.id == "self"} | {c.func.attr for c in ast.walk(f) if isinstance(c, ast.Call) and isinstance(c.func, ast.Attribute) and isinstance(c.func.value, ast.Name) and c.func.value.id == "self"}
    # __dask_keys__ reads chunks/numblocks: whatever reads it depends on chunks too
    dk = arr.own_methods["__dask_keys__"]
    reads["__dask_keys__"] = {x.attr for x in ast.walk(dk) if isinstance(x, ast.Attribute) and isinstance(x.value, ast.Name) and x.value.id == "self"}
    dep = {"chunks", "_chunks"}
    changed = True
    while changed:
        changed = False
        for n, r in reads.items():
            if n not in dep and r & dep:
                dep.add(n)
                changed = True
    need = sorted(cached & dep)
    setter = [st for st in arr.node.body if isinstance(st, ast.FunctionDef) and st.name == "_chunks" and any(unparse(d).endswith(".setter") for d in st.decorator_list)]
    if not setter:
        raise AnchorMissing("Array._chunks setter")
    loops = [l for l in walk_no_nested(setter[0]) if isinstance(l, ast.For) and isinstance(l.iter, (ast.List, ast.Tuple)) and bool(find("self._reset_cache(key)", l))]
    reset = {const(e) for e in loops[0].iter.elts} if loops else set()
    ctx.count("chunk_dependent_cached_properties", len(need))
    ctx.floor("chunk_dependent_cached_properties", 5)
    missing = [n for n in need if n not in reset]
    ctx.ob("TYPESTATE.cache", setter[0], f"the _chunks setter invalidates every chunk-dependent cached property {need}", not missing and bool(loops), "" if not missing else f"{missing} stay cached when the chunks are replaced (compute_chunk_sizes): the lazy metadata keeps the old value")
    rc = arr.own_methods["_reset_cache"]
    ok = bool(find("self.__dict__.pop(key, None)", rc)) and bool(find("self.__dict__.clear()", rc))
    ctx.ob("TYPESTATE.cache.reset", rc, "_reset_cache drops the cached value from the instance dict", ok)
    # ---------------- keys
    kf = next((n for n in ast.walk(dk) if isinstance(n, ast.FunctionDef) and n.name == "keys"), None)
    if kf is None:
        raise AnchorMissing("Array.__dask_keys__.keys")
    ok = bool(find("result = [(name,) + args + (i,) for i in range(numblocks[ind])]", kf)) and bool(find("result = [keys(*args + (i,)) for i in range(numblocks[ind])]", kf)) and any(eqv(n.test, "ind + 1 == len(numblocks)") for n in walk_no_nested(kf) if isinstance(n, ast.If)) and bool(find("ind = len(args)", kf))
    ctx.ob("ALG.keys", kf, "keys are nested axis by axis, the last axis innermost: (name, *outer, i)", ok)
    ok = bool(find("(name, chunks, numblocks) = (self.name, self.chunks, self.numblocks)", dk)) or bool(find("name, chunks, numblocks = (self.name, self.chunks, self.numblocks)", dk))
    ctx.ob("ALG.keys.source", dk, "keys are built from this array's name and numblocks", ok)
    ns = [st for st in arr.node.body if isinstance(st, ast.FunctionDef) and st.name == "_name" and any(unparse(d).endswith(".setter") for d in st.decorator_list)]
    ok = bool(ns) and bool(find("self._cached_keys = None", ns[0]))
    ctx.ob("TYPESTATE.cache.keys", ns[0] if ns else arr.node, "renaming the array drops the cached keys", ok)
    # ---------------- twins
    n = check_pairs(ctx, pairs_for("C25"))
    check_loose(ctx, loose_for("C25"))
    ctx.count("twin_pairs", n)
    ctx.floor("twin_pairs", 3)
    # ---------------- fuse_slice (the getitem fusion run by the default optimisation): both operands' stops are
    # combined unless absent
    fs = model.module("dask/array/optimization.py").func("fuse_slice")
    tests = [n for n in ast.walk(fs) if isinstance(n, ast.If) and "b.stop" in unparse(n.test)]
    ok = bool(tests) and all(unparse(n.test) in ("b.stop is not None", "a.stop is not None and b.stop is not None", "b.stop is None") or "is not None" in unparse(n.test) or "is None" in unparse(n.test) for n in tests)
    ctx.ob("ALG.fuse-slice.stop", fs, "fuse_slice tests the stops with `is (not) None`", ok, "" if ok else "a stop of 0 is treated as missing: x[2:][:0] is fused into x[2:] and computes more rows than the lazy shape says")
    # ---------------- per-block dtype of sequential scans (shared with C22): the carry blocks have the scan dtype
    red_ = model.module("dask/array/reductions.py").func("cumreduction")
    fl_ = [t for t in ast.walk(red_) if isinstance(t, ast.Tuple) and len(t.elts) == 4 and eqv(t.elts[1], "np.full_like")]
    ok = len(fl_) == 1 and eqv(fl_[0].elts[2], "(x._meta, ident, m.dtype)")
    ctx.ob("ALG.scan.carry-dtype", red_, "cumreduction: the carry blocks are created with m.dtype (the declared dtype of the result)", ok, "" if ok else "blocks after the first take the input dtype while the array declares the requested dtype")
    # ---------------- blockwise without alignment: on a tie in the number of blocks, length-1 blocks broadcast
    for rel, q in (("dask/array/blockwise.py", "blockwise"), ("dask/array/_array_expr/_blockwise.py", "Blockwise.chunks")):
        f = ctx.model.module(rel).func(q)
        picks = [n for n in ast.walk(f) if isinstance(n, ast.If) and eqv(n.test, "i not in chunkss or len(c) > len(chunkss[i])")]
        ok = len(picks) == 1 and len(picks[0].orelse) == 1 and isinstance(picks[0].orelse[0], ast.If) and eqv(picks[0].orelse[0].test, "len(c) == len(chunkss[i])")
        if ok:
            ok = bool(find("chunkss[i] = tuple((b if a == 1 else a for (a, b) in zip(chunkss[i], c)))", picks[0].orelse[0]))
        ctx.ob("ALG.blockwise.unaligned-chunks", f, f"{q}: most blocks win; on a tie, blocks of length 1 take the other input's block lengths", ok, "" if ok else "on a tie the first input wins even when its blocks have length 1 and broadcast: map_blocks(np.add, x(1,6), y(4,6)) declares shape (1, 6) but computes (4, 6)")
    # ---------------- "any array expression": the metadata arithmetic of every array routine that has a twin in the
    # expression engine must agree with it, and two array results that differ must not share a name (a shared
    # name makes one result's blocks stand in for the other's: computed shape != lazy shape)
    from ._twins import all_pairs, all_loose
    from .C13 import key_inputs

    n_all = check_pairs(ctx, all_pairs(), rule="TWIN.agree.all")
    check_loose(ctx, all_loose(), rule="TWIN.shared-line.all")
    ctx.count("all_twin_pairs", n_all)
    key_inputs(ctx, floor=40, prefix="dask/array/")
    newaxis_taker(ctx)


VARIANTS = [
    (CORE, "        return tuple(cached_cumsum(c, initial_zero=True)[-1] for c in self.chunks)", "        return tuple(cached_cumsum(c, initial_zero=True)[-2] for c in self.chunks)", "ALG.metadata"),
    (CORE, '        for key in ["numblocks", "npartitions", "shape", "ndim", "size", "_key_array"]:', '        for key in ["numblocks", "npartitions", "ndim", "size", "_key_array"]:', "TYPESTATE.cache"),
    (CORE, "                result = [(name,) + args + (i,) for i in range(numblocks[ind])]", "                result = [(name,) + (i,) + args for i in range(numblocks[ind])]", "ALG.keys"),
    (CORE, "        return reduce(mul, self.shape, 1)", "        return reduce(mul, self.shape, 0)", "ALG.metadata"),
]


def selftest(ctx):
    from ..variants import selftest as st

    return st(ctx, "C25", VARIANTS)
