"""C09 -- low-level graph optimisations keep requested keys (and keep graph/dependency maps in step).

Decided:
 DOM.protect.*    for cull, inline_functions, fuse_linear, fuse, fuse_linear_task_spec,
                  resolve_aliases: every way a key can leave the output graph is guarded by
                  "not a requested key" (the guard idioms the repo uses are catalogued below)
 REACH.cull.*     cull is seeded from the requested keys, copies dsk[k] unchanged and follows
                  dependencies
 PAIR.deps.*      in functions returning (graph, dependencies) every key removal / alias insertion
                  on the graph is paired with the same-key update of the dependency map
Not decided: that substitution (`subs`, Task.fuse) preserves values.
"""
from __future__ import annotations

import ast

from ..lib import *

EXPLANATION = (
    "Dominance + provenance rules over dask/optimization.py and dask/_task_spec.py: every removal of a key "
    "from an optimiser's output (del, pop, omission through fusion) has an operand that is guarded by a "
    "'not requested' test on every path; cull's traversal is seeded from the requested keys; graph and "
    "dependency-map mutations are paired.  Value preservation by substitution is NOT decided."
)
ASSUMPTIONS = ["`keys`/`output` hold exactly the requested keys (callers pass them: C01)"]
OPT = "dask/optimization.py"
TS = "dask/_task_spec.py"


def _not_requested(facts, k, names=("keys", "output")):
    for nm in names:
        for pat in (f"M_k in {nm}", f"M_k in ({nm} or ())", f"{nm} is not None and M_k in {nm}"):
            if has_fact(facts, pat, False, {"M_k": k}) is not None:
                return True
    return False


def check(ctx):
    model = ctx.model
    opt = model.module(OPT)
    ts = model.module(TS)
    _cull(ctx, opt.func("cull"), style="legacy")
    _cull(ctx, ts.func("cull"), style="spec")
    _inline_functions(ctx, opt)
    _fuse_linear(ctx, opt)
    _fuse(ctx, opt)
    _fuse_linear_task_spec(ctx, ts)
    _resolve_aliases(ctx, ts)
    # ---------------- renamed fused keys must be fresh: neither a key of the input graph nor one already produced
    fl_ = opt.func("fuse_linear") if "opt" in dir() else ctx.model.module("dask/optimization.py").func("fuse_linear")
    ir = [x for x in find("is_renamed = M_v", fl_) if not isinstance(x[1]["M_v"], ast.Constant)]
    ok = len(ir) == 1 and unparse(ir[0][1]["M_v"]) == "new_key is not None and new_key not in dsk and (new_key not in rv)"
    ctx.ob("DOM.rename.fresh-key", fl_, "fuse_linear renames a chain only if the new key is in neither the input graph nor the result so far", ok, "" if ok else "two chains that get the same fused name overwrite each other: a requested key then evaluates to the other chain's value")
    from .C13 import fused_name_hash

    fused_name_hash(ctx)
    # ---------------- collection optimizers receive NESTED keys (several collections at once): every pass gets them flattened
    KEYED = {"fuse_linear_task_spec", "cull", "fuse_roots", "optimize_blockwise", "fuse", "inline", "inline_functions", "fuse_linear"}
    n_k = 0
    for rel in ("dask/delayed.py", "dask/bag/core.py", "dask/array/optimization.py"):
        of = model.module(rel).func("optimize")
        flat = [a for a, _ in find("keys = list(flatten(keys))", of)]
        for c in calls(of, None):
            nm = (call_name(c) or "").split(".")[-1]
            if nm not in KEYED:
                continue
            kargs = [a for a in list(c.args) + [k.value for k in c.keywords] if any(isinstance(n, ast.Name) and n.id == "keys" for n in ast.walk(a))]
            for a in kargs:
                n_k += 1
                ok = "flatten(keys)" in unparse(a) or any(dominates(of, fl, c) for fl in flat)
                ctx.ob("SIB.optimizer.flat-keys", c, f"{rel}::optimize: {unparse(c)[:80]} receives flattened keys", ok, "" if ok else "computing several collections together passes a nested list of keys: set(keys) raises TypeError (or the nested lists are taken for keys and everything else is culled)")
    ctx.count("optimizer_key_uses", n_k)
    ctx.floor("optimizer_key_uses", 7)
    # ---------------- substitution is simultaneous: a node that REPLACES a reference is not itself rewritten with the same mapping
    ts_ = model.module("dask/_task_spec.py")
    for qn in ("TaskRef.substitute", "Alias.substitute"):
        sf_ = ts_.func(qn)
        inner = [c for c in ast.walk(sf_) if isinstance(c, ast.Call) and isinstance(c.func, ast.Attribute) and c.func.attr == "substitute" and isinstance(c.func.value, ast.Name) and c.func.value.id == "val"]
        ok = len(inner) == 1 and inner[0].args and eqv(inner[0].args[0], "{}")
        ctx.ob("ALG.substitute.simultaneous", sf_, f"{qn}: a GraphNode replacement is only re-keyed (val.substitute({{}}, key=...))", ok, "" if ok else "the replacement is rewritten again with the same mapping: {'a': <inc(b)>, 'b': 'b2'} turns add(a, b) into add(inc(b2), b2) instead of add(inc(b), b2)")
    # ---------------- whoever finds a dependency must be able to rewrite it: subs descends where keys_in_tasks descends
    kit_ = model.module("dask/core.py").func("keys_in_tasks")
    subs_ = model.module("dask/core.py").func("subs")
    kinds = sorted({unparse(n.test).split(" is ")[1] for n in ast.walk(kit_) if isinstance(n, ast.If) and unparse(n.test).startswith("typ is ") and unparse(n.test).split(" is ")[1] in ("list", "dict", "set", "frozenset")})
    ctx.count("extractor_container_kinds", len(kinds))
    ctx.floor("extractor_container_kinds", 2, "list and dict")
    stxt = unparse(subs_)
    for kd in kinds:
        ok = f"type_task is {kd}" in stxt and f"type_arg is {kd}" in stxt
        ctx.ob("SIB.subs-extract", subs_, f"subs descends into a {kd} (as the whole value and as an argument), like keys_in_tasks", ok, "" if ok else f"keys_in_tasks reports keys inside a {kd} as dependencies but subs leaves them: fuse/inline remove the dependency's key and the reference survives as a literal")
    # ---------------- round 4b (C09-m8): Task.substitute treats keyword arguments like positional ones
    from ..lib import eqv as _e4
    tsub4 = ctx.model.klass("dask/_task_spec.py", "Task").own_methods["substitute"]
    tests4 = {}
    for n4 in ast.walk(tsub4):
        if isinstance(n4, ast.IfExp) and isinstance(n4.test, ast.Call) and _e4(n4.test.func, "isinstance") and isinstance(n4.body, ast.Call) and isinstance(n4.body.func, ast.Attribute) and n4.body.func.attr == "substitute":
            ty4 = n4.test.args[1]
            names4 = frozenset(unparse(e) for e in (ty4.elts if isinstance(ty4, ast.Tuple) else [ty4]))
            tests4[unparse(n4.test.args[0])] = (names4, n4)
    ok = len(tests4) == 2 and len({v[0] for v in tests4.values()}) == 1 and all("TaskRef" in v[0] and "GraphNode" in v[0] for v in tests4.values())
    site4 = next((v[1] for v in tests4.values() if "TaskRef" not in v[0]), tsub4)
    ctx.ob("SIB.substitute.args-kwargs", site4, "Task.substitute rewrites GraphNode and TaskRef values alike in args and in kwargs", ok, "" if ok else f"{ {k: sorted(v[0]) for k, v in tests4.items()} }: a TaskRef passed as keyword argument keeps the old key after substitution -- the renamed graph has a dangling dependency")


def _cull(ctx, f, style):
    name = f"{module_of(f).relpath.split('/')[-1]}:cull"
    # seed
    seeds = [(n, b) for n, b in find("work = M_v", f, nested=False) if not enclosing_loops(n)]
    ok = len(seeds) == 1 and derives_from(f, seeds[0][0], seeds[0][1]["M_v"], "keys")
    if ok:
        # the seed is the *whole* request: only total wrappers around `keys`
        v = seeds[0][1]["M_v"]
        while isinstance(v, ast.Call) and call_name(v) in ("list", "set", "flatten", "tuple") and len(v.args) == 1 and not v.keywords:
            v = v.args[0]
        ok = isinstance(v, ast.Name) and v.id == "keys"
    ctx.ob("REACH.cull.seed", seeds[0][0] if seeds else f, f"{name}: work is seeded from keys", ok)
    aliases = {}
    for n, b in find("M_a = M_o.M_meth", f, nested=False):
        if isinstance(b["M_a"], ast.Name):
            aliases[b["M_a"].id] = (unparse(b["M_o"]), b["M_meth"])
    # copy
    outname = "out" if style == "legacy" else "dsk2"
    stores = [n for n in walk_no_nested(f) if isinstance(n, ast.Assign) and any(isinstance(t, ast.Subscript) and unparse(t.value) == outname for t in n.targets)]
    ctx.count("cull_store_sites", len(stores))
    for n in stores:
        t = [t for t in n.targets if isinstance(t, ast.Subscript) and unparse(t.value) == outname][0]
        ok = Pat("dsk[M_k]").match(n.value, {"M_k": t.slice}) is not None
        ctx.ob("REACH.cull.copy", n, f"{name}: {outname}[k] = dsk[k]", ok, "" if ok else f"stores {unparse(n.value)}")
        # k comes from the work collection
        k = t.slice
        src_ok = False
        if isinstance(k, ast.Name):
            for nm, val, st in reaching_of(f).reaching(n, k.id):
                if isinstance(st, ast.For) and eqv(st.iter, "work"):
                    src_ok = True
                if isinstance(val, ast.Call):
                    cn = call_name(val)
                    if cn in aliases and aliases[cn] == ("work", "pop") or cn == "work.pop":
                        src_ok = True
        ctx.ob("REACH.cull.from-work", n, f"{name}: k ranges over the work collection", src_ok)
    if not stores:
        raise AnchorMissing(f"{name}: no store into the output graph")
    # dependencies are pushed
    if style == "legacy":
        pushes = find("new_work.append(M_d)", f, nested=False)
        ok = False
        for n, b in pushes:
            loops = [l for l in enclosing_loops(n) if isinstance(l, ast.For) and same(l.target, b["M_d"])]
            if loops:
                it = resolve(loops[0].iter, loops[0], f)
                ok = Pat("get_dependencies(dsk, M_k, *M_rest)").match(it) is not None
        ctx.ob("REACH.cull.push-deps", f, f"{name}: dependencies of every kept key are visited", ok and bool(find("work = new_work", f)))
        rs = returns(f)
        ok = len(rs) == 1 and eqv(rs[0].value, "(out, dependencies)")
        ctx.ob("REACH.cull.return", f, f"{name}: returns (out, dependencies)", ok)
    else:
        ok = any(call_name(c) in aliases and aliases[call_name(c)] == ("work", "update") and unparse(c.args[0]).endswith(".dependencies") for c in calls(f)) or bool(find("work.update(M_v.dependencies)", f))
        ctx.ob("REACH.cull.push-deps", f, f"{name}: dependencies of every kept key are visited", ok)
        rs = [r for r in returns(f) if eqv(r.value, "dsk2")]
        ctx.ob("REACH.cull.return", f, f"{name}: returns the culled graph", len(rs) == 1)


def _inline_functions(ctx, opt):
    f = opt.func("inline_functions")
    inl = opt.func("inline_functions.inlinable")
    trues = [r for r in returns(inl) if const(r.value) is True]
    ctx.count("inlinable_true_returns", len(trues))
    ctx.floor("inlinable_true_returns", 1)
    for r in trues:
        facts = inline_facts(inl, r)
        ok = _not_requested(facts, ast.Name(id="key", ctx=ast.Load()))
        ctx.ob("DOM.protect.inline-functions", r, "inlinable(key, task) is True only if key not in output", ok, "" if ok else "guards: " + "; ".join(fact_strs(facts)))
        # `inline` rewrites legacy tuples only: a key may be deleted only if NO dependent is a GraphNode
        # (a node dependent would keep a reference to the deleted key)
        ok2 = has_fact(facts, "any((isinstance(dsk[M_d], GraphNode) for M_d in dependents[key]))", False) is not None
        ctx.ob("DOM.protect.inline-functions.no-node-dependent", r, "inlinable only if no dependent of key is a GraphNode", ok2, "" if ok2 else "a key with a task-object dependent can be inlined and deleted: that dependent keeps a dangling reference; guards: " + "; ".join(fact_strs(facts)))
        ok3 = has_fact(facts, "isinstance(task, GraphNode)", False) is not None and has_fact(facts, "istask(task)", True) is not None
        ctx.ob("DOM.protect.inline-functions.legacy-task", r, "inlinable only for legacy task tuples", ok3)
    dels = find("del dsk[M_k]", f, nested=False)
    ctx.count("inline_functions_del_sites", len(dels))
    ctx.floor("inline_functions_del_sites", 1)
    for n, b in dels:
        loops = [l for l in enclosing_loops(n) if isinstance(l, ast.For) and same(l.target, b["M_k"])]
        ok = False
        if loops and isinstance(loops[0].iter, ast.Name):
            v = resolve(loops[0].iter, loops[0], f)
            if isinstance(v, ast.ListComp) and len(v.generators) == 1:
                g = v.generators[0]
                ok = any(isinstance(i, ast.Call) and call_name(i) == "inlinable" and unparse(i.args[0]) == unparse(v.elt) for i in g.ifs) and eqv(g.iter, "dsk.items()")
        ctx.ob("DOM.protect.inline-functions.deleted-are-inlinable", n, "for k in [k for k, v in dsk.items() if inlinable(k, v)]: del dsk[k]", ok)
    ok = bool(find("output = set(output)", f, nested=False))
    ctx.ob("DOM.protect.inline-functions.output-set", f, "output = set(output)", ok, nontrivial=False)


def _fuse_linear(ctx, opt):
    f = opt.func("fuse_linear")
    st = find("child2parent[M_c] = M_p", f, nested=False)
    ctx.count("fuse_linear_link_sites", len(st))
    ctx.floor("fuse_linear_link_sites", 1)
    for n, b in st:
        facts = inline_facts(f, n)
        ok = _not_requested(facts, b["M_c"])
        ctx.ob("DOM.protect.fuse-linear.link", n, "a child is linked into a chain only if it is not a requested key", ok, "" if ok else "guards: " + "; ".join(fact_strs(facts)))
        ok2 = has_fact(facts, "M_c in unfusible", False, {"M_c": b["M_c"]}) is not None
        ctx.ob("DOM.protect.fuse-linear.unfusible", n, "... and not marked unfusible", ok2)
    # a requested child is made unfusible
    adds = [(n, b) for n, b in find("unfusible.add(M_c)", f, nested=False)]
    ok = any(has_fact(inline_facts(f, n), "keys is not None and M_c in keys", True, {"M_c": b["M_c"]}) is not None or has_fact(inline_facts(f, n), "M_c in keys", True, {"M_c": b["M_c"]}) is not None for n, b in adds)
    ctx.ob("DOM.protect.fuse-linear.mark", f, "if child in keys: unfusible.add(child)", ok)
    # keys normalisation keeps the keys
    # alias deletion
    dels = find("del rv[M_k]", f, nested=False)
    ctx.count("fuse_linear_del_sites", len(dels))
    ctx.floor("fuse_linear_del_sites", 1)
    for n, b in dels:
        loops = [l for l in enclosing_loops(n) if isinstance(l, ast.For) and same(l.target, b["M_k"])]
        ok = bool(loops) and Pat("M_a - keys").match(loops[0].iter) is not None
        ctx.ob("DOM.protect.fuse-linear.alias-delete", n, "for key in aliases - keys: del rv[key]", ok, "" if ok else f"deletes over {unparse(loops[0].iter) if loops else '?'}")
        pair = [d for d, db in find("del dependencies[M_k]", f, nested=False) if same(db["M_k"], b["M_k"]) and control_equivalent(f, n, d)]
        ctx.ob("PAIR.deps.fuse-linear.alias-delete", n, "del rv[key]; del dependencies[key]", bool(pair))
    # omission: keys not copied are exactly the fused ones; the chain head is re-inserted
    cp = [l for l in walk_no_nested(f) if isinstance(l, ast.For) and eqv(l.iter, "dsk.items()")]
    ok = False
    for l in cp:
        for n, b in find("rv[M_k] = M_v", l):
            facts = inline_facts(f, n)
            if has_fact(facts, "M_k in fused", False, {"M_k": b["M_k"]}) is not None:
                ok = True
    ctx.ob("DOM.protect.fuse-linear.copy-rest", f, "every key not fused is copied to the output", ok)
    # chain end (the top-most key of every chain) gets a value or an alias
    heads = [(n, b) for n, b in find("rv[child] = M_v", f, nested=False)]
    ok = len(heads) == 2
    ctx.ob("DOM.protect.fuse-linear.head-kept", f, "the top key of a chain stays in the output (value or alias to the renamed key)", ok)
    # dependency bookkeeping while fusing
    upd = find("dependencies[parent].update(dependencies.pop(child))", f, nested=False)
    rem = find("dependencies[parent].remove(child)", f, nested=False)
    ok = bool(upd and rem) and control_equivalent(f, upd[0][0], rem[0][0]) and any(control_equivalent(f, upd[0][0], n) for n, _ in find("fused.add(child)", f, nested=False))
    ctx.ob("PAIR.deps.fuse-linear.merge", f, "parent deps |= pop(child deps); remove child; fused.add(child)", ok)
    ren = find("dependencies[new_key] = dependencies[child]", f, nested=False)
    ren2 = find("dependencies[child] = {new_key}", f, nested=False)
    r1 = find("rv[new_key] = val", f, nested=False)
    ok = bool(ren and ren2 and r1) and control_equivalent(f, ren[0][0], r1[0][0]) and control_equivalent(f, ren2[0][0], r1[0][0])
    ctx.ob("PAIR.deps.fuse-linear.rename", f, "rv[new_key]=val; rv[child]=new_key with dependencies[new_key], dependencies[child]", ok)


def _fuse(ctx, opt):
    f = opt.func("fuse")
    aliases = {}
    for n, b in find("M_a = M_o.M_meth", f, nested=False):
        if isinstance(b["M_a"], ast.Name) and isinstance(b["M_o"], ast.Name):
            aliases[b["M_a"].id] = (b["M_o"].id, b["M_meth"])
    # insertions into reducible
    ins = []
    for c in calls(f, None, nested=False):
        cn = call_name(c)
        if cn == "reducible.add" or (cn in aliases and aliases[cn] == ("reducible", "add")):
            ins.append(c)
    ctx.count("reducible_insert_sites", len(ins))
    ctx.floor("reducible_insert_sites", 2)
    for c in ins:
        k = c.args[0]
        facts = inline_facts(f, c)
        ok = _not_requested(facts, k)
        why = "guarded by k not in (keys or ())"
        if not ok and isinstance(k, ast.Name):
            v = resolve(k, c, f)
            if isinstance(v, ast.Call) and (call_name(v) == "reducible.pop" or (call_name(v) in aliases and aliases[call_name(v)] == ("reducible", "pop"))):
                ok, why = True, "re-insertion of an element just popped from reducible"
        ctx.ob("DOM.protect.fuse.reducible", c, f"reducible.add({unparse(k)})", ok, why if ok else "a requested key can become reducible (and be fused away); guards: " + "; ".join(fact_strs(facts)))
        if "popped" not in why:
            ok2 = has_fact(facts, "any((isinstance(dsk[M_v], GraphNode) for M_v in vals))", False) is not None and has_fact(facts, "isinstance(dsk[M_k], GraphNode)", False, {"M_k": k}) is not None
            ctx.ob("DOM.protect.fuse.legacy-only", c, "reducible only if neither the key nor any dependent is a GraphNode (subs rewrites tuples only)", ok2)
            ok3 = has_fact(facts, "len(vals) == 1", True) is not None and has_fact(facts, "M_k in dsk", True, {"M_k": k}) is not None
            ctx.ob("DOM.protect.fuse.single-dependent", c, "reducible only with exactly one dependent, and present in the graph", ok3)
    # children stack: only parents and reducible children
    for c in calls(f, None, nested=False):
        cn = call_name(c)
        if cn in aliases and aliases[cn] == ("children_stack", "extend") or cn == "children_stack.extend":
            vals = all_defs(c.args[0], c, f)
            ok = all(v is not None and Pat("reducible & deps[M_x]").match(v) is not None for v in vals)
            ctx.ob("DOM.protect.fuse.children", c, "children_stack.extend(reducible & deps[x])", ok, "" if ok else f"extends with {[unparse(v) for v in vals]}")
    # deletions from rv
    dels = find("del rv[M_k]", f, nested=False)
    ctx.count("fuse_del_sites", len(dels))
    ctx.floor("fuse_del_sites", 2)
    for n, b in dels:
        k = b["M_k"]
        # operand comes out of the info stack (children only)
        src = None
        if isinstance(k, ast.Name):
            for nm, val, st in reaching_of(f).reaching(n, k.id):
                if isinstance(st, ast.Assign) and isinstance(st.targets[0], ast.Tuple) and isinstance(st.value, ast.Call) and (call_name(st.value) in aliases and aliases[call_name(st.value)] == ("info_stack", "pop")):
                    if unparse(st.targets[0].elts[0]) == k.id:
                        src = "info_stack.pop()[0]"
                elif isinstance(val, ast.Subscript) and const(val.slice) == 0:
                    base = val.value
                    if isinstance(base, ast.Name):
                        for nm2, v2, st2 in reaching_of(f).reaching(st, base.id):
                            if isinstance(st2, ast.For) and eqv(st2.iter, "children_info"):
                                src = "children_info[i][0]"
        ctx.ob("DOM.protect.fuse.delete-operand", n, f"del rv[{unparse(k)}]: operand is the key of a child entry of the info stack", src is not None, src or "unrecognised provenance of the deleted key")
        pops = [c for c in calls(f, None, nested=False) if (call_name(c) in aliases and aliases[call_name(c)] == ("deps", "pop") or call_name(c) == "deps.pop") and c.args and same(c.args[0], k) and control_equivalent(f, n, c)]
        ctx.ob("PAIR.deps.fuse.delete", n, f"del rv[{unparse(k)}] with deps.pop({unparse(k)})", len(pops) == 1)
        rr = [c for c in calls(f, None, nested=False) if (call_name(c) in aliases and aliases[call_name(c)] == ("reducible", "remove")) and c.args and same(c.args[0], k) and control_equivalent(f, n, c)]
        ctx.ob("PAIR.deps.fuse.unreduce", n, f"del rv[{unparse(k)}] with reducible.remove({unparse(k)})", len(rr) == 1)
    # info stack child entries are (child, rv[child], ...)
    # the fused value lands at the parent
    sp = find("rv[parent] = val", f, nested=False)
    ok = len(sp) == 2 and all(has_fact(inline_facts(f, n), "children_stack", False) is not None for n, _ in sp)
    ctx.ob("DOM.protect.fuse.parent-store", f, "rv[parent] = val when the traversal stack is empty", ok)
    # renaming keeps the root key
    ren = find("rv[root_key] = alias", f, nested=False)
    ren0 = find("rv[alias] = rv[root_key]", f, nested=False)
    d1 = find("deps[alias] = deps[root_key]", f, nested=False)
    d2 = find("deps[root_key] = {alias}", f, nested=False)
    ok = bool(ren and ren0 and d1 and d2) and dominates(f, ren0[0][0], ren[0][0]) and control_equivalent(f, ren[0][0], d1[0][0]) and control_equivalent(f, ren[0][0], d2[0][0])
    ok = ok and has_fact(inline_facts(f, ren[0][0]), "alias in rv", False) is not None if ren else False
    ctx.ob("PAIR.deps.fuse.rename", f, "rv[alias]=rv[root]; rv[root]=alias; deps[alias]=deps[root]; deps[root]={alias}; only if alias not in rv", ok)
    # keys normalisation
    kn = find("keys = set(flatten(keys))", f, nested=False)
    ctx.ob("DOM.protect.fuse.keys-set", f, "keys = set(flatten(keys))", bool(kn), nontrivial=False)


def _fuse_linear_task_spec(ctx, ts):
    f = ts.func("fuse_linear_task_spec")
    ok = bool(find("keys = set(keys)", f, nested=False))
    ctx.ob("DOM.protect.fuse-spec.keys-set", f, "keys = set(keys)", ok, nontrivial=False)
    ins = find("linear_chain.insert(0, dsk[M_k])", f, nested=False)
    app = find("linear_chain.append(dsk[M_k])", f, nested=False)
    ctx.count("fuse_spec_chain_sites", len(ins) + len(app))
    ctx.floor("fuse_spec_chain_sites", 2)
    for n, b in ins:
        facts = inline_facts(f, n)
        ok = _not_requested(facts, b["M_k"])
        ctx.ob("DOM.protect.fuse-spec.down", n, "a dependency is fused into the chain only if it is not requested", ok, "" if ok else "guards: " + "; ".join(fact_strs(facts)))
        ok2 = has_fact(facts, "len(dependents[M_k]) == 1", True, {"M_k": b["M_k"]}) is not None
        ctx.ob("DOM.protect.fuse-spec.single-dependent", n, "... and has exactly one dependent", ok2)
    for n, b in app:
        facts = inline_facts(f, n)
        ok = has_fact(facts, "top_key in keys", False) is not None
        ctx.ob("DOM.protect.fuse-spec.up", n, "the chain grows upward only while the current top key is not requested", ok, "" if ok else "guards: " + "; ".join(fact_strs(facts)))
        # top_key moves along
        ok2 = any(control_equivalent(f, n, s) for s, sb in find("top_key = M_k", f, nested=False) if same(sb["M_k"], b["M_k"]))
        ctx.ob("DOM.protect.fuse-spec.top-advances", n, "top_key = new_key with the append", ok2)
    # top key is kept
    s1 = find("result[top_key] = linear_chain[0]", f, nested=False)
    s2 = find("result[top_key] = Alias(top_key, target=renamed_key)", f, nested=False)
    ok = bool(s1 and s2) and has_fact(inline_facts(f, s2[0][0]), "renamed_key == top_key", False) is not None
    s3 = find("result[renamed_key] = Task.fuse(*linear_chain, key=renamed_key)", f, nested=False)
    ctx.ob("DOM.protect.fuse-spec.top-kept", f, "result[top_key] is the single node, or an alias to the fused node", ok and bool(s3))
    # nodes that stop a chain are copied
    stops = find("result[new_key] = dsk[new_key]", f, nested=False) + find("result[key] = dsk[key]", f, nested=False)
    ctx.ob("DOM.protect.fuse-spec.stops-copied", f, "nodes that end a chain are copied unchanged", len(stops) >= 3)


def _resolve_aliases(ctx, ts):
    f = ts.func("resolve_aliases")
    pops = find("dsk.pop(M_k)", f, nested=False)
    ctx.count("resolve_aliases_pop_sites", len(pops))
    ctx.floor("resolve_aliases_pop_sites", 1)
    for n, b in pops:
        facts = inline_facts(f, n)
        ok = _not_requested(facts, b["M_k"])
        ctx.ob("DOM.protect.resolve-aliases", n, "dsk.pop(target_key) only if target_key not in keys", ok, "" if ok else "guards: " + "; ".join(fact_strs(facts)))
        ok2 = has_fact(facts, "len(dependents[M_k]) == 1", True, {"M_k": b["M_k"]}) is not None
        ctx.ob("DOM.protect.resolve-aliases.single-dependent", n, "... and it has exactly one dependent", ok2)
        st = find("dsk[k] = tnew", f, nested=False)
        ok3 = bool(st) and control_equivalent(f, n, st[0][0]) and bool(find("tnew.key = k", f, nested=False))
        ctx.ob("DOM.protect.resolve-aliases.rekey", n, "the popped node is stored under the alias key", ok3)


VARIANTS = [
    (OPT, "            and k not in (keys or ())\n", "", "DOM.protect.fuse.reducible"),
    (OPT, "            if keys is not None and child in keys:\n                unfusible.add(child)\n            elif child in child2parent:", "            if child in child2parent:", "DOM.protect.fuse-linear"),
    (OPT, "            for key in aliases - keys:", "            for key in aliases:", "DOM.protect.fuse-linear.alias-delete"),
    (OPT, "            and key not in output\n", "", "DOM.protect.inline-functions"),
    (OPT, "fast_functions) and not any(\n                    isinstance(dsk[d], GraphNode) for d in dependents[key]", "fast_functions) and not all(\n                    isinstance(dsk[d], GraphNode) for d in dependents[key]", "no-node-dependent"),
    (OPT, "            and not any(isinstance(dsk[v], GraphNode) for v in vals)\n", "", "DOM.protect.fuse.legacy-only"),
    (OPT, "            len(vals) == 1\n            and k not in (keys or ())", "            len(vals) >= 1\n            and k not in (keys or ())", "DOM.protect.fuse.single-dependent"),
    (TS, "                or new_key in keys\n", "", "DOM.protect.fuse-spec.down"),
    (TS, "        while len(dependents_key) == 1 and top_key not in keys:", "        while len(dependents_key) == 1:", "DOM.protect.fuse-spec.up"),
    (TS, "                target_key not in keys\n                and target_key in dsk", "                target_key in dsk", "DOM.protect.resolve-aliases"),
    (OPT, "    work = list(set(flatten(keys)))", "    work = list(set(flatten(keys)))[:1]", "REACH.cull.seed"),
    (OPT, "                        del rv[child_key]\n", "                        del rv[child_key]\n                        del rv[parent]\n", "DOM.protect.fuse.delete-operand"),
    (OPT, "                        deps_parent |= deps_pop(child_key)\n", "                        deps_parent |= deps[child_key]\n", "PAIR.deps.fuse.delete"),
    (OPT, "                del rv[key]\n                del dependencies[key]", "                del rv[key]", "PAIR.deps.fuse-linear.alias-delete"),
    (TS, "        dsk2[k] = v = dsk[k]\n        wupdate(v.dependencies)", "        dsk2[k] = v = dsk[k]", "REACH.cull.push-deps"),
]


def selftest(ctx):
    from ..variants import selftest as st

    return st(ctx, "C09", VARIANTS)
