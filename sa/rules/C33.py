"""C33 -- masked array operations equal numpy.ma (narrow; tables only).

Decided:
 NAME.wrappers      every public function X of dask/array/ma.py decorated with derived_from(np.ma[.core])
                    applies np.ma.X (map_blocks / blockwise / elemwise of np.ma[.core].X), and every
                    `X = _wrap_masked(np.ma.Y)` has X == Y
 ARG.forwarding     the wrapper forwards its parameters to the wrapped function in declaration order
                    (positional), or by the same keyword name
 ALG.count          ma.count counts unmasked elements per block (np.ma.count) and *sums* the partials
Not decided: masks / values.
"""
from __future__ import annotations

import ast

from ..lib import *

EXPLANATION = (
    "Naming and argument-forwarding tables over the numpy.ma wrappers in dask/array/ma.py (each wrapper applies "
    "the numpy.ma function of the same name and forwards its parameters in order or by name), plus the "
    "decomposition of ma.count (per-block count, summed).  Masks and values are NOT decided."
)
ASSUMPTIONS = ["map_blocks/blockwise pass positional extra arguments through in order"]
MA = "dask/array/ma.py"
# public wrapper -> reason it does not apply np.ma.<same name> directly
EXCEPTIONS = {
    "average": "delegates to routines._average(is_masked=True)",
    "nonzero": "nonzero of data * ~mask via routines.nonzero",
    "where": "np.where semantics on masked data through elemwise/nonzero",
    "masked_array": "builds blocks with the private _masked_array helper (np.ma.masked_array inside)",
    "set_fill_value": "applies the private _set_fill_value helper per block",
    "count": "a reduction (checked by ALG.count)",
}


def check(ctx):
    model = ctx.model
    mod = model.module(MA)
    n = 0
    for st in mod.tree.body:
        if isinstance(st, ast.Assign) and isinstance(st.value, ast.Call) and call_name(st.value) == "_wrap_masked":
            n += 1
            name = st.targets[0].id
            tgt = dotted(st.value.args[0])
            ok = tgt == f"np.ma.{name}"
            ctx.ob("NAME.wrappers", st, f"{name} = _wrap_masked(np.ma.{name})", ok, "" if ok else f"wraps {tgt}")
    wm = mod.func("_wrap_masked")
    inner = [f for f in ast.walk(wm) if isinstance(f, ast.FunctionDef) and f is not wm]
    ok = bool(inner) and (all(Pat("blockwise(f, oinds, a, ainds, value, vinds, dtype=a.dtype)").match(r.value) is not None for r in returns(inner[0])) and bool(returns(inner[0]))) and [a.arg for a in inner[0].args.args] == ["a", "value"]
    ctx.ob("ARG.forwarding", wm, "_wrap_masked: blockwise(f, ..., a, ..., value, ...): (a, value) in order", ok)
    for qn, f in mod.functions():
        if "." in qn or qn.startswith("_"):
            continue
        decos = [d for d in f.decorator_list if isinstance(d, ast.Call) and call_name(d) == "derived_from"]
        if not decos:
            continue
        ns = dotted(decos[0].args[0]) if decos[0].args else None
        if ns not in ("np.ma", "np.ma.core"):
            continue
        n += 1
        if qn in EXCEPTIONS:
            ctx.ob("NAME.wrappers", f, f"{qn}: frozen exception ({EXCEPTIONS[qn]})", True, nontrivial=False)
            continue
        want = f"{ns}.{qn}"
        applied = [dotted(a) for c in calls(f) for a in c.args if dotted(a) and dotted(a).startswith("np.ma")]
        ok = want in applied or f"np.ma.{qn}" in applied
        ctx.ob("NAME.wrappers", f, f"{qn} applies {want}", ok, "" if ok else f"applies {applied}")
        # forwarding order: positional args after the wrapped function, keywords by name
        params = [a.arg for a in f.args.args]
        for c in calls(f):
            idx = [i for i, a in enumerate(c.args) if dotted(a) in (want, f"np.ma.{qn}")]
            if not idx and isinstance(c.func, ast.Attribute) and c.func.attr == "map_blocks" and c.args and dotted(c.args[0]) in (want, f"np.ma.{qn}"):
                idx = [0]
            if not idx:
                continue
            rest = [unparse(a) for a in c.args[idx[0] + 1:]]
            named = [r for r in rest if r in params]
            if call_name(c) == "blockwise":
                # blockwise(f, out_inds, arr, inds, arr, inds, ...): arrays are every second argument
                named = [r for r in rest[1::2] if r in params]
            recv = unparse(c.func.value) if isinstance(c.func, ast.Attribute) and c.func.attr == "map_blocks" else None
            seq = ([recv] if recv in params else []) + named
            order_ok = seq == [p for p in params if p in seq]
            kw_ok = all(k.arg is None or unparse(k.value) != k.arg and unparse(k.value) not in params or unparse(k.value) == k.arg for k in c.keywords)
            ctx.ob("ARG.forwarding", c, f"{qn}: forwards {seq} in declaration order {params}", order_ok and kw_ok, "" if order_ok and kw_ok else f"positional order {seq} vs parameters {params}; keywords {[(k.arg, unparse(k.value)) for k in c.keywords]}")
    ctx.count("ma_wrappers", n)
    ctx.floor("ma_wrappers", 20)
    cnt = mod.func("count")
    cs = [c for c in calls(cnt, "reduction")]
    cc = mod.func("_chunk_count")
    ok = len(cs) == 1 and eqv(cs[0].args[1], "_chunk_count") and eqv(cs[0].args[2], "chunk.sum") and (all(Pat("np.ma.count(x, axis=axis, keepdims=keepdims)").match(r.value) is not None for r in returns(cc)) and bool(returns(cc)))
    ctx.ob("ALG.count", cnt, "ma.count = reduction(np.ma.count per block, chunk.sum)", ok, "" if ok else "per-block counts of unmasked elements must be summed")
    # ---------------- masked results of std/nanstd: np.ma.masked is a 0-d constant
    red = ctx.model.module("dask/array/reductions.py")
    sq = red.func("_sqrt")
    rm = [r for r in returns(sq) if eqv(r.value, "np.ma.masked")]
    ok = len(rm) == 1
    if ok:
        facts = {(unparse(e), pol) for e, pol in cfg_of(sq).facts(rm[0])}
        ok = ("a.shape", False) in facts and ("a.mask.all()", True) in facts and ("isinstance(a, np.ma.masked_array)", True) in facts
    ctx.ob("SHAPE.masked-scalar", sq, "_sqrt returns the 0-d constant np.ma.masked only for a 0-d, fully masked input", ok, "" if ok else "a fully masked block with dimensions is replaced by the 0-d constant: the block loses its shape (wrong result shape or IndexError when blocks are assembled)")
    ok = any(eqv(r.value, "np.sqrt(a)") for r in returns(sq))
    ctx.ob("SHAPE.masked-scalar.else", sq, "everything else goes through np.sqrt(a)", ok)
    # ---------------- _wrap_masked aligns `value` with `a` from the trailing axis: both index tuples are reversed
    wm = mod.func("_wrap_masked")
    ok = bool(find("ainds = tuple(range(a.ndim))[::-1]", wm)) and bool(find("vinds = tuple(range(value.ndim))[::-1]", wm)) and bool(find("oinds = max(ainds, vinds, key=len)", wm))
    ctx.ob("SIB.wrap-masked.indices", wm, "ainds and vinds are both reversed ranges (NumPy broadcasting aligns trailing axes)", ok, "" if ok else "value's axes are bound to the wrong axes of `a` when value has 2+ dimensions")
    # ---------------- masked concatenate: "all chunks share one fill value" is decided by VALUE equality that treats nan == nan
    cat_ = ctx.model.module("dask/array/backends.py").func("_concatenate")
    uq = find("fill_values = np.unique(fill_values)", cat_)
    st_ = find("out.fill_value = fill_values[0]", cat_)
    ok = len(uq) == 1 and len(st_) == 1 and dominates(cat_, uq[0][0], st_[0][0]) and any(eqv(e, "len(fill_values) == 1") and pol for e, pol in cfg_of(cat_).facts(st_[0][0]))
    ctx.ob("ALG.ma-concat.fill-value", cat_, "_concatenate: np.unique(fill_values) (nan counts once) decides whether the common fill value is copied", ok, "" if ok else "a Python set keeps one entry per nan object: a nan fill value shared by all chunks is dropped and filled() returns 1e20")


VARIANTS = [
    ("dask/array/reductions.py", "    if isinstance(a, np.ma.masked_array) and not a.shape and a.mask.all():", "    if isinstance(a, np.ma.masked_array) and a.mask.all():", "SHAPE.masked-scalar"),
    (MA, "masked_less = _wrap_masked(np.ma.masked_less)", "masked_less = _wrap_masked(np.ma.masked_less_equal)", "NAME.wrappers"),
    (MA, "    return x.map_blocks(np.ma.masked_inside, v1, v2)", "    return x.map_blocks(np.ma.masked_outside, v1, v2)", "NAME.wrappers"),
    (MA, "    return x.map_blocks(np.ma.masked_outside, v1, v2)", "    return x.map_blocks(np.ma.masked_outside, v2, v1)", "ARG.forwarding"),
    (MA, "        np.ma.masked_where, ainds, condition, cinds, a, ainds, dtype=a.dtype", "        np.ma.masked_where, ainds, a, ainds, condition, cinds, dtype=a.dtype", "ARG.forwarding"),
    (MA, "        _chunk_count,\n        chunk.sum,", "        _chunk_count,\n        chunk.max,", "ALG.count"),
    (MA, "        return blockwise(f, oinds, a, ainds, value, vinds, dtype=a.dtype)", "        return blockwise(f, oinds, value, vinds, a, ainds, dtype=a.dtype)", "ARG.forwarding"),
]


def selftest(ctx):
    from ..variants import selftest as st

    return st(ctx, "C33", VARIANTS)
