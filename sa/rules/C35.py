"""C35 -- map_blocks, blockwise and gufuncs see correct blocks and block locations (narrow: twin agreement).

Decided:
 TWIN.agree   map_blocks (argument pairing, block_id / block_info construction, drop_axis / new_axis /
              adjust_chunks bookkeeping) and the gufunc machinery (_parse_gufunc_signature,
              _validate_normalize_axes, apply_gufunc, gufunc, as_gufunc) exist once in the classic engine and
              once in the array-expression engine; in canonical form the copies are identical apart from the
              engine-plumbing differences frozen in sa/rules/twins_accepted.json (name/token keywords,
              expression nodes instead of materialised graphs, and -- recorded there as suspect -- the
              expression copy of apply_gufunc ignoring allow_rechunk).  A divergence anywhere else means one
              engine hands user functions different blocks or block locations than the other.
Not decided: that the shared algorithm is right; dask/blockwise.py::_make_blockwise_graph (no twin; its
coordinate mapping is cross-checked against Blockwise._cull_dependencies under C10).
"""
from __future__ import annotations

from ..twin import check_pairs
from ._twins import pairs_for

EXPLANATION = (
    "Twin cross-check: map_blocks and the gufunc functions have the same canonical text in the classic and the "
    "array-expression engine, modulo frozen, reviewed engine-plumbing differences.  A new divergence is a "
    "contradiction between two implementations of one specification.  The correctness of the shared algorithm "
    "is NOT decided."
)
ASSUMPTIONS = ["both copies are meant to implement the same algorithm (C30 states that the engines agree)"]
TECHNIQUE = "static analysis: canonicalised AST diff of sibling implementations (alpha-renamed locals, frozen reviewed differences) over /repo source (no execution)"
CO = "dask/array/core.py"
GU = "dask/array/gufunc.py"


def check(ctx):
    n = check_pairs(ctx, pairs_for("C35"))
    ctx.count("twin_pairs", n)
    ctx.floor("twin_pairs", 7, "map_blocks + gufunc functions with a copy in the expression engine")
    # ---------------- contracted (dummy) indices of blockwise: one zero per block for inputs with a single
    # block along the index when the blocks are handed over as a list (concatenate falsy), a single zero when
    # they are concatenated
    from ..lib import find, unparse, eqv
    gcm = ctx.model.module("dask/blockwise.py").func("_get_coord_mapping")
    ok = bool(find("reps = 1 if concatenate else dims[ind]", gcm)) and bool(find("_dummies_list.append([list(range(dims[ind])), [0] * reps])", gcm))
    ctx.ob("ALG.blockwise.broadcast-dummies", gcm, "dummy index of size n: coordinates [0..n-1] plus [0] * (1 if concatenate else n) for inputs that have one block along it", ok, "" if ok else "an input with a single block along a contracted index is passed once instead of once per block: with concatenate=False the lists handed to the function are no longer aligned by block index")
    # ---------------- block_info / block_id travel as BlockwiseDep values: their tokens must cover their contents
    from .C12 import handler_covers_fields

    handler_covers_fields(ctx)


VARIANTS = [
    (CO, "                    location.get(ind, 0) if num_chunks[i][j] > 1 else 0\n", "                    location.get(ind, 0) if num_chunks[i][j] > 0 else 0\n", "TWIN.agree"),
    (CO, "                        (starts[i][ij][j], starts[i][ij][j + 1])\n", "                        (starts[i][ij][j], starts[i][ij][j] + 1)\n", "TWIN.agree"),
    (GU, "    if not re.match(_SIGNATURE, signature):", "    if re.match(_SIGNATURE, signature):", "TWIN.agree"),
]


def selftest(ctx):
    from ..variants import selftest as st

    return st(ctx, "C35", VARIANTS)
