"""C37 -- DataFrame reductions and aggregations equal pandas (narrow; tables only).

Decided:
 ALG.decomposition   every Reduction subclass whose per-partition function is a known pandas reduction
                     declares an admissible aggregate: sum/prod/min/max/any/all aggregate with
                     themselves, count/size/len/nbytes/memory_usage with a sum, arg-extrema never with a
                     plain function (effective aggregate = reduction_aggregate or reduction_chunk;
                     effective combine = combine or aggregate or chunk)
 NAME.api            Expr.<reduction>() builds the class of the same name, and that class applies the
                     pandas method of the same name
 ARGPOS              expression-constructor sites in dask_expr/_reductions.py
Not decided: equality with pandas (dask.dataframe is not importable here; no test covers this code).
"""
from __future__ import annotations

import ast

from ..lib import *
from ..srcmodel import snake
from . import _tables as T

EXPLANATION = (
    "Algebraic table over the (chunk, combine, aggregate) attributes of every DataFrame Reduction class, "
    "compared with how the reduction decomposes over partitions; naming agreement between the reduction API "
    "methods of the expression, the classes they build and the pandas method those classes apply; argument-slot "
    "agreement at constructor sites in _reductions.py.  Equality with pandas is NOT decided."
)
ASSUMPTIONS = ["Reduction.aggregate/combine fall back as written in dask_expr/_reductions.py (checked)"]
RED = "dask/dataframe/dask_expr/_reductions.py"
EX = "dask/dataframe/dask_expr/_expr.py"
API = {"sum": "Sum", "prod": "Prod", "max": "Max", "min": "Min", "any": "Any", "all": "All", "count": "Count", "idxmin": "IdxMin", "idxmax": "IdxMax", "mode": "Mode", "size": "Size", "nbytes": "NBytes", "mean": "Mean", "var": "Var"}
NAME_EXCEPTIONS = {"Mode": "mode = value_counts per partition, summed, then the maxima", "Len": "len", "IdxMax": "shares IdxMin's custom chunk/combine/aggregate (fn='idxmax')", "IdxMin": "custom value-carrying chunk"}


def check(ctx):
    model = ctx.model
    em = T.exprmodel(ctx)
    red = model.klass(RED, "Reduction")
    # the fallback chain itself
    agg = red.own_methods.get("aggregate")
    cmb = red.own_methods.get("combine")
    ok = agg is not None and bool(find("func = cls.reduction_aggregate or cls.reduction_chunk", agg)) and cmb is not None and bool(find("func = cls.reduction_combine or cls.reduction_aggregate or cls.reduction_chunk", cmb))
    ctx.ob("ALG.fallback", red.node, "aggregate = reduction_aggregate or reduction_chunk; combine = reduction_combine or aggregate or chunk", ok)
    n = n_dec = 0
    for ci in em.classes:
        if red not in ci.mro or ci is red:
            continue
        n += 1
        _, ch = ci.lookup("reduction_chunk")
        _, ag = ci.lookup("reduction_aggregate")
        _, cb = ci.lookup("reduction_combine")
        cn, an, bn = T.op_name(ch), T.op_name(ag), T.op_name(cb)
        r = T.decomposition(ctx, "ALG.decomposition", ci, cn, an)
        if r is not None:
            n_dec += 1
            # the combine step must be admissible as well
            eff_c = bn or an or cn
            if cn in T.SELF_DECOMPOSABLE:
                okc = eff_c in (cn, "<custom>")
            elif cn in T.AGGREGATED_BY_SUM:
                okc = eff_c in ("sum", "<custom>")
            else:
                okc = True
            ctx.ob("ALG.decomposition.combine", ci.node, f"{ci.name}: effective combine {eff_c} for chunk {cn}", okc, "" if okc else f"intermediate tree levels combine {cn} results with {eff_c}")
        # naming: class name <-> chunk function
        if cn not in (None, "<custom>") and "reduction_chunk" in ci.own:
            sn = snake(ci.name).replace("_", "")
            regular = cn.replace("_", "") in sn or sn in cn.replace("_", "")
            if ci.name in NAME_EXCEPTIONS:
                ctx.ob("NAME.reduction", ci.node, f"{ci.name}.reduction_chunk = {cn} (frozen exception: {NAME_EXCEPTIONS[ci.name]})", True, nontrivial=False)
            else:
                ctx.ob("NAME.reduction", ci.node, f"{ci.name} reduces each partition with `{cn}`", regular, "" if regular else f"class {ci.name} applies pandas `{cn}`")
    ctx.count("reduction_classes", n)
    ctx.count("reduction_classes_with_known_decomposition", n_dec)
    ctx.floor("reduction_classes", 30)
    ctx.floor("reduction_classes_with_known_decomposition", 12)
    # ---------------- API -> class
    expr = model.klass(EX, "Expr")
    exm = model.module(EX)
    n_api = 0
    for meth, cls in API.items():
        _, f = expr.method(meth)
        if f is None:
            ctx.ob("NAME.api", expr.node, f"Expr.{meth} exists", False)
            continue
        built = [dotted(c.func) for r in returns(f) for c in ast.walk(r.value) if isinstance(c, ast.Call) and dotted(c.func) and dotted(c.func)[:1].isupper()]
        n_api += 1
        ok = cls in built
        ctx.ob("NAME.api", f, f"Expr.{meth}() builds {cls}", ok, "" if ok else f"builds {built}")
    ctx.count("reduction_api_methods", n_api)
    ctx.floor("reduction_api_methods", 12)
    T.argpos(ctx, lambda p: p == RED, "c37", floor=20)
    from ._phases import option_used, min_count

    option_used(ctx, ["dask/dataframe/dask_expr/_reductions.py"], floor=20)
    min_count(ctx, ["dask/dataframe/core.py", "dask/dataframe/dask_expr/_collection.py"], floor=2)
    from ._phases import kwargs_consistent

    kwargs_consistent(ctx, ["dask/dataframe/dask_expr/_reductions.py"], floor=6)
    # ---------------- len() of a concatenation is the sum of the lengths only along axis 0
    ln = model.klass("dask/dataframe/dask_expr/_reductions.py", "Len").own_methods["_simplify_down"]
    sums = [r for r in returns(ln) if "sum((Len(obj) for obj in self.frame.dependencies()))" in unparse(r.value)]
    ok = len(sums) == 1 and any("isinstance(self.frame, Concat)" in unparse(e) and pol for e, pol in cfg_of(ln).facts(sums[0])) and any("self.frame.operand('axis') == 0" in unparse(e) and pol for e, pol in cfg_of(ln).facts(sums[0]))
    ctx.ob("ALG.len-of-concat", ln, "Len(Concat(...)) -> sum of the parts' lengths only when axis == 0", ok, "" if ok else "the rewrite also fires for axis=1: len() of a column-wise concat becomes k*n")
    # ---------------- idxmin/idxmax combine step carries the SAME extreme forward as the label it picks
    dfc = ctx.model.module("dask/dataframe/core.py")
    ir = dfc.func("idxmaxmin_row")
    sel = find("minmax = M_v", ir)
    ok = len(sel) == 1 and eqv(sel[0][1]["M_v"], "'max' if fn == 'idxmax' else 'min'") and bool(find("idx = [getattr(value, fn)(skipna=skipna)]", ir)) and bool(find("value = [getattr(value, minmax)(skipna=skipna)]", ir))
    ctx.ob("TAB.idxmaxmin.pairing", ir, "idxmaxmin_row: fn == 'idxmax' pairs with 'max', anything else ('idxmin') with 'min'; label by fn, value by that extreme", ok, "" if ok else "an intermediate combine level carries the opposite extreme: idxmin/idxmax are wrong when npartitions > split_every")
    # ---------------- corr: the squared deviation of column j only counts rows where the paired column is present
    cc = dfc.func("_cov_corr_chunk")
    mk = find("mask = df.isnull().values", cc)
    ap = find("mu_discrepancy[mask] = np.nan", cc)
    ns = find("m[idx] = np.nansum(mu_discrepancy, axis=0)", cc)
    ok = len(mk) == 1 and len(ap) == 1 and len(ns) == 1 and dominates(cc, mk[0][0], ap[0][0]) and dominates(cc, ap[0][0], ns[0][0])
    ctx.ob("PAIR.corr.pairwise-mask", cc, "_cov_corr_chunk(corr=True): mu_discrepancy[df.isnull()] = nan before the nansum (pairwise-complete observations)", ok, "" if ok else "deviations of rows whose partner is NaN are summed too: off-diagonal correlations are wrong whenever NaNs are not aligned across the two columns")
    # ---------------- round 4b (C37-m8): every cross-chunk sum of the cov/corr combine is NaN-aware
    cc4 = ctx.model.module("dask/dataframe/core.py").func("_cov_corr_combine")
    red4 = [c for c in ast.walk(cc4) if isinstance(c, ast.Call) and isinstance(c.func, ast.Attribute) and c.func.attr in ("sum", "nansum") and isinstance(c.func.value, ast.Name) and c.func.value.id == "np"]
    ctx.count("cov_combine_reductions", len(red4))
    ctx.floor("cov_combine_reductions", 3)
    for c4 in red4:
        ok = c4.func.attr == "nansum"
        ctx.ob("NAN.cov-combine.nansum", c4, f"_cov_corr_combine: `{unparse(c4)[:60]}` is a nansum (an empty chunk has n2 == 0, its term is 0/0)", ok, "" if ok else "np.sum lets the NaN term of one empty partition poison the whole covariance matrix")


VARIANTS = [
    ("dask/dataframe/dask_expr/_reductions.py", "    def reduction_combine(cls, parts, skipna):\n        if skipna:\n            return moment_combine(parts, sum=np.nansum, axis=(0,))\n        else:\n            return moment_combine(parts, axis=(0,))", "    def reduction_combine(cls, parts, skipna):\n        return moment_combine(parts, axis=(0,))", "PHASE.option-used"),
    ("dask/dataframe/core.py", "    C[counts < min_periods] = np.nan", "    C[counts <= min_periods] = np.nan", "ALG.min-count"),
    (RED, "    def reduction_aggregate(cls, df):\n        return df.sum().astype(\"int64\")", "    def reduction_aggregate(cls, df):\n        return df.count().astype(\"int64\")", "ALG.decomposition"),
    (RED, "class Len(Reduction):\n    reduction_chunk = staticmethod(len)\n    reduction_aggregate = sum", "class Len(Reduction):\n    reduction_chunk = staticmethod(len)\n    reduction_aggregate = max", "ALG.decomposition"),
    (RED, "class NBytes(Reduction):\n    # Only supported for Series objects\n    reduction_aggregate = sum", "class NBytes(Reduction):\n    # Only supported for Series objects\n    reduction_aggregate = None", "ALG.decomposition"),
    (EX, "        return Max(self, skipna, numeric_only, split_every, axis)", "        return Min(self, skipna, numeric_only, split_every, axis)", "NAME.api"),
    (RED, "        func = cls.reduction_aggregate or cls.reduction_chunk\n", "        func = cls.reduction_chunk\n", "ALG.fallback"),
]


def selftest(ctx):
    from ..variants import selftest as st

    return st(ctx, "C37", VARIANTS)
