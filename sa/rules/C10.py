"""C10 -- high-level graph culling and blockwise fusion (partial).

Decided:
 TAB.annotations      the key set admitted by _can_fuse_annotations equals the key set combined in
                      _fuse_annotations, and each combiner is the one the property names
                      (retries/priority max, resources per-key max, workers intersection,
                      allow_other_workers conjunction)
 SIB.blockwise-coords Blockwise._cull_dependencies and _make_blockwise_graph derive input block
                      coordinates identically (same _get_coord_mapping call, same coords/arg_coords
                      expressions, same key constructors, same case split)
 REACH.hlg-cull       HighLevelGraph.cull walks layers in reverse topological order, hands the
                      running key set to Layer.cull and grows it by the culled dependencies;
                      Layer.cull / Blockwise.cull keep exactly the requested outputs
Not decided: values after fusion; arbitrary block-subset culling.
"""
from __future__ import annotations

import ast

from ..lib import *

EXPLANATION = (
    "Table agreement for annotation fusion (admitted keys == combined keys; each combiner recognised from a "
    "small idiom catalogue and compared with the combiner the property names), sibling agreement between the "
    "symbolic dependency computation of a Blockwise layer and its materialisation, and reachability rules for "
    "HighLevelGraph.cull / Layer.cull.  Values after fusion are NOT decided."
)
ASSUMPTIONS = ["_get_coord_mapping is a pure function of its arguments"]
BW = "dask/blockwise.py"
HLG = "dask/highlevelgraph.py"
EXPECTED = {"retries": "max", "priority": "max", "resources": "per-key-max", "workers": "intersection", "allow_other_workers": "all"}


def _combiner(expr, listname):
    """classify the combiner applied to the collected list `listname`"""
    u = unparse(expr)
    if Pat(f"max({listname})").match(expr) is not None:
        return "max"
    if Pat(f"min({listname})").match(expr) is not None:
        return "min"
    if Pat(f"toolz.merge_with(max, *{listname})").match(expr) is not None or Pat(f"merge_with(max, *{listname})").match(expr) is not None:
        return "per-key-max"
    if Pat(f"toolz.merge_with(min, *{listname})").match(expr) is not None:
        return "per-key-min"
    if Pat(f"list(set.intersection(*[set(M_w) for M_w in {listname}]))").match(expr) is not None or Pat(f"set.intersection(*[set(M_w) for M_w in {listname}])").match(expr) is not None:
        return "intersection"
    if Pat(f"list(set.union(*[set(M_w) for M_w in {listname}]))").match(expr) is not None or "union" in u:
        return "union"
    if Pat(f"toolz.merge(*{listname})").match(expr) is not None or Pat(f"merge(*{listname})").match(expr) is not None:
        return "last-wins"
    if Pat(f"{listname}[-1]").match(expr) is not None or Pat(f"{listname}[0]").match(expr) is not None:
        return "pick-one"
    if Pat(f"sum({listname})").match(expr) is not None:
        return "sum"
    if Pat(f"all({listname})").match(expr) is not None:
        return "all"
    if Pat(f"any({listname})").match(expr) is not None:
        return "any"
    return None


def check(ctx):
    model = ctx.model
    bw = model.module(BW)
    # ---------------- annotations
    can = bw.func("_can_fuse_annotations")
    fuse = bw.func("_fuse_annotations")
    fs = [b["M_v"] for n, b in find("fusable = M_v", can, nested=False)]
    if len(fs) != 1 or not isinstance(fs[0], ast.Set):
        raise AnchorMissing("_can_fuse_annotations: literal `fusable` set")
    admitted = {const(e) for e in fs[0].elts}
    combined = {}
    for n, b in find("annotations[M_k] = M_v", fuse, nested=False):
        k = const(b["M_k"])
        if isinstance(k, str):
            combined[k] = (n, b["M_v"])
    ctx.count("annotation_combiners", len(combined))
    ctx.floor("annotation_combiners", 5)
    ok = admitted == set(combined)
    ctx.ob("TAB.annotations.keys", fuse, f"admitted {sorted(admitted)} == combined {sorted(combined)}", ok, "" if ok else f"admitted-not-combined {sorted(admitted - set(combined))}, combined-not-admitted {sorted(set(combined) - admitted)}")
    # gate: both sides must consist of admitted keys only
    gate = [r for r in returns(can) if isinstance(r.value, ast.BoolOp)]
    okg = bool(gate) and Pat("(not a or all((k in fusable for k in a))) and (not b or all((k in fusable for k in b)))").match(gate[0].value) is not None
    ctx.ob("TAB.annotations.gate", can, "fusable only if every key of both layers is in the admitted set", okg)
    for k in sorted(combined):
        n, v = combined[k]
        # v is combiner(<list>) where list = [a[k] for a in args if k in a]
        lists = {nm: val for nm in {x.id for x in ast.walk(v) if isinstance(x, ast.Name)} for val in [resolve(ast.Name(id=nm, ctx=ast.Load()), n, fuse)] if isinstance(val, ast.ListComp)}
        good_list = None
        for nm, lc in lists.items():
            if Pat(f"[M_a['{k}'] for M_a in args if '{k}' in M_a]").match(lc) is not None:
                good_list = nm
        if good_list is None:
            ctx.ob("TAB.annotations.collect", n, f"{k}: values collected as [a['{k}'] for a in args if '{k}' in a]", False, f"collected from {[unparse(l)[:60] for l in lists.values()]}")
            continue
        ctx.ob("TAB.annotations.collect", n, f"{k}: values collected as [a['{k}'] for a in args if '{k}' in a]", True)
        comb = _combiner(v, good_list)
        want = EXPECTED.get(k)
        if comb is None:
            ctx.ob("ALG.annotations.combiner", n, f"{k}: combiner {unparse(v)[:60]}", None, "combiner idiom not in the catalogue")
        else:
            ctx.ob("ALG.annotations.combiner", n, f"{k}: fused with `{want}`", comb == want, "" if comb == want else f"fused with `{comb}`: loosens the constraint")
        # guarded by non-emptiness of the collected list
        facts = inline_facts(fuse, n)
        ctx.ob("DOM.annotations.nonempty", n, f"{k}: combined only when some layer carries it", any(unparse(e) == good_list and p for e, p in facts), nontrivial=False)
    base = find("annotations = toolz.merge(*args)", fuse, nested=False)
    ctx.ob("TAB.annotations.base", fuse, "other keys: plain merge of identical annotations", bool(base))
    rets = returns(fuse)
    ctx.ob("TAB.annotations.return", fuse, "returns the fused annotations", len(rets) == 1 and eqv(rets[0].value, "annotations"))
    # call sites use the gate before fusing
    rb = bw.func("rewrite_blockwise")
    fc = [c for c in calls(rb, "_fuse_annotations")]
    ob_ = bw.func("optimize_blockwise") if bw.has("optimize_blockwise") else None
    gated = [c for qn, f in bw.functions() for c in calls(f, "_can_fuse_annotations", nested=False)]
    ctx.ob("TAB.annotations.gated", rb, "layers are fused only after _can_fuse_annotations", bool(fc) and bool(gated))

    # ---------------- blockwise coordinates
    cd = bw.func("Blockwise._cull_dependencies")
    mk = bw.func("_make_blockwise_graph")
    c1 = [c for c in calls(cd, "_get_coord_mapping")]
    c2 = [c for c in calls(mk, "_get_coord_mapping")]
    if len(c1) != 1 or len(c2) != 1:
        raise AnchorMissing("_get_coord_mapping call in _cull_dependencies/_make_blockwise_graph")
    a1 = [unparse(a) for a in c1[0].args]
    a2 = [unparse(a) for a in c2[0].args]
    # correspondence through Blockwise._dict
    dprop = bw.func("Blockwise._dict")
    mcall = [c for c in calls(dprop, "_make_blockwise_graph")]
    if len(mcall) != 1:
        raise AnchorMissing("Blockwise._dict: _make_blockwise_graph call")
    bound = bind_call(mcall[0], mk)
    corr = {"out_indices": "self.output_indices", "numblocks": "self.numblocks", "dims": "self.dims", "concatenate": "self.concatenate", "output": "self.output", "io_deps": "self.io_deps", "output_blocks": "self.output_blocks", "new_axes": "self.new_axes", "task": "self.task"}
    bad = [f"{p}={unparse(bound.get(p))}" for p, w in corr.items() if unparse(bound.get(p)) != w]
    okp = "*" in bound and "toolz.concat(self.indices)" in unparse(bound["*"])
    ctx.ob("SIB.blockwise-coords.materialise-args", mcall[0], "Blockwise._dict hands its own fields to _make_blockwise_graph", not bad and okp, "; ".join(bad))
    want1 = ["self.dims", "self.output_indices", "self.numblocks", "self.indices", "concatenate"]
    want2 = ["dims", "out_indices", "numblocks", "argpairs", "concatenate"]
    ctx.ob("SIB.blockwise-coords.mapping-args", c1[0], "_cull_dependencies: _get_coord_mapping(self.dims, self.output_indices, self.numblocks, self.indices, concatenate)", a1 == want1, "" if a1 == want1 else str(a1))
    ctx.ob("SIB.blockwise-coords.mapping-args", c2[0], "_make_blockwise_graph: _get_coord_mapping(dims, out_indices, numblocks, argpairs, concatenate)", a2 == want2, "" if a2 == want2 else str(a2))
    for f, c in ((cd, c1[0]), (mk, c2[0])):
        st = enclosing_stmt(c)
        ok = isinstance(st, ast.Assign) and eqv(st.targets[0], "(coord_maps, concat_axes, dummies)")
        ctx.ob("SIB.blockwise-coords.mapping-unpack", c, "coord_maps, concat_axes, dummies = _get_coord_mapping(...)", ok)
    ap = find("argpairs = list(toolz.partition(2, arrind_pairs))", mk, nested=False)
    ctx.ob("SIB.blockwise-coords.argpairs", mk, "argpairs = list(toolz.partition(2, arrind_pairs))", bool(ap))

    def site_exprs(f, self_prefix):
        d = {}
        for n, b in find("coords = M_v", f, nested=False):
            d["coords"] = unparse(b["M_v"])
        for n, b in find("arg_coords = M_v", f, nested=False):
            d["arg_coords"] = unparse(b["M_v"])
        for l in walk_no_nested(f):
            if isinstance(l, ast.For) and isinstance(l.iter, ast.Call) and call_name(l.iter) == "zip" and "coord_maps" in unparse(l.iter):
                d["zip"] = [unparse(a).replace("self.", "") for a in l.iter.args][:3]
                d["zip-target"] = unparse(l.target)
        for l in walk_no_nested(f):
            if isinstance(l, ast.For) and eqv(l.target, "out_coords") and eqv(l.iter, "output_blocks"):
                d["outer"] = True
        return d

    e1 = site_exprs(cd, "self.")
    e2 = site_exprs(mk, "")
    for k in ("coords", "arg_coords"):
        ok = k in e1 and e1.get(k) == e2.get(k)
        ctx.ob("SIB.blockwise-coords.expr", f"{BW}::Blockwise._cull_dependencies", f"`{k}` is computed identically in dependency culling and materialisation", ok, "" if ok else f"cull: {e1.get(k)} | materialise: {e2.get(k)}")
    z1 = e1.get("zip")
    z2 = [x.replace("argpairs", "indices") for x in (e2.get("zip") or [])]
    ctx.ob("SIB.blockwise-coords.zip", f"{BW}::Blockwise._cull_dependencies", "both iterate zip(coord_maps, concat_axes, <arg/index pairs>)", bool(z1) and z1 == z2, f"{z1} vs {z2}")
    ctx.ob("SIB.blockwise-coords.outer", f"{BW}::Blockwise._cull_dependencies", "both iterate `for out_coords in output_blocks`", bool(e1.get("outer") and e2.get("outer")))
    # key constructors
    k1 = [unparse(n.targets[0].slice) for n in walk_no_nested(cd) if isinstance(n, ast.Assign) and isinstance(n.targets[0], ast.Subscript) and eqv(n.targets[0].value, "key_deps")]
    k2 = [unparse(b["M_v"]) for n, b in find("new_key = M_v", mk, nested=False)]
    ok = k1 == ["(self.output,) + out_coords"] and k2 == ["(output,) + out_coords"]
    ctx.ob("SIB.blockwise-coords.output-key", f"{BW}::Blockwise._cull_dependencies", "output key = (output,) + out_coords on both sides", ok, f"{k1} vs {k2}")
    # dependency key forms: axes -> _lol_product((arg,), arg_coords); else (arg,) + arg_coords
    l1 = [c for c in calls(cd, "_lol_product")]
    l2 = [c for c in calls(mk, "_lol_product")]
    ok = len(l1) == 1 and len(l2) == 1 and [unparse(a) for a in l1[0].args] == ["(arg,)", "arg_coords"] and [unparse(a) for a in l2[0].args] == ["(arg,)", "arg_coords"]
    ok = ok and has_fact(inline_facts(cd, l1[0]), "axes", True) is not None and has_fact(inline_facts(mk, l2[0]), "axes", True) is not None
    ctx.ob("SIB.blockwise-coords.contracted", f"{BW}::Blockwise._cull_dependencies", "contracted axes: _lol_product((arg,), arg_coords) under `if axes` on both sides", ok)
    t1 = [n for n, b in find("tups = (arg,) + arg_coords", cd, nested=False)]
    t2 = [n for n, b in find("subs[key] = (arg, *arg_coords)", mk, nested=False)]
    ok = bool(t1) and bool(t2) and has_fact(inline_facts(cd, t1[0]), "axes", False) is not None and has_fact(inline_facts(mk, t2[0]), "axes", False) is not None
    ctx.ob("SIB.blockwise-coords.plain", f"{BW}::Blockwise._cull_dependencies", "plain block: key (arg, *arg_coords) on both sides", ok)
    add = [n for n, b in find("deps.add(tups)", cd, nested=False)] + [n for n, b in find("deps.update(flatten(tups))", cd, nested=False)]
    ctx.ob("SIB.blockwise-coords.collected", cd, "both dependency forms are added to the block's dependency set", len(add) == 2)
    # case split
    f1 = [n for n in ast.walk(cd) if isinstance(n, ast.If) and eqv(n.test, "ind is not None and arg not in self.io_deps")]
    f2a = [n for n in ast.walk(mk) if isinstance(n, ast.If) and eqv(n.test, "ind is None")]
    f2b = [n for n in ast.walk(mk) if isinstance(n, ast.If) and eqv(n.test, "arg in io_deps")]
    ok = bool(f1 and f2a and f2b) and any(isinstance(x, ast.Continue) for x in f2a[0].body)
    ctx.ob("SIB.blockwise-coords.cases", cd, "array arguments only: literals (ind is None) and io_deps are excluded on both sides", ok)
    cdp = find("const_deps.add(arg.key)", cd, nested=False)
    ctx.ob("SIB.blockwise-coords.const-deps", cd, "TaskRef arguments are dependencies of every block", bool(cdp) and bool(find("key_deps[(self.output,) + out_coords] = deps | const_deps", cd)))
    # Blockwise.cull
    bc = bw.func("Blockwise.cull")
    adds = find("output_blocks.add(key[1:])", bc, nested=False)
    ok = bool(adds) and has_fact(inline_facts(bc, adds[0][0]), "key[0] == self.output", True) is not None
    ctx.ob("REACH.blockwise-cull.outputs", bc, "requested blocks = keys whose name is this layer's output", ok)
    ok = bool(find("culled_deps = self._cull_dependencies(output_blocks)", bc)) and bool(find("culled_layer = self._cull(output_blocks)", bc))
    ctx.ob("REACH.blockwise-cull.same-blocks", bc, "dependencies and culled layer are built from the same block set", ok)
    cl = bw.func("Blockwise._cull")
    ok = any(unparse(kwarg(c, "output_blocks")) == "output_blocks" for c in calls(cl, "Blockwise"))
    ctx.ob("REACH.blockwise-cull.layer", cl, "Blockwise(..., output_blocks=output_blocks)", ok)
    # the culled copy must carry over every other constructor field of the layer unchanged
    init = bw.func("Blockwise.__init__")
    for c in calls(cl, "Blockwise"):
        bound = bind_call(c, ast.FunctionDef(name="__init__", args=ast.arguments(posonlyargs=[], args=init.args.args[1:], kwonlyargs=init.args.kwonlyargs, kw_defaults=[], defaults=[], vararg=None, kwarg=None), body=[], decorator_list=[]))
        for p in [a.arg for a in init.args.args[1:]]:
            if p == "output_blocks":
                continue
            got = unparse(bound.get(p)) if p in bound else None
            ok = got == f"self.{p}"
            ctx.ob("REACH.blockwise-cull.copy-field", c, f"Blockwise._cull forwards {p}=self.{p}", ok, "" if ok else (f"{p} is not forwarded: the culled layer falls back to the default" if got is None else f"{p}={got}"))

    # ---------------- HLG.cull
    hl = model.module(HLG)
    hc = hl.func("HighLevelGraph.cull")
    ok = bool(find("keys_set = set(flatten(keys))", hc, nested=False))
    ctx.ob("REACH.hlg-cull.seed", hc, "keys_set = set(flatten(keys))", ok)
    loops = [l for l in walk_no_nested(hc) if isinstance(l, ast.For) and "_toposort_layers" in unparse(l.iter)]
    ok = bool(loops) and Pat("reversed(self._toposort_layers())").match(loops[0].iter) is not None
    ctx.ob("REACH.hlg-cull.order", hc, "layers are visited in reverse topological order", ok, "" if ok else "a layer may be culled before the layers that depend on it contributed their keys")
    lc = [c for c in calls(hc, "cull") if isinstance(c.func, ast.Attribute) and eqv(c.func.value, "layer")]
    ok = len(lc) == 1 and eqv(lc[0].args[0], "keys_set")
    ctx.ob("REACH.hlg-cull.layer-call", hc, "layer.cull(keys_set, all_ext_keys)", ok)
    grow = find("keys_set |= d", hc, nested=False)
    ok = False
    if grow:
        l2 = [l for l in enclosing_loops(grow[0][0]) if isinstance(l, ast.For)]
        ok = bool(l2) and eqv(l2[0].iter, "culled_deps.items()") and eqv(l2[0].target, "(k, d)")
    ctx.ob("REACH.hlg-cull.grow", hc, "for k, d in culled_deps.items(): keys_set |= d", ok, "" if ok else "dependencies of culled layers are not propagated to earlier layers")
    keep = find("ret_layers[new_layer_name] = layer", hc, nested=False)
    ctx.ob("REACH.hlg-cull.keep", hc, "every layer with remaining dependencies is kept", bool(keep))
    # Layer.cull (legacy + task-spec branch)
    lcu = hl.func("Layer.cull")
    st = find("out[k] = self[k]", lcu, nested=False)
    dp = find("ret_deps[k] = self.get_dependencies(k, all_hlg_keys)", lcu, nested=False)
    wa = find("work.add(d)", lcu, nested=False)
    ok = bool(st and dp and wa) and bool(find("work = keys.copy()", lcu, nested=False))
    if ok:
        facts = inline_facts(lcu, wa[0][0])
        ok = has_fact(facts, "d in self", True) is not None and has_fact(facts, "d in seen", False) is not None
        l3 = [l for l in enclosing_loops(wa[0][0]) if isinstance(l, ast.For)]
        ok = ok and bool(l3) and eqv(l3[0].iter, "ret_deps[k]")
    ctx.ob("REACH.layer-cull.legacy", lcu, "work starts from keys; out[k]=self[k]; in-layer dependencies are followed", ok)
    ok = bool(find("out = cull(dict(self), keys)", lcu, nested=False)) and any(isinstance(r.value, ast.Tuple) and "{k: set(v.dependencies) for k, v in out.items()}" in unparse(r.value) for r in returns(lcu))
    ctx.ob("REACH.layer-cull.spec", lcu, "task-spec layers: cull(dict(self), keys) and dependencies of the kept nodes", ok)
    if ctx.tier == "thorough":
        # cross-reference only (not a C10 violation): culled layers are stored under new names while
        # the dependency sets keep the old names
        if find("layer_dependencies[new_layer_name] = self.dependencies[layer_name]", hc) and find("layer_dependencies[layer_name] & ret_layers_keys", hc):
            ctx.note("HighLevelGraph.cull intersects old-name dependency sets with new-name layer keys: layer dependencies of the culled graph are empty (values unaffected; outside the letter of C10)")
    # ---------------- fused sub-tasks are named after the dependency and its index ORDER
    ud = bw.func("_unique_dep") if "bw" in dir() else ctx.model.module("dask/blockwise.py").func("_unique_dep")
    ok = any(eqv(r.value, "dep + '_' + '_'.join((str(i) for i in list(ind)))") for r in returns(ud))
    ctx.ob("INJ.unique-dep", ud, "_unique_dep(dep, ind) = dep + '_' + the indices joined IN ORDER", ok, "" if ok else "an order-destroying operation (sorted/set) is applied: the same input read as 'ij' and as 'ji' collapses onto one key when layers are fused")
    # ---------------- Layer.cull shortcut: when nothing is culled the dependencies of EVERY key of the layer are reported
    lcu2 = ctx.model.klass("dask/highlevelgraph.py", "Layer").own_methods["cull"]
    sc = [n for n in ast.walk(lcu2) if isinstance(n, ast.DictComp) and "self.get_dependencies(k, all_hlg_keys)" in unparse(n.value)]
    ok = len(sc) >= 1 and all(unparse(n.generators[0].iter) in ("self.keys()", "self") and not n.generators[0].ifs for n in sc[:1])
    ctx.ob("REACH.layer-cull.all-keys-shortcut", lcu2, "len(keys) == len(self): dependencies are reported for k in self.keys()", ok, "" if ok else "only requested keys that live in the layer are reported: helper keys kept by the layer lose their external dependencies and the upstream layer is culled too far")
    # ---------------- HighLevelGraph.cull asks EVERY layer (renamed layers no longer share a name with their keys)
    hc = model.module("dask/highlevelgraph.py").func("HighLevelGraph.cull") if "model" in dir() else ctx.model.module("dask/highlevelgraph.py").func("HighLevelGraph.cull")
    lc = [c for c in calls(hc, "layer.cull")]
    ok = len(lc) == 1
    if ok:
        facts = [(unparse(e), pol) for e, pol in cfg_of(hc).facts(lc[0])]
        ok = facts == [("keys_set", True)] and eqv(lc[0], "layer.cull(keys_set, all_ext_keys)")
    ctx.ob("REACH.hlg-cull.every-layer", hc, "layer.cull(keys_set, all_ext_keys) runs for every layer whenever keys are still wanted (no name-based shortcut)", ok, "" if ok else "a layer is skipped without asking it: after one cull layers are renamed `<name>-<tok>` while their keys keep `<name>`, so a second cull drops the layer and everything below it")
    # ---------------- optimize_blockwise: every pass of the fixed point protects the requested keys
    ob_ = model.module("dask/blockwise.py").func("optimize_blockwise") if "model" in dir() else ctx.model.module("dask/blockwise.py").func("optimize_blockwise")
    ps = [c for c in calls(ob_, "_optimize_blockwise")]
    ok = len(ps) >= 2 and all(kwarg(c, "keys") is not None and eqv(kwarg(c, "keys"), "keys") for c in ps)
    ctx.ob("ARG.blockwise-passes.keys", ob_, "every _optimize_blockwise(...) call of the fixed-point loop passes keys=keys", ok, "" if ok else "a later pass fuses a requested intermediate layer into its consumer: its keys vanish from the optimized graph")
    # ---------------- fuse_roots: the fused layer is stored WITH the (equal) annotations of the layers it replaces
    fr = (model if "model" in dir() else ctx.model).module("dask/blockwise.py").func("fuse_roots")
    st_ = [a for a in ast.walk(fr) if isinstance(a, ast.Assign) and eqv(a.targets[0], "layers[name]")]
    ok = len(st_) == 1 and isinstance(st_[0].value, ast.Call) and call_name(st_[0].value) == "MaterializedLayer" and kwarg(st_[0].value, "annotations") is not None and eqv(kwarg(st_[0].value, "annotations"), "layer.annotations")
    guard = any("layer.annotations == graph.layers[dep].annotations" in unparse(n.test) for n in ast.walk(fr) if isinstance(n, ast.If))
    ctx.ob("ANN.fuse-roots.kept", fr, "fuse_roots fuses only equally annotated layers and stores MaterializedLayer(new, annotations=layer.annotations)", ok and guard, "" if ok and guard else "the fused tasks are stored as a bare dict: HighLevelGraph wraps it without annotations, i.e. every constraint (retries, workers, resources) is loosened to nothing")
    # ---------------- rewrite_blockwise builds the fused layer from COPIES of the root layer's mutable fields
    rwb = (model if "model" in dir() else ctx.model).module("dask/blockwise.py").func("rewrite_blockwise")
    for field, want in (("new_axes", "dict(inputs[root].new_axes)"), ("indices", "list(inputs[root].indices)")):
        a_ = find(f"{field} = M_v", rwb)
        first = min(a_, key=lambda nb: nb[0].lineno) if a_ else None
        ok = first is not None and eqv(first[1]["M_v"], want)
        ctx.ob("EFFECT.rewrite-blockwise.no-alias", rwb, f"{field} = {want}: a private copy that the fusion loop may extend", ok, "" if ok else f"`{field}` aliases the root layer's own object and is updated during fusion: optimize_blockwise changes the graph it was given (the unfused graph can no longer be computed)")


VARIANTS = [
    (BW, '        annotations["priority"] = max(priorities)', '        annotations["priority"] = min(priorities)', "ALG.annotations.combiner"),
    (BW, '        annotations["workers"] = list(set.intersection(*[set(w) for w in workers]))', '        annotations["workers"] = list(set.union(*[set(w) for w in workers]))', "ALG.annotations.combiner"),
    (BW, '        annotations["allow_other_workers"] = all(allow_other_workers)', '        annotations["allow_other_workers"] = any(allow_other_workers)', "ALG.annotations.combiner"),
    (BW, '        annotations["resources"] = toolz.merge_with(max, *resources)', '        annotations["resources"] = toolz.merge(*resources)', "ALG.annotations.combiner"),
    (BW, '    fusable = {"retries", "priority", "resources", "workers", "allow_other_workers"}', '    fusable = {"retries", "priority", "resources", "workers", "allow_other_workers", "queue"}', "TAB.annotations.keys"),
    (BW, '    retries = [a["retries"] for a in args if "retries" in a]', '    retries = [a["priority"] for a in args if "priority" in a]', "TAB.annotations.collect"),
    (BW, "            self.dims,\n            self.output_indices,\n            self.numblocks,\n            self.indices,\n            concatenate,", "            self.dims,\n            self.output_indices,\n            self.numblocks,\n            self.indices,\n            None,", "SIB.blockwise-coords.mapping-args"),
    (BW, "                    arg_coords = tuple(coords[c] for c in cmap)\n                    if axes:\n                        tups = _lol_product((arg,), arg_coords)", "                    arg_coords = tuple(out_coords[c] for c in cmap if c < len(out_coords))\n                    if axes:\n                        tups = _lol_product((arg,), arg_coords)", "SIB.blockwise-coords.expr"),
    (HLG, "        for layer_name in reversed(self._toposort_layers()):", "        for layer_name in self._toposort_layers():", "REACH.hlg-cull.order"),
    (HLG, "                    keys_set |= d\n", "                    pass\n", "REACH.hlg-cull.grow"),
    (BW, "            if key[0] == self.output:\n                output_blocks.add(key[1:])", "            if True:\n                output_blocks.add(key[1:])", "REACH.blockwise-cull.outputs"),
    (BW, "            concatenate=self.concatenate,\n            new_axes=self.new_axes,\n            output_blocks=output_blocks,", "            new_axes=self.new_axes,\n            output_blocks=output_blocks,", "REACH.blockwise-cull.copy-field"),
]


def selftest(ctx):
    from ..variants import selftest as st

    return st(ctx, "C10", VARIANTS)
