"""C36 -- row-wise and elementwise DataFrame operations equal pandas (narrow; tables only).

Decided:
 ALG.operators    three-level operator chain: the dunders bound on the collection (FrameBase) forward to
                  the same dunder of the expression; Expr.__op__ builds the Binop class whose
                  `operation` is the operator of that dunder (Python data model), reflected dunders swap
                  the operands; the printed symbol agrees; comparison methods (lt/le/...) map to the
                  classes whose operation is the same-named pandas method
 NAME.elemwise    Elemwise/Blockwise classes bind `operation = M.<name>` where <name> is the snake-cased
                  class name (frozen exceptions below)
 ARGPOS           expression constructor sites in dask_expr/_expr.py and _collection.py
dask.dataframe cannot be imported in this sandbox (pyarrow missing): no test covers this code, these
source-level tables are the only check.  Not decided: equality with pandas.
"""
from __future__ import annotations

import ast

from ..lib import *
from ..srcmodel import snake
from . import _tables as T

EXPLANATION = (
    "Algebraic agreement of the DataFrame operator tables with the Python data model (dunder -> operator "
    "function -> symbol; reflected forms swap operands) across the collection, expression and Binop layers; "
    "naming agreement between Elemwise classes and the pandas method they apply; argument-slot agreement at "
    "every expression-constructor call site in dask_expr/_expr.py and _collection.py.  Equality with pandas is NOT decided."
)
ASSUMPTIONS = ["Blockwise expressions apply `operation` to their operands in `_parameters` order"]
EX = "dask/dataframe/dask_expr/_expr.py"
COL = "dask/dataframe/dask_expr/_collection.py"
# class -> reason, for `operation` bindings that do not follow the naming convention
NAME_EXCEPTIONS = {
    "AsUnknown": "categorical as_unknown is a copy of the values (M.copy) plus new meta",
    "Filter": "df[mask] is getitem",
    "Projection": "df[columns] is getitem",
    "AlignGetitem": "getitem after alignment",
    "Index": "df.index is getattr(df, 'index')",
    "Div": "Div is true division (operator.truediv)",
    "CombineSeries": "Series.combine",
    "ToFrameIndex": "Index.to_frame",
    "ToSeriesIndex": "Index.to_series",
    "VarColumns": "row-wise var over columns",
    "NUniqueColumns": "row-wise nunique over columns",
    "DropnaSeries": "Series.dropna",
    "DropnaFrame": "DataFrame.dropna",
    "DropDuplicatesBlockwise": "drop_duplicates per block",
    "ExplodeSeries": "Series.explode",
    "AddPrefixSeries": "Series.add_prefix",
    "AddSuffixSeries": "Series.add_suffix",
    "ShiftIndex": "Index.shift",
    "SortIndexBlockwise": "sort_index per block",
    "_Align": "align",
    "Invert": "operator.inv is operator.invert",
}


def distributive_rules(ctx):
    model = ctx.model
    # ---------------- ALG.distributive: rewriting a filter (A&B)|(A&C) -> A&(B|C)
    mod_ex = model.module(EX)
    rc = mod_ex.func("_replace_common_or_components")
    apps = find("replacements.append(M_c)", rc)
    ok = len(apps) == 1
    if ok:
        facts = [(unparse(e), pol) for e, pol in cfg_of(rc).facts(apps[0][0])]
        ok = ("all((c in comp for comp in and_components))", True) in facts
    ctx.ob("ALG.distributive.common-to-all", rc, "a conjunct is pulled out of the disjunction only if it occurs in ALL disjuncts", ok, "" if ok else "a conjunct that is missing from one disjunct is factored out: (A&B)|(A&C)|D becomes A&(B|C|D) and rows matching only D are dropped")
    ok = bool(find("outer_component = outer_component & mapping[r]", rc)) and bool(find("or_component = or_component | c", rc)) and any(eqv(r.value, "outer_component & or_component") for r in returns(rc))
    ctx.ob("ALG.distributive.shape", rc, "result = (conjunction of the common conjuncts) & (disjunction of the remainders)", ok)
    ok = bool(find("keep_components = [c for c in comp if c not in replacements]", rc)) and bool(find("result_component = result_component & comp[c]", rc))
    ctx.ob("ALG.distributive.remainder", rc, "each disjunct keeps exactly its non-common conjuncts, and-ed together", ok)


def check(ctx):
    model = ctx.model
    em = T.exprmodel(ctx)
    exm = model.module(EX)
    colm = model.module(COL)
    expr = model.klass(EX, "Expr")
    # ---------------- level 1: collection dunders
    bound = []
    for n in ast.walk(colm.tree):
        if isinstance(n, ast.For) and isinstance(n.iter, ast.List) and all(isinstance(e, ast.Constant) and isinstance(e.value, str) and e.value.startswith("__") for e in n.iter.elts):
            for st in n.body:
                m = Pat("setattr(FrameBase, op, functools.partialmethod(M_f, op=op))").match(st.value) if isinstance(st, ast.Expr) else None
                if m is not None:
                    bound.append(([e.value for e in n.iter.elts], unparse(m["M_f"]), n))
    ctx.count("collection_operator_tables", len(bound))
    ctx.floor("collection_operator_tables", 2)
    all_col = []
    for names, fn, node in bound:
        want = "_wrap_unary_expr_op" if all(T.dunder_parts(x) and T.dunder_parts(x)[0] in T.UNARY for x in names) else "_wrap_expr_op"
        ctx.ob("ALG.operators.collection-wrapper", node, f"{len(names)} dunders bound through {want}", fn == want, f"bound through {fn}")
        bad = [x for x in names if T.dunder_parts(x) is None]
        ctx.ob("ALG.operators.collection-names", node, "every bound name is an operator dunder", not bad, f"{bad}")
        all_col += names
    w = colm.func("_wrap_expr_op")
    ok = any(Pat("new_collection(getattr(self.expr, op)(other))").match(r.value) is not None for r in returns(w))
    ctx.ob("ALG.operators.collection-forward", w, "_wrap_expr_op ends in getattr(self.expr, op)(other): same dunder on the expression", ok)
    wu = colm.func("_wrap_unary_expr_op")
    ok = any(Pat("new_collection(getattr(self.expr, op)())").match(r.value) is not None for r in returns(wu))
    ctx.ob("ALG.operators.collection-forward", wu, "_wrap_unary_expr_op ends in getattr(self.expr, op)()", ok)
    need = {f"__{s}__" for s in ("add", "sub", "mul", "truediv", "floordiv", "mod", "pow", "and", "or", "xor", "lt", "le", "gt", "ge", "eq", "ne")} | {f"__r{s}__" for s in ("add", "sub", "mul", "truediv", "floordiv", "mod", "pow", "and", "or", "xor")} | {"__invert__", "__neg__", "__pos__"}
    miss = sorted(need - set(all_col))
    ctx.ob("ALG.operators.collection-complete", f"{COL}::<module>", "arithmetic, bitwise, comparison and unary dunders are all bound on the collection", not miss, f"missing {miss}")
    # ---------------- level 2 + 3: Expr dunders -> Binop classes
    n_d = 0
    for name, f in expr.own_methods.items():
        dp = T.dunder_parts(name)
        if dp is None:
            continue
        stem, reflected = dp
        rs = returns(f)
        if len(rs) != 1 or not isinstance(rs[0].value, ast.Call):
            continue
        call = rs[0].value
        ci = model.resolve_class(exm, call.func, f)
        if ci is None:
            ctx.ob("ALG.operators.expr", f, f"Expr.{name} builds an expression class", None, f"cannot resolve {unparse(call.func)}")
            continue
        n_d += 1
        params = [a.arg for a in f.args.args]
        args = [unparse(a) for a in call.args]
        if stem in T.UNARY and stem not in T.BINARY or len(params) == 1:
            want_args = ["self"]
            fns = T.UNARY[stem][0]
        else:
            other = params[1]
            want_args = [other, "self"] if reflected else ["self", other]
            fns = T.BINARY[stem][0]
        ok_args = args == want_args
        ctx.ob("ALG.operators.expr-operands", f, f"Expr.{name} -> {ci.name}({', '.join(want_args)})", ok_args, "" if ok_args else f"builds {ci.name}({', '.join(args)}): operands in the wrong order")
        _, opn = ci.lookup("operation")
        got = dotted(opn) if opn is not None else None
        ok_op = got is not None and got.split(".")[0] == "operator" and got.split(".")[1] in fns
        ctx.ob("ALG.operators.expr-operation", f, f"Expr.{name} -> {ci.name}.operation is operator.{fns[0]}", ok_op, "" if ok_op else f"{ci.name}.operation = {got}")
    ctx.count("expr_operator_dunders", n_d)
    ctx.floor("expr_operator_dunders", 25)
    missing = sorted(x for x in set(all_col) if expr.method(x)[1] is None)
    ctx.ob("ALG.operators.expr-complete", expr.node, "every dunder the collection forwards exists on Expr", not missing, f"missing on Expr: {missing}")
    # Binop / Unaryop classes: operation <-> symbol
    binop = model.klass(EX, "Binop")
    unop = model.klass(EX, "Unaryop")
    n_b = 0
    for ci in em.classes:
        if ci.module.relpath != EX or (binop not in ci.mro and unop not in ci.mro):
            continue
        if "operation" not in ci.own or "_operator_repr" not in ci.own:
            continue
        opn = dotted(ci.own["operation"])
        sym = const(ci.own["_operator_repr"])
        if opn is None or not isinstance(sym, str):
            continue
        n_b += 1
        fn = opn.split(".")[-1]
        want = T.SYMBOL_OF.get(fn)
        ok = want == sym
        ctx.ob("ALG.operators.symbol", ci.node, f"{ci.name}: operation {opn} prints as {want!r}", ok, "" if ok else f"_operator_repr = {sym!r}")
        # class name agrees with the operation
        cn = ci.name.lower().replace("series", "").replace("frame", "")
        alias = {"div": "truediv", "xor": "xor", "invert": "inv"}
        okn = fn.rstrip("_") == cn or alias.get(cn) == fn or fn == alias.get(cn, cn) or (cn == "invert" and fn in ("inv", "invert"))
        ctx.ob("NAME.binop", ci.node, f"{ci.name}.operation is named like the class", okn, "" if okn else f"operation = {opn}")
    ctx.count("binop_classes", n_b)
    ctx.floor("binop_classes", 30)
    # Binop operand order
    ok = em.parameters(binop)[:2] == ["left", "right"]
    ctx.ob("ALG.operators.binop-parameters", binop.node, "Binop._parameters starts with [left, right]", ok)
    # comparison/arith methods on the collection -> *Series / *Frame classes
    n_m = 0
    for meth in ("lt", "le", "gt", "ge", "eq", "ne"):
        for clsname in ("Series", "DataFrame"):
            ccls = model.klass(COL, clsname)
            _, f = ccls.method(meth)
            if f is None:
                continue
            built = [model.resolve_class(colm, c.func, f) for c in calls(f) if dotted(c.func) and dotted(c.func).split(".")[-1][:1].isupper()]
            built = [b for b in built if b is not None and binop in b.mro]
            for b in built:
                n_m += 1
                _, opn = b.lookup("operation")
                got = dotted(opn)
                ok = got is not None and got.split(".")[-1] == meth
                ctx.ob("ALG.operators.method", f, f"{clsname}.{meth} -> {b.name} with operation M.{meth}", ok, "" if ok else f"{b.name}.operation = {got}")
    ctx.count("comparison_method_sites", n_m)
    # ---------------- NAME for Elemwise
    blockwise = model.klass(EX, "Blockwise")
    n_n = 0
    for ci in em.classes:
        if not ci.module.relpath.startswith("dask/dataframe/dask_expr/") or blockwise not in ci.mro or "operation" not in ci.own:
            continue
        d = dotted(ci.own["operation"])
        if d is None or not d.startswith("M."):
            continue
        n_n += 1
        fn = d[2:]
        sn = snake(ci.name)
        regular = fn == sn or fn.replace("_", "") == sn.replace("_", "")
        if ci.name in NAME_EXCEPTIONS:
            ctx.ob("NAME.elemwise", ci.node, f"{ci.name}.operation = {d} (frozen exception: {NAME_EXCEPTIONS[ci.name]})", True, nontrivial=False)
            continue
        if binop in ci.mro:
            continue
        ctx.ob("NAME.elemwise", ci.node, f"{ci.name}.operation = M.{sn}", regular, "" if regular else f"operation = {d}: the class applies a different pandas method than its name says")
    ctx.count("elemwise_method_bindings", n_n)
    ctx.floor("elemwise_method_bindings", 40)
    T.argpos(ctx, lambda p: p in (EX, COL), "c36", floor=100)
    distributive_rules(ctx)
    # ---------------- CALLCONV: how Blockwise classes call the pandas method they wrap
    # operation = M.<method>; positional arguments = _parameters (after the frame) that are not in
    # _keyword_only, in that order; keywords = _keyword_only (Blockwise._args / _kwargs).  The pandas
    # signatures (Series / DataFrame / Index variants) are a fact table about pandas, frozen in
    # pandas_sigs.json (generated once from the installed pandas; pandas is not imported by the check).
    import json as _json
    import os as _os

    with open(_os.path.join(_os.path.dirname(_os.path.abspath(__file__)), "pandas_sigs.json")) as fh:
        SIGS = _json.load(fh)
    from ..exprmodel import ExprModel

    em = ExprModel(model)
    n_cc = 0
    for ci in em.classes:
        if not ci.module.relpath.startswith("dask/dataframe/dask_expr/"):
            continue
        owner, val = ci.lookup("operation")
        if val is None or not (isinstance(val, ast.Attribute) and unparse(val).startswith("M.")):
            continue
        meth = val.attr
        params = em.parameters(ci)
        if params is None or meth not in SIGS or not SIGS[meth]:
            continue
        ko = em.keyword_only(ci) or []
        variants = SIGS[meth]
        allp = {p_ for v in variants.values() for p_ in v}
        pos = [p_ for p_ in params[1:] if p_ not in ko]
        n_cc += 1
        # positional: some pandas variant has every recognised name at the very index it is passed at
        named = [(i, p_) for i, p_ in enumerate(pos) if p_ in allp]
        ok = not named or any(all(p_ in v and v.index(p_) == i for i, p_ in named) for v in variants.values())
        ctx.ob("CALLCONV.positional", ci.node, f"{ci.name}: positional operands {pos} line up with pandas {meth}{tuple(next(iter(variants.values())))[:4]}...", ok, "" if ok else f"no pandas variant of {meth} takes {[p_ for _, p_ in named]} at positions {[i for i, _ in named]}: {variants}")
        # keywords: reach pandas only through _kwargs; an override that returns {} drops them
        kown, kval = ci.lookup("_kwargs")
        dropped = []
        if kown is not None and kown.name != "Blockwise":
            body = kown.own_methods.get("_kwargs")
            if body is not None:
                rets = returns(body)
                empties = all(isinstance(r.value, ast.Dict) and not r.value.keys for r in rets) and bool(rets)
                if empties:
                    dropped = [p_ for p_ in ko if p_ in allp]
        ctx.ob("CALLCONV.keywords-reach", ci.node, f"{ci.name}: keyword-only operands {ko} that pandas {meth} understands are forwarded", not dropped, "" if not dropped else f"{dropped} are keyword-only but {kown.name}._kwargs returns {{}}: the option never reaches pandas and is silently ignored")
    ctx.count("pandas_call_conventions", n_cc)
    ctx.floor("pandas_call_conventions", 45, "Blockwise classes wrapping a pandas method (operation = M.x)")
    from ._claims import check_claims

    check_claims(ctx)
    # ---------------- MaybeAlignPartitions: "already aligned" needs KNOWN, equal divisions
    mal = model.klass(EX, "MaybeAlignPartitions").own_methods["_lower"]
    conds = [n for n in ast.walk(mal) if isinstance(n, ast.Call) and call_name(n) == "all" and "divisions == df.divisions" in unparse(n)]
    ok = len(conds) == 1 and "df.known_divisions" in unparse(conds[0])
    ctx.ob("DOM.align.known-divisions", mal, "frames are combined partition by partition without alignment only if their divisions are equal AND known", ok, "" if ok else "two frames with unknown divisions (None == None) are treated as aligned: rows are paired by position, not by index")
    from .C13 import no_operand_mutation

    no_operand_mutation(ctx)
    # ---------------- aligned binary methods forward their trailing operands POSITIONALLY: same order on both sides
    ex36 = ctx.model.module("dask/dataframe/dask_expr/_expr.py")
    def _params(cname):
        c_ = ex36.cls(cname)
        for st in c_.body:
            if isinstance(st, ast.Assign) and eqv(st.targets[0], "_parameters") and isinstance(st.value, ast.List):
                return [e.value for e in st.value.elts if isinstance(e, ast.Constant)]
        return None
    pa, pm = _params("MethodOperatorAlign"), _params("MethodOperator")
    opf = ex36.func("MethodOperatorAlign._op")
    fwd = any(eqv(r.value, "MethodOperator(op, frame, other, *args, **kwargs)") for r in returns(opf))
    ok = pa is not None and pm is not None and fwd and pa[:3] == ["frame", "other", "op"] and pm[:3] == ["name", "left", "right"] and pa[3:] == pm[3:]
    ctx.ob("ARGPOS.align-forward", opf, f"MethodOperatorAlign{pa} -> MethodOperator(op, frame, other, *rest): rest {pa[3:] if pa else None} == {pm[3:] if pm else None}", ok, "" if ok else "the trailing operands reach MethodOperator in a different order: fill_value lands in `level` (pandas ignores level on a flat index) and is lost for operands that need alignment")
    # ---------------- AsType: a filter passes below the cast only if its predicate does not read what the cast changes
    asu = ex36.func("AsType._simplify_up")
    fb = [n for n in ast.walk(asu) if isinstance(n, ast.If) and "isinstance(parent, Filter)" in unparse(n.test)]
    ok = len(fb) == 1 and "self._filter_passthrough_available(parent, dependents)" in unparse(fb[0].test) and "not self._predicate_reads_cast_columns(parent.predicate)" in unparse(fb[0].test) and isinstance(fb[0].test, ast.BoolOp) and isinstance(fb[0].test.op, ast.And)
    ctx.ob("DOM.astype.filter-guard", asu, "AsType pushes a Filter down only when the predicate does not read a (value-changing) cast column", ok, "" if ok else "x = df.astype({'a': 'int64'}); x[x.a > 1] evaluates the predicate on the un-cast data: rows are kept that pandas drops")
    nar = [n for n in ast.walk(asu) if isinstance(n, ast.DictComp) and "dtypes.items()" in unparse(n)]
    ok = len(nar) == 1 and nar[0].generators[0].ifs and all(isinstance(t.comparators[0], ast.Name) for t in nar[0].generators[0].ifs if isinstance(t, ast.Compare)) and bool(find("M_w = _convert_to_list(columns)", asu))
    if ok:
        w = unparse(find("M_w = _convert_to_list(columns)", asu)[0][1]["M_w"])
        ok = all(unparse(t.comparators[0]) == w for t in nar[0].generators[0].ifs if isinstance(t, ast.Compare))
    ctx.ob("TAB.astype.projection-membership", asu, "the dtype dict is narrowed with `key in <list of projected columns>`", ok, "" if ok else "with a single projected column `key in columns` is a substring test: 'a' in 'ab' keeps the wrong key and Series.astype raises")
    # ---------------- isin: value lists that NumPy would coerce to one type are kept as object arrays
    isf = ctx.model.module("dask/dataframe/dask_expr/_collection.py").func("FrameBase.isin")
    ol = find("object_like = M_v", isf)
    vals = {const(e) for e in ol[0][1]["M_v"].elts} if len(ol) == 1 and isinstance(ol[0][1]["M_v"], ast.Set) else set()
    need = {"mixed-integer", "mixed", "decimal", "categorical", "time", "period", "unknown-array"}
    ok = need <= vals
    ctx.ob("TAB.isin.object-like", isf, f"isin keeps values of inferred type {sorted(need)} as dtype=object", ok, "" if ok else f"missing {sorted(need - vals)}: np.asarray turns [1, 'a', 7] into strings, so isin gives false negatives on int columns and false positives on string columns")
    # ---------------- str.split / str.rsplit(expand=True): the method that was asked for is the one that runs
    spf = ctx.model.module("dask/dataframe/dask_expr/_str_accessor.py").func("StringAccessor._split")
    sm = [c for c in calls(spf, "SplitMap")]
    ok = len(sm) == 1 and len(sm[0].args) >= 3 and eqv(sm[0].args[2], "method") and "method" in [a.arg for a in spf.args.args]
    ctx.ob("DELEG.str-split.method", spf, "_split(method, ...) builds SplitMap(series, accessor, method, ...)", ok, "" if ok else "rsplit(expand=True) runs split: columns differ from pandas whenever a string has more separators than n")


VARIANTS = [
    (EX, "        if all(c in comp for comp in and_components):", "        if any(c in comp for comp in and_components):", "ALG.distributive.common-to-all"),
    (EX, '    _keyword_only = ["meta", "is_monotonic"]\n    operation = M.map', '    _keyword_only = ["na_action", "meta", "is_monotonic"]\n    operation = M.map', "CALLCONV.keywords-reach"),
    (EX, '    _parameters = ["frame", "left", "right", "inclusive"]', '    _parameters = ["frame", "right", "left", "inclusive"]', "CALLCONV.positional"),
    (EX, "    def __rsub__(self, other):\n        return Sub(other, self)", "    def __rsub__(self, other):\n        return Sub(self, other)", "ALG.operators.expr-operands"),
    (EX, "    def __truediv__(self, other):\n        return Div(self, other)", "    def __truediv__(self, other):\n        return FloorDiv(self, other)", "ALG.operators.expr-operation"),
    (EX, "class Sub(Binop):\n    operation = operator.sub", "class Sub(Binop):\n    operation = operator.add", "ALG.operators"),
    (EX, 'class LE(Binop):\n    operation = operator.le\n    _operator_repr = "<="', 'class LE(Binop):\n    operation = operator.le\n    _operator_repr = "<"', "ALG.operators.symbol"),
    (EX, "class GESeries(BinOpSeries):\n    operation = M.ge", "class GESeries(BinOpSeries):\n    operation = M.gt", "NAME.binop"),
    (EX, "class IsNa(Elemwise):\n    _parameters = [\"frame\"]\n    operation = M.isna", "class IsNa(Elemwise):\n    _parameters = [\"frame\"]\n    operation = M.notna", "NAME.elemwise"),
    (COL, '    "__rsub__",\n', "", "ALG.operators.collection-complete"),
    (COL, "expr.CombineFrame(self, other, func, fill_value, overwrite)", "expr.CombineFrame(self, other, func, overwrite, fill_value)", "ARGPOS"),
    (COL, "expr.Split(self, frac, random_state, shuffle)", "expr.Split(self, frac, shuffle, random_state)", "ARGPOS"),
    (COL, "    return new_collection(getattr(self.expr, op)(other))", "    return new_collection(getattr(other, op)(self.expr))", "ALG.operators.collection-forward"),
]


def selftest(ctx):
    from ..variants import selftest as st

    return st(ctx, "C36", VARIANTS)
