"""C06 -- static ordering is a total order consistent with dependencies (partial).

Decided:
 ABS.result-sources    every value stored into the result map comes from the walk counter (stored
                       once per key, then incremented by exactly 1) or from the leaf-removal
                       priority, whose per-iteration delta is exactly -1 from `expected_len - 1`
                       (so the two ranges are disjoint and each injective)
 PAIR.external-keys    every artificially added external key is removed from the result
 MPT.cycle-guard       the cycle check lies on every path to the main walk
 DOM.runnable          a dependent is queued as runnable / the critical-path item is emitted only
                       when its count of unplaced dependencies is zero
 TOT.all-keys          the walk continues until every key has a priority
Not decided: that the heuristic walk always places dependencies first.
"""
from __future__ import annotations

import ast

from ..lib import *
from ..srcmodel import assigned_names

EXPLANATION = (
    "Abstract interpretation of the two sources of priority values in dask/order.py::order (a counter with "
    "write-once stores and unit increments; a leaf-removal priority whose affine per-iteration delta is "
    "computed from the loop body), pairing of external-key insertion and removal, dominance of the cycle "
    "guard, and dominance of the 'no unplaced dependency' test over every queueing of a dependent.  Decides "
    "distinctness of priorities structurally; does NOT decide that the heuristic walk is topological."
)
ASSUMPTIONS = ["num_needed[k] counts the dependencies of k not yet placed (initialised by ndependencies)"]
ORDER = "dask/order.py"


def _linear(expr):
    """expr as {atom_text: coefficient} + constant, for +/- combinations; None if not linear."""
    terms = {}
    const_ = 0

    def go(e, sign):
        nonlocal const_
        if isinstance(e, ast.BinOp) and isinstance(e.op, (ast.Add, ast.Sub)):
            go(e.left, sign)
            go(e.right, sign if isinstance(e.op, ast.Add) else -sign)
            return True
        if isinstance(e, ast.UnaryOp) and isinstance(e.op, ast.USub):
            return go(e.operand, -sign)
        if isinstance(e, ast.Constant) and isinstance(e.value, int):
            const_ += sign * e.value
            return True
        if isinstance(e, ast.Name) or (isinstance(e, ast.Call) and call_name(e) == "len" and len(e.args) == 1 and isinstance(e.args[0], ast.Name)):
            terms[unparse(e)] = terms.get(unparse(e), 0) + sign
            return True
        raise ValueError(unparse(e))

    try:
        go(expr, 1)
    except ValueError:
        return None
    return terms, const_


def _delta_in_block(func, block_stmts, atom: str):
    """Change of `atom` (a name or len(name)) caused by one execution of the statements in
    block_stmts (straight-line, same block).  None if it cannot be determined."""
    d = 0
    for st in block_stmts:
        for n in ast.walk(st):
            if atom.startswith("len("):
                nm = atom[4:-1]
                if isinstance(n, ast.Delete):
                    for t in n.targets:
                        if isinstance(t, ast.Subscript) and unparse(t.value) == nm:
                            d -= 1
                if isinstance(n, ast.Call) and isinstance(n.func, ast.Attribute) and unparse(n.func.value) == nm:
                    if n.func.attr in ("pop", "remove", "popitem", "discard"):
                        d -= 1
                    elif n.func.attr in ("add", "append", "update", "extend", "setdefault", "clear"):
                        return None
                if isinstance(n, ast.Assign):
                    for t in n.targets:
                        if isinstance(t, ast.Subscript) and unparse(t.value) == nm:
                            return None
                        if isinstance(t, ast.Name) and t.id == nm:
                            return None
            else:
                if isinstance(n, ast.AugAssign) and isinstance(n.target, ast.Name) and n.target.id == atom:
                    c = const(n.value)
                    if isinstance(n.op, ast.Add) and isinstance(c, int):
                        d += c
                    elif isinstance(n.op, ast.Sub) and isinstance(c, int):
                        d -= c
                    else:
                        return None
                if isinstance(n, ast.Assign):
                    for t in n.targets:
                        if isinstance(t, ast.Name) and t.id == atom:
                            return None
    return d


def check(ctx):
    model = ctx.model
    mod = model.module(ORDER)
    order = mod.func("order")
    g = cfg_of(order)
    # all functions of order (itself + nested)
    funcs = [order] + [f for qn, f in mod.functions() if qn.startswith("order.")]
    stores = []
    for f in funcs:
        for n, b in find("result[M_k] = M_v", f, nested=False):
            stores.append((f, n, b))
    ctx.count("result_store_sites", len(stores))
    ctx.floor("result_store_sites", 2)
    counter_sites = prio_sites = 0
    for f, n, b in stores:
        v = b["M_v"]
        src = v
        if isinstance(v, ast.Call) and call_name(v) == "Order" and v.args:
            src = v.args[0]
        if not isinstance(src, ast.Name):
            ctx.ob("ABS.result-sources", n, f"result[{unparse(b['M_k'])}] = {unparse(v)}", False, "priority value is neither the walk counter nor the leaf-removal priority")
            continue
        name = src.id
        kind = None
        # walk counter: a nonlocal/int initialised to 0 in order() and incremented by 1
        if name in (assigned_names(order).keys()) and any(isinstance(d, ast.Assign) and const(d.value) == 0 for d in assigned_names(order).get(name, [])) and any(
            isinstance(x, ast.Nonlocal) and name in x.names for x in walk_no_nested(f)
        ):
            kind = "counter"
        else:
            val = reaching_of(f).unique_value(n, name)
            if val is not None:
                kind = "prio"
        if kind == "counter":
            counter_sites += 1
            facts = inline_facts(f, n)
            once = has_fact(facts, "M_k in result", False, {"M_k": b["M_k"]}) is not None
            ctx.ob("ABS.counter.write-once", n, f"result[{unparse(b['M_k'])}] = {name} only if not yet in result", once, "" if once else "a key can be assigned twice")
            incs = [a for a in walk_no_nested(f) if isinstance(a, ast.AugAssign) and isinstance(a.target, ast.Name) and a.target.id == name]
            ok = len(incs) == 1 and isinstance(incs[0].op, ast.Add) and const(incs[0].value) == 1
            detail = ""
            if ok:
                gf = cfg_of(f)
                inc_node = gf.node_of(incs[0])
                store_nodes = {gf.node_of(s_[1]) for s_ in stores if s_[0] is f and (isinstance(s_[2]["M_v"], ast.Name) and s_[2]["M_v"].id == name or name in [x.id for x in ast.walk(s_[2]["M_v"]) if isinstance(x, ast.Name)])}
                # every path from the loop head to the increment passes a store, and the increment
                # is conditioned (beyond the store's own guards) only on "not an external key"
                loops = enclosing_loops(incs[0])
                head = gf.node_of(loops[0]) if loops else gf.entry
                ok = gf.all_paths_pass(head, inc_node, store_nodes)
                common = None
                for s_ in stores:
                    if s_[0] is f:
                        fs = {(unparse(e), p) for e, p in inline_facts(f, s_[1])}
                        common = fs if common is None else (common & fs)
                extra = [(unparse(e), p) for e, p in inline_facts(f, incs[0]) if (unparse(e), p) not in (common or set())]
                ok = ok and all(u == f"{unparse(b['M_k'])} in external_keys" and p is False for u, p in extra)
                detail = f"extra conditions on the increment: {extra}"
            # no other writer of the counter anywhere in order()
            others = [a for ff in funcs for a in walk_no_nested(ff) if isinstance(a, (ast.AugAssign, ast.Assign)) and any(isinstance(t, ast.Name) and t.id == name for t in ([a.target] if isinstance(a, ast.AugAssign) else a.targets))]
            ok = ok and len(others) == 2
            ctx.ob("ABS.counter.unit-step", n, f"{name} += 1 after each store (skipped only for external keys)", ok, "" if ok else f"counter updates: {[unparse(a) for a in others]}; {detail}")
        elif kind == "prio":
            prio_sites += 1
            val, defst = reaching_of(f).unique_value(n, name)
            lin = _linear(val)
            if lin is None:
                ctx.ob("ABS.prio.delta", n, f"{name} = {unparse(val)}", None, "priority expression is not affine")
                continue
            terms, c0 = lin
            # the block that contains both the definition and the store
            blk = defst._parent
            body = None
            for fld in ("body", "orelse"):
                if any(x is defst for x in getattr(blk, fld, [])):
                    body = getattr(blk, fld)
            loops = enclosing_loops(n)
            total = 0
            unknown = []
            for atom, coef in terms.items():
                d = _delta_in_block(f, body, atom)
                if d is None:
                    unknown.append(atom)
                else:
                    # atoms assigned outside every enclosing loop are invariant
                    total += coef * d
            ok = not unknown and total == -1
            ctx.ob(
                "ABS.prio.delta",
                n,
                f"{name} = {unparse(val)}; per removed leaf the priority changes by exactly -1",
                ok,
                f"delta per iteration = {total}" + (f" (unknown: {unknown})" if unknown else "") + ("" if ok else ": priorities of removed leaves collide with or skip values of the walk counter"),
            )
            # base: expected_len - 1 where expected_len = len(dsk) fixed before the loop
            base_ok = c0 == -1 and sum(1 for a, cf in terms.items() if cf == 1) == 1
            basename = [a for a, cf in terms.items() if cf == 1]
            if base_ok:
                bn = basename[0]
                if bn.startswith("len("):
                    base_ok = False  # len of a container that shrinks in the loop
                else:
                    bd = assigned_names(order).get(bn, [])
                    base_ok = len(bd) == 1 and isinstance(bd[0], ast.Assign) and Pat("len(dsk)").match(bd[0].value) is not None and not enclosing_loops(bd[0])
                    # while-loop bound and final assertion use the same name
            ctx.ob("ABS.prio.base", n, f"{name} starts at (number of keys) - 1", base_ok, "" if base_ok else f"base terms {terms} const {c0}")
        else:
            ctx.ob("ABS.result-sources", n, f"result[{unparse(b['M_k'])}] = {unparse(v)}", False, f"{name} is neither the walk counter nor an affine leaf priority")
    ctx.count("counter_store_sites", counter_sites)
    ctx.count("prio_store_sites", prio_sites)
    ctx.floor("counter_store_sites", 1)
    ctx.floor("prio_store_sites", 1)

    # ---- external keys
    adds = find("external_keys.add(M_k)", order, nested=False)
    ctx.count("external_key_add_sites", len(adds))
    ctx.floor("external_key_add_sites", 1)
    rets = [r for r in returns(order) if r.value is not None and eqv(r.value, "result")]
    dels = [(d, db) for d, db in find("del result[M_k]", order, nested=False)]
    ok = False
    for d, db in dels:
        loops = [l for l in enclosing_loops(d) if isinstance(l, ast.For) and eqv(l.iter, "external_keys") and same(l.target, db["M_k"])]
        if loops and rets and all(g.dominates(g.node_of(loops[0]), g.node_of(r)) for r in rets):
            ok = True
    ctx.ob("PAIR.external-keys", adds[0][0], "external_keys.add(k) ... for k in external_keys: del result[k] before return", ok, "" if ok else "artificial external keys leak into the result")
    # ---- cycle guard
    guard = None
    for n in order.body:
        if isinstance(n, ast.If) and Pat("len(total_dependencies) != len(dsk)").match(n.test) is not None:
            if any(isinstance(x, ast.Raise) for x in n.body):
                guard = n
    mains = [n for n in order.body if isinstance(n, ast.While) and "result" in unparse(n.test)]
    ok = guard is not None and bool(mains) and all(g.dominates(g.node_of(guard), g.node_of(m)) for m in mains)
    ctx.ob("MPT.cycle-guard", guard or order, "if len(total_dependencies) != len(dsk): raise  -- before the main walk", ok)
    # ---- totality
    ok = bool(mains) and any(Pat("len(result) < expected_len").match(m.test) is not None for m in mains)
    ctx.ob("TOT.all-keys", mains[0] if mains else order, "while len(result) < expected_len", ok)
    # ---- runnable discipline
    atr = mod.func("order.add_to_result")
    q = find("next_items.append(M_d)", atr, nested=False) + find("runnable.append(M_d)", atr, nested=False)
    q = [(n, b) for n, b in q if enclosing_loops(n)]
    ctx.count("queue_dependent_sites", len(q))
    ctx.floor("queue_dependent_sites", 2)
    for n, b in q:
        facts = inline_facts(atr, n)
        ok = has_fact(facts, "num_needed[M_d]", False, {"M_d": b["M_d"]}) is not None
        loops = [l for l in enclosing_loops(n) if isinstance(l, ast.For) and same(l.target, b["M_d"])]
        ok2 = bool(loops) and Pat("dependents.get(item, *M_rest)").match(loops[0].iter) is not None or (bool(loops) and Pat("dependents[item]").match(loops[0].iter) is not None)
        decs = [a for a in walk_no_nested(atr) if isinstance(a, ast.AugAssign) and Pat("num_needed[M_d]").match(a.target, {"M_d": b["M_d"]}) is not None and isinstance(a.op, ast.Sub) and const(a.value) == 1]
        ok3 = len(decs) == 1 and dominates(atr, decs[0], n)
        ctx.ob("DOM.runnable", n, f"{unparse(n)} only when num_needed[{unparse(b['M_d'])}] reached 0, for dependents of the placed item", ok and ok2 and ok3, "" if ok and ok2 and ok3 else f"zero-guard={ok} over-dependents={ok2} single-decrement={ok3}")
    main_calls = [c for c in calls(order, "add_to_result", nested=False)]
    for c in main_calls:
        facts = inline_facts(order, c)
        ok = has_fact(facts, "num_needed[M_i]", False, {"M_i": c.args[0]}) is not None
        ctx.ob("DOM.emit-critical-path", c, "add_to_result(item) only when num_needed[item] == 0", ok, "" if ok else "guards: " + "; ".join(fact_strs(facts)))
    ctx.count("main_emit_sites", len(main_calls))
    ctx.floor("main_emit_sites", 1)
    # ---------------- the reverse mapping used to find external keys is derived from the graph that is ordered
    dp = find("dependencies = DependenciesMapping(dsk)", order)
    dd = find("dependents = reverse_dict(dependencies)", order)
    ok = len(dp) == 1 and len(dd) == 1 and dominates(order, dp[0][0], dd[0][0]) and [d_[2] for d_ in reaching_of(order).reaching(dd[0][0], "dependencies")] == [dp[0][0]]
    ctx.ob("OWN.dependents-from-graph", order, "dependents = reverse_dict(DependenciesMapping(dsk)) -- computed from this graph, including references to keys outside it", ok, "" if ok else "the reverse mapping comes from the caller's `dependencies` argument, which only lists in-graph keys: references to outside keys are no longer detected and ordering an acyclic graph raises")
    # ---------------- data nodes detached from the graph still get a priority: whoever is removed hands its pending ones on
    norm = [w for w in walk_no_nested(order) if isinstance(w, ast.While) and eqv(w.test, "not all_tasks")]
    dels = [d for d in ast.walk(norm[0]) if isinstance(d, ast.Delete) and unparse(d.targets[0]).startswith("dsk[")] if norm else []
    ctx.count("graph_removals", len(dels))
    ctx.floor("graph_removals", 2, "del dsk[leaf] / del dsk[root] in the normalisation loop")
    for d in dels:
        x = unparse(d.targets[0].slice)
        sibs = [s for s in ast.walk(norm[0]) if isinstance(s, ast.stmt)]
        registered = bool(find(f"requires_data_task[M_d].add({x})", norm[0]))
        placed = any(unparse(s.targets[0]) == f"result[{x}]" for s in sibs if isinstance(s, ast.Assign))
        if registered:
            ctx.ob("PAIR.detached-data.registered", d, f"{unparse(d)}: {x} is registered with every dependent (requires_data_task[dep].add({x})) and placed with the first of them", True)
        elif placed:
            fw = find(f"requires_data_task[M_h] |= requires_data_task.pop({x})", norm[0])
            guard = getattr(fw[0][0], "_parent", None) if fw else None
            guarded = isinstance(guard, ast.If) and unparse(guard.test) in (f"{x} in requires_data_task", f"requires_data_task[{x}]") and not guard.orelse
            ok = len(fw) == 1 and (dominates(order, fw[0][0], d) or (guarded and dominates(order, guard, d))) and bool(find(f"M_h = next(iter(dependencies[{x}]))", norm[0])) and unparse(fw[0][1]["M_h"]) == unparse(find(f"M_h = next(iter(dependencies[{x}]))", norm[0])[0][1]["M_h"])
            ctx.ob("PAIR.detached-data.forwarded", d, f"{unparse(d)}: data nodes waiting on {x} (requires_data_task[{x}]) are handed to one of its remaining dependencies before {x} leaves the graph", ok, "" if ok else f"a data node shared by several alias leaves is detached, then the aliases are removed: it never receives a priority and order() raises IndexError on an acyclic graph")
        else:
            ctx.ob("PAIR.detached-data.registered", d, f"{unparse(d)}", False, f"{x} leaves the graph without a priority and without being registered for one")
    # ---------------- the key set against which legacy dependencies are resolved must not change under the mapping
    ins = [s for s in walk_no_nested(order) if isinstance(s, ast.Assign) and unparse(s.targets[0]).startswith("dsk[") and dp and dominates(order, dp[0][0], s)]
    dm = model.module("dask/_task_spec.py").func("DependenciesMapping.__getitem__")
    live = [c for c in calls(dm, "get_dependencies") if c.args and eqv(c.args[0], "self.dsk")]
    for s in ins:
        ctx.ob("EFFECT.keyset-stable", s, f"{unparse(s)} after DependenciesMapping(dsk) was built", not live, "" if not live else "DependenciesMapping resolves legacy tuples against the live dict (get_dependencies(self.dsk, ...)) and drops its cache on every removal: a literal equal to the inserted key turns into a dependency half-way, counts disagree and an acyclic graph is reported as cyclic")


VARIANTS = [
    (ORDER, "prio = expected_len - 1 - n_removed_leaves", "prio = len(dsk) - 1 - n_removed_leaves", "ABS.prio"),
    (ORDER, "                n_removed_leaves += 1\n", "                n_removed_leaves += 2\n", "ABS.prio.delta"),
    (ORDER, "            if item not in external_keys:\n                i += 1", "            if item not in external_keys and item not in root_nodes:\n                i += 1", "ABS.counter.unit-step"),
    (ORDER, "            if item in result:\n                continue\n\n            while requires_data_task[item]:", "            while requires_data_task[item]:", "ABS.counter.write-once"),
    (ORDER, "    for k in external_keys:\n        del result[k]\n", "", "PAIR.external-keys"),
    (ORDER, "                if not num_needed[dep]:\n                    if len(dependents[item]) == 1:", "                if num_needed[dep] <= 1:\n                    if len(dependents[item]) == 1:", "DOM.runnable"),
    (ORDER, "            if num_needed[item]:\n                path_append(item)", "            if num_needed[item] > 1:\n                path_append(item)", "DOM.emit-critical-path"),
    (ORDER, "    while len(result) < expected_len:", "    while len(result) < expected_len - 1:", "TOT.all-keys"),
]


def selftest(ctx):
    from ..variants import selftest as st

    return st(ctx, "C06", VARIANTS)
