"""C23 -- chunk normalisation and rechunking are exact (narrow, structural).

Decided:
 MPT.sum-check       normalize_chunks checks its own postcondition: every return is preceded by the test
                     "each dimension's chunks add up to the shape" (raise otherwise), except on the
                     all-integers path, where the chunks come from blockdims_from_blockshape; empty chunk
                     tuples are rejected on every path
 ABS.blockdims       blockdims_from_blockshape tiles a dimension d with block size bd as
                     (bd,)*(d // bd) + ((d % bd,) if d % bd else ()), and (0,) for an empty dimension:
                     quotient * bd + remainder == d, no zero-sized trailing chunk
 DELEG.rechunk       rechunk() normalises the request against x.shape, fills unspecified / None axes from
                     x.chunks, returns x itself only when the chunks already match, runs the planned steps
                     in order, and the plan always ends with the requested chunks; _compute_rechunk declares
                     exactly the chunks it was asked for
 TWIN.shared-line    the graph construction of _compute_rechunk shares its core with the expression engine
Not decided: the intersection arithmetic (_intersect_1d / old_to_new), auto_chunks' byte limits, values.
"""
from __future__ import annotations

import ast

from ..lib import *
from ..twin import check_loose
from ._twins import loose_for

EXPLANATION = (
    "Must-pass-through and delegation rules: normalize_chunks' own sum-to-shape check dominates its returns; "
    "blockdims_from_blockshape is the quotient/remainder tiling; rechunk normalises against the array's shape, "
    "keeps unspecified axes, executes every planned step and the plan ends with the requested chunks, which "
    "_compute_rechunk declares on its result.  The chunk-intersection arithmetic and auto-chunk byte limits are "
    "NOT decided."
)
ASSUMPTIONS = ["sum/len on tuples of ints", "plan_rechunk's intermediate steps are valid chunkings (they are validated downstream by Array construction)"]
CORE = "dask/array/core.py"
RC = "dask/array/rechunk.py"


def stage_output_name(ctx):
    """DELEG.rechunk-stage.name (C23, C30): a rechunk stage returns the name its blocks are stored under."""
    f = ctx.model.module("dask/array/_array_expr/_rechunk.py").func("_compute_rechunk")
    rs = returns(f)
    ok = len(rs) == 1 and isinstance(rs[0].value, ast.Tuple) and isinstance(rs[0].value.elts[0], ast.Name)
    if ok:
        nm = rs[0].value.elts[0].id
        keyed = find(f"key = ({nm},) + new_idx", f)
        rebinds = [a for a in ast.walk(f) if isinstance(a, ast.Assign) and any(isinstance(t, ast.Name) and t.id == nm for t in a.targets) and any(isinstance(l, (ast.For, ast.While)) for l in enclosing_loops(a))]
        ok = len(keyed) == 1 and not rebinds and bool(find("x2[key] = M_v", f))
    ctx.ob("DELEG.rechunk-stage.name", f, "_compute_rechunk (expression engine) returns the name under which it stored the new blocks (key = (name,) + new_idx), not a loop variable", ok, "" if ok else "the next stage of a multi-stage plan is wired to keys that do not exist: every multi-stage rechunk fails at compute")


def check(ctx):
    model = ctx.model
    core = model.module(CORE)
    nc = core.func("normalize_chunks")
    g = cfg_of(nc)
    # the sum check
    checks = [n for n in walk_no_nested(nc) if isinstance(n, ast.If) and "zip(map(sum, chunks), shape)" in unparse(n.test) and any(isinstance(b, ast.Raise) for b in n.body)]
    ctx.count("sum_checks", len(checks))
    ctx.floor("sum_checks", 1, "`if not all(c == s ... for c, s in zip(map(sum, chunks), shape)): raise` in normalize_chunks")
    ok = len(checks) == 1 and unparse(checks[0].test).startswith("not all((c == s or (math.isnan(c) or math.isnan(s))")
    ctx.ob("MPT.sum-check.test", checks[0] if checks else nc, "raise unless every dimension's chunks sum to the shape (nan = unknown)", ok)
    if checks:
        outer = checks[0]._parent
        ok = isinstance(outer, ast.If) and eqv(outer.test, "not allints and shape is not None")
        ctx.ob("MPT.sum-check.guard", outer if isinstance(outer, ast.If) else nc, "the check is skipped only for the all-integers path or when no shape is given", ok, "" if ok else f"guarded by `{unparse(outer.test) if isinstance(outer, ast.If) else None}`")
        tail = [r for r in returns(nc) if r.lineno > checks[0].lineno]
        early = [r for r in returns(nc) if r.lineno < checks[0].lineno]
        ok = len(tail) >= 1 and all(g.dominates(g.node_of(outer), g.node_of(r)) for r in tail) and all("chunks" not in unparse(r.value) or unparse(r.value) in ("chunks",) for r in early)
        # the early returns must not hand out unchecked tuple-of-tuples for a given shape
        ok = ok and all(any(unparse(e) in ("shape is None", "not shape") and pol or "previous_chunks" in unparse(e) for e, pol in g.facts(r)) or unparse(r.value) != "chunks" for r in early)
        ctx.ob("MPT.sum-check.dominates", nc, f"every return after the conversion ({len(tail)}) is dominated by the check", ok, "" if ok else "a return path hands out chunks that were never compared with the shape")
    ai = find("allints = all((isinstance(c, int) for c in chunks))", nc)
    conv = find("chunks = _convert_int_chunk_to_tuple(shape, chunks)", nc)
    ok = len(ai) == 1 and len(conv) == 1 and control_equivalent(nc, ai[0][0], conv[0][0])
    ctx.ob("MPT.sum-check.allints", nc, "allints is computed from the request right before it is expanded with blockdims_from_blockshape", ok)
    emp = [n for n in walk_no_nested(nc) if isinstance(n, ast.If) and eqv(n.test, "not c") and any(isinstance(b, ast.Raise) for b in n.body)]
    ok = len(emp) == 1 and all(g.dominates(g.node_of(emp[0]._parent), g.node_of(r)) for r in returns(nc) if r.lineno > emp[0].lineno)
    ctx.ob("MPT.no-empty-tuple", nc, "empty chunk tuples are rejected before any late return", ok)
    cv = core.func("_convert_int_chunk_to_tuple")
    ok = "blockdims_from_blockshape((s,), (c,))" in unparse(cv) and "if not isinstance(c, (tuple, list))" in unparse(cv) and "zip(shape, chunks)" in unparse(cv)
    ctx.ob("ABS.blockdims.use", cv, "an integer chunk c for dimension s becomes blockdims_from_blockshape((s,), (c,)); explicit tuples are kept", ok)
    bd = core.func("blockdims_from_blockshape")
    rs = returns(bd)
    want = "tuple(((bd,) * (d // bd) + ((d % bd,) if d % bd else ()) if d else (0,) for d, bd in zip(shape, chunks)))"
    ok = len(rs) == 1 and unparse(rs[0].value) == want
    ctx.ob("ABS.blockdims", bd, "(bd,) * (d // bd) + ((d % bd,) if d % bd else ()) if d else (0,): quotient copies plus the non-zero remainder", ok, "" if ok else f"returns {unparse(rs[0].value)[:120] if rs else None}")
    # ---------------- rechunk
    rc = model.module(RC)
    rf = rc.func("rechunk")
    ok = bool(find("chunks = normalize_chunks(chunks, x.shape, limit=block_size_limit, dtype=x.dtype, previous_chunks=x.chunks)", rf))
    ctx.ob("DELEG.rechunk.normalise", rf, "the request is normalised against x.shape", ok)
    ok = bool(find("chunks = tuple((lc if lc is not None else rc for lc, rc in zip(chunks, x.chunks)))", rf))
    ctx.ob("DELEG.rechunk.none-axes", rf, "None in a sequence request keeps that axis' chunks", ok)
    fills = find("chunks[i] = x.chunks[i]", rf)
    ok = len(fills) == 2 and all(any(unparse(e) in ("i in chunks", "chunks[i] is None") for e, _ in cfg_of(rf).facts(n)) for n, _ in fills) and bool(find("chunks = {validate_axis(c, x.ndim): v for c, v in chunks.items()}", rf))
    ctx.ob("DELEG.rechunk.dict-axes", rf, "axes missing from (or None in) a dict request keep x.chunks[i]; negative axes are normalised", ok)
    same = [r for r in returns(rf) if eqv(r.value, "x")]
    okx = True
    for r in same:
        facts = {(unparse(e), pol) for e, pol in cfg_of(rf).facts(r)}
        if not (("not balance and chunks == x.chunks", True) in facts or ({("balance", False), ("chunks == x.chunks", True)} <= facts) or any("all((s == 0 for s in x.shape))" in e and pol for e, pol in facts) or any(e == "method == 'tasks'" and pol for e, pol in facts)):
            okx = False
    ctx.ob("DELEG.rechunk.identity-only-when-equal", rf, "x is returned untouched only when the chunks already match (or the array is empty); otherwise after all steps", okx and bool(same))
    loop = [l for l in walk_no_nested(rf) if isinstance(l, ast.For) and eqv(l.iter, "steps")]
    ok = len(loop) == 1 and bool(find("x = _compute_rechunk(x, c)", loop[0])) and eqv(loop[0].target, "c") and bool(find("steps = plan_rechunk(x.chunks, chunks, x.dtype.itemsize, threshold, block_size_limit)", rf))
    ctx.ob("DELEG.rechunk.steps", rf, "every planned step is applied in order: for c in steps: x = _compute_rechunk(x, c)", ok)
    pr = rc.func("plan_rechunk")
    ok = any(eqv(r.value, "steps + [new_chunks]") for r in returns(pr)) and all(unparse(r.value) in ("steps + [new_chunks]", "[new_chunks]") for r in returns(pr))
    ctx.ob("DELEG.rechunk.plan-ends-with-request", pr, "plan_rechunk always ends with the requested chunks", ok, "" if ok else "a plan can end before the requested chunking is reached")
    cr = rc.func("_compute_rechunk")
    ok = any(eqv(r.value, "Array(graph, merge_name, chunks, meta=x)") for r in returns(cr)) and [a.arg for a in cr.args.args] == ["x", "chunks"]
    ctx.ob("DELEG.rechunk.declared-chunks", cr, "_compute_rechunk(x, chunks) declares exactly `chunks` on its result", ok)
    check_loose(ctx, loose_for("C23"))
    # ---------------- auto_chunks with previous chunks: the growth factor and its tolerance are both split
    # evenly over the auto dimensions (same root)
    ac = core.func("auto_chunks")
    a1 = find("this_multiplier = multiplier ** (1 / len(last_autos))", ac)
    a2 = find("this_chunksize_tolerance = chunksize_tolerance ** (1 / len(last_autos))", ac)
    ok = len(a1) == 1 and len(a2) == 1 and bool(find("max_chunk_size = proposed * this_chunksize_tolerance", ac)) and bool(find("proposed = median_chunks[a] * this_multiplier", ac))
    ctx.ob("SIB.auto-chunks.per-dimension-root", ac, "per dimension: multiplier ** (1/n) and chunksize_tolerance ** (1/n) with n = number of auto dimensions", ok, "" if ok else "the tolerance is applied in full to every auto dimension: with n auto dimensions the block may exceed the byte limit by tolerance**n")
    fsr = rc.func("find_split_rechunk")
    acc = [n for n in ast.walk(fsr) if isinstance(n, ast.If) and "len(c) >= len(old_chunks[dim])" in unparse(n.test)]
    ok = len(acc) == 1 and "max(c) <= max(old_chunks[dim])" in unparse(acc[0].test)
    ctx.ob("ALG.split-plan.accept", fsr, "a split step is accepted only if it has at least as many chunks AND no wider chunk than before", ok, "" if ok else "wider intermediate chunks are accepted: the following merge pass can fail (AssertionError / ZeroDivisionError) instead of reaching the requested chunks")
    # ---------------- round_to never rounds a chunk edge UP (the byte limit is an upper bound)
    rt_ = model.module("dask/array/core.py").func("round_to") if "model" in dir() else ctx.model.module("dask/array/core.py").func("round_to")
    small = [r for r in returns(rt_) if any(eqv(e, "c <= s") and pol for e, pol in cfg_of(rt_).facts(r))]
    ok = len(small) == 1 and eqv(small[0].value, "max(1, int(c))")
    big = [r for r in returns(rt_) if r not in small]
    ok = ok and len(big) == 1 and eqv(big[0].value, "c // s * s")
    ctx.ob("ALG.round-to.floor", rt_, "round_to: max(1, int(c)) for c <= s, else c // s * s -- both truncate", ok, "" if ok else "rounding (instead of truncating) the ideal edge can push a chunk over the byte limit although a smaller chunk fits")
    # ---------------- the planner's bookkeeping of the largest block follows the chunks it actually adopted
    fmr = rc.func("find_merge_rechunk")
    adopt = find("chunks[dim] = c", fmr)
    upd = find("largest_block_size = largest_block_size * max(c) // largest_width", fmr)
    ok = len(adopt) == 1 and len(upd) == 1 and control_equivalent(fmr, adopt[0][0], upd[0][0])
    ctx.ob("PAIR.merge-plan.bookkeeping", fmr, "largest_block_size is updated exactly when the partial merge is adopted (chunks[dim] = c)", ok, "" if ok else "the size estimate moves without the chunks: later merges are rejected/accepted against a wrong size and the planner's own consistency assertion fails for valid targets")
    stage_output_name(ctx)


VARIANTS = [
    (CORE, "    if not allints and shape is not None:\n        if not all(", "    if not allints and shape is not None and limit is None:\n        if not all(", "MPT.sum-check.guard"),
    (CORE, "        ((bd,) * (d // bd) + ((d % bd,) if d % bd else ()) if d else (0,))", "        ((bd,) * (d // bd) + ((d % bd,)) if d else (0,))", "ABS.blockdims"),
    (RC, "    return steps + [new_chunks]", "    return steps", "DELEG.rechunk.plan-ends-with-request"),
    (RC, "            if i not in chunks:\n                chunks[i] = x.chunks[i]", "            if i not in chunks:\n                chunks[i] = x.shape[i]", "DELEG.rechunk.dict-axes"),
    (RC, "        for c in steps:\n            x = _compute_rechunk(x, c)", "        for c in steps[:-1]:\n            x = _compute_rechunk(x, c)", "DELEG.rechunk.steps"),
]


def selftest(ctx):
    from ..variants import selftest as st

    return st(ctx, "C23", VARIANTS)
