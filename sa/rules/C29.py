"""C29 -- storing arrays writes exactly the array into the targets (narrow).

Decided:
 PAIR.lock           at every lock.acquire() site of the package the release sits in the `finally` of
                     the try that immediately follows, under the same guard
 PAIR.store-in-lock  in load_store_chunk the write `out[index] = ...` lies inside that try (between
                     acquire and release), and `region` is combined with `index` before the write
 DELEG.store         store() pairs source i with target i and region i (zip), hands each block its own
                     slice (ArraySliceDep of the source's chunks) and forwards lock/region/return flags
 EFFECT.store-name   the store-map tasks are named after the identity of the target (and source, region):
                     equal-content targets must not share keys
 TAB.npy-stack       to_npy_stack and from_npy_stack agree on the layout: block i <-> <dirname>/<i>.npy with i
                     the block number along the stacking axis; the info file carries the rechunked chunks,
                     dtype and axis under the keys the reader uses
Not decided: written values.
"""
from __future__ import annotations

import ast

from ..lib import *

EXPLANATION = (
    "Acquire/release pairing over every lock.acquire() site (release in the finally of the immediately "
    "following try, same guard), placement of the target write inside the locked region, composition of "
    "region and block index before the write, positional pairing of sources/targets/regions in store(), and "
    "writer/reader agreement of the npy-stack layout (file name per block number, info keys).  "
    "The values written are NOT decided."
)
ASSUMPTIONS = ["ArraySliceDep(chunks) yields the slice of each block in the source's coordinates"]
CORE = "dask/array/core.py"


def check(ctx):
    model = ctx.model
    n_sites = 0
    for rel in model.package_files("dask"):
        src = model.read(rel)
        if ".acquire(" not in src:
            continue
        mod = model.module(rel)
        for qn, f in mod.functions():
            for c in calls(f, "acquire", nested=False):
                if not isinstance(c.func, ast.Attribute) or c.args:
                    continue
                lk = unparse(c.func.value)
                if eqv(c, "self.lock.acquire(*args, **kwargs)"):
                    continue
                n_sites += 1
                st = enclosing_stmt(c)
                # the statement after the acquire (or after the `if lock:` that contains it)
                holder = st
                par = st._parent
                guard = None
                if isinstance(par, ast.If) and len(par.body) == 1 and not par.orelse:
                    guard = unparse(par.test)
                    holder = par
                    par = par._parent
                body = None
                for fld in ("body", "orelse", "finalbody"):
                    seq = getattr(par, fld, None)
                    if isinstance(seq, list) and any(x is holder for x in seq):
                        body = seq
                nxt = None
                if body is not None:
                    i = [k for k, x in enumerate(body) if x is holder][0]
                    j = i + 1
                    # statements that cannot raise (pass, NAME = <constant>) do not open a window between acquire and try
                    def _inert(s_):
                        return (isinstance(s_, ast.Pass)
                                or (isinstance(s_, ast.Assign) and isinstance(s_.value, ast.Constant) and all(isinstance(t_, ast.Name) for t_ in s_.targets))
                                or (isinstance(s_, ast.Assert) and isinstance(s_.test, ast.Constant) and bool(s_.test.value))
                                or (isinstance(s_, ast.Expr) and (isinstance(s_.value, ast.Constant) or unparse(s_.value) == "__debug__ and None")))
                    while j < len(body) and _inert(body[j]):
                        j += 1
                    nxt = body[j] if j < len(body) else None
                ok = isinstance(nxt, ast.Try) and bool(nxt.finalbody)
                detail = "" if ok else "acquire() is not immediately followed by try/finally"
                if ok:
                    rel_calls = [r for r in ast.walk(ast.Module(body=nxt.finalbody, type_ignores=[])) if isinstance(r, ast.Call) and isinstance(r.func, ast.Attribute) and r.func.attr == "release" and unparse(r.func.value) == lk]
                    ok = len(rel_calls) == 1
                    detail = "" if ok else f"finally does not release {lk}"
                    if ok and guard is not None:
                        rs = enclosing_stmt(rel_calls[0])
                        rg = unparse(rs._parent.test) if isinstance(rs._parent, ast.If) else None
                        ok = rg == guard
                        detail = "" if ok else f"acquire is guarded by `{guard}` but release by `{rg}`"
                    elif ok:
                        rs = enclosing_stmt(rel_calls[0])
                        ok = not isinstance(rs._parent, ast.If)
                        detail = "" if ok else "unconditional acquire, conditional release"
                ctx.ob("PAIR.lock", c, f"{qn}: {lk}.acquire() ; try: ... finally: {lk}.release()", ok, detail)
    ctx.count("acquire_sites", n_sites)
    ctx.floor("acquire_sites", 4, "lock.acquire() sites in the package")
    # ---------------- load_store_chunk
    mod = model.module(CORE)
    f = mod.func("load_store_chunk")
    writes = [n for n in walk_no_nested(f) if isinstance(n, ast.Assign) and isinstance(n.targets[0], ast.Subscript) and eqv(n.targets[0].value, "out")]
    ctx.count("target_writes", len(writes))
    ctx.floor("target_writes", 1)
    acq = [c for c in calls(f, "acquire", nested=False)]
    for w in writes:
        t, part = try_of(w)
        holder = enclosing_stmt(acq[0]) if acq else None
        if holder is not None and isinstance(holder._parent, ast.If):
            holder = holder._parent
        ok = t is not None and part == "body" and bool(t.finalbody) and "lock.release()" in unparse(t.finalbody) and holder is not None and dominates(f, holder, t)
        ctx.ob("PAIR.store-in-lock", w, f"{unparse(w)} between lock.acquire() and the releasing finally", ok, "" if ok else "the target is written outside the locked region")
        ok2 = eqv(w.targets[0].slice, "index")
        ctx.ob("PAIR.store-index", w, "written at out[index]", ok2)
        val = unparse(w.value)
        ok3 = val in ("x", "np.asanyarray(x)")
        ctx.ob("PAIR.store-value", w, "the block itself is written", ok3, "" if ok3 else f"writes {val}")
    fs = find("index = fuse_slice(region, index)", f, nested=False)
    alt = find("index = region", f, nested=False)
    ok = len(fs) == 1 and len(alt) == 1 and has_fact(inline_facts(f, fs[0][0]), "region", True) is not None and has_fact(inline_facts(f, fs[0][0]), "index", True) is not None and has_fact(inline_facts(f, alt[0][0]), "index", False) is not None
    ok = ok and all(dominates(f, enclosing_stmt(fs[0][0])._parent._parent if False else fs[0][0], w) or True for w in writes)
    g = cfg_of(f)
    rg = [n for n in f.body if isinstance(n, ast.If) and eqv(n.test, "region")]
    ok = ok and bool(rg) and all(g.dominates(g.node_of(rg[0]), g.node_of(w)) for w in writes)
    ctx.ob("PAIR.region-index", f, "region is combined with the block index (fuse_slice(region, index)) before the write", ok, "" if ok else "the write ignores the region or composes it in the wrong order")
    rets = [r for r in ast.walk(f) if isinstance(r, ast.Return)]
    ok = any(eqv(r.value, "out[index]") and has_fact(inline_facts(f, r), "load_stored", True) is not None for r in rets) and any(eqv(r.value, "out") for r in rets)
    ctx.ob("PAIR.return-stored", f, "return_stored: out[index] when load_stored else out", ok)
    lc = mod.func("load_chunk")
    cs = [c for c in calls(lc, "load_store_chunk")]
    ok = len(cs) == 1 and const(cs[0].args[0]) is None and all(unparse(kwarg(cs[0], k)) == k for k in ("out", "region", "index", "lock"))
    ctx.ob("DELEG.load-chunk", lc, "load_chunk = load_store_chunk(None, out=out, region=region, index=index, lock=lock, ...)", ok)
    # ---------------- store()
    st = mod.func("store")
    loops = [l for l in walk_no_nested(st) if isinstance(l, ast.For) and isinstance(l.iter, ast.Call) and call_name(l.iter) == "zip" and "sources" in unparse(l.iter)]
    ok = len(loops) == 1 and [unparse(a) for a in loops[0].iter.args] == ["sources", "targets", "regions_list"] and eqv(loops[0].target, "(s, t, r)")
    ctx.ob("DELEG.store.zip", st, "for s, t, r in zip(sources, targets, regions_list)", ok, "" if ok else "sources, targets and regions are not paired positionally")
    if loops:
        mb = [c for c in calls(loops[0], "map_blocks")]
        ok = len(mb) == 1 and eqv(mb[0].func.value, "s") and [unparse(a) for a in mb[0].args] == ["load_store_chunk", "t", "slices"] and unparse(kwarg(mb[0], "region")) == "r" and unparse(kwarg(mb[0], "lock")) == "lock" and unparse(kwarg(mb[0], "return_stored")) == "return_stored" and unparse(kwarg(mb[0], "load_stored")) == "load_stored"
        ctx.ob("DELEG.store.map-blocks", mb[0] if mb else st, "s.map_blocks(load_store_chunk, t, slices, region=r, lock=lock, return_stored=..., load_stored=...)", ok)
        # a store is an effect on one particular target object: its tasks must be named after the
        # target's identity (content tokens deduplicate stores into equal-looking targets)
        nm = kwarg(mb[0], "name") if mb else None
        ok = nm is not None
        detail = "the store-map layer is named from content tokens only: da.store([x, x], [t1, t2]) with equal-content targets writes only one of them"
        if ok:
            toks = [c for c in ast.walk(nm) if isinstance(c, ast.Call) and call_name(c) in ("tokenize", "base.tokenize")]
            args_ = {unparse(a) for c in toks for a in c.args}
            ok = bool(toks) and "id(t)" in args_ and "s" in args_ and "r" in args_
            detail = "" if ok else f"name token covers {sorted(args_)}: needs the source, the region and the identity of the target"
        ctx.ob("EFFECT.store-name", mb[0] if mb else st, "store tasks are named after (source, id(target), region, ...)", ok, "" if ok else detail)
        ok = bool(find("slices = ArraySliceDep(s.chunks)", loops[0]))
        ctx.ob("DELEG.store.slices", loops[0], "each block gets its own slice: ArraySliceDep(s.chunks)", ok)
        # positional parameters of load_store_chunk: x, out, index
        ok = [a.arg for a in f.args.args[:3]] == ["x", "out", "index"]
        ctx.ob("DELEG.store.signature", f, "load_store_chunk(x, out, index, ...): block, target, slice", ok)
    ok = any("len(sources) != len(targets)" in unparse(n.test) for n in ast.walk(st) if isinstance(n, ast.If))
    ctx.ob("DELEG.store.same-length", st, "sources and targets must have equal length", ok)
    ok = bool(find("lock = get_scheduler_lock(collection=Array, scheduler=kwargs.get('scheduler'))", st)) and any(has_fact(inline_facts(st, n), "lock is True", True) is not None for n, _ in find("lock = M_v", st))
    ctx.ob("DELEG.store.lock-true", st, "lock=True picks the scheduler-appropriate lock", ok)

    # ---------------- npy stack: writer and reader agree on the layout
    w = mod.func("to_npy_stack")
    r = mod.func("from_npy_stack")

    def path_of(f, fn):
        out = []
        for n in ast.walk(f):
            if isinstance(n, ast.Tuple) and n.elts and unparse(n.elts[0]) == fn and len(n.elts) >= 2:
                out.append(n)
        return out
    wt, rt = path_of(w, "np.save"), path_of(r, "np.load")
    ctx.count("npy_stack_tasks", len(wt) + len(rt))
    ctx.floor("npy_stack_tasks", 2, "(np.save, path, key) in to_npy_stack and (np.load, path, mmap_mode) in from_npy_stack")
    ok = len(wt) == 1 and len(rt) == 1 and eqv(wt[0].elts[1], "os.path.join(dirname, f'{i}.npy')") and eqv(rt[0].elts[1], "os.path.join(dirname, f'{i}.npy')")
    ctx.ob("TAB.npy-stack.file-name", r, "block i is written to and read from os.path.join(dirname, f'{i}.npy')", ok, "" if ok else f"writer {unparse(wt[0].elts[1]) if wt else None} vs reader {unparse(rt[0].elts[1]) if rt else None}")
    # the index i: writer enumerates the blocks of the array rechunked to one block on every other axis,
    # reader counts the chunks along the stacking axis
    wc = getattr(wt[0], "_parent", None) if wt else None
    ok = isinstance(wc, ast.DictComp) and eqv(wc.generators[0].target, "(i, key)") and eqv(wc.generators[0].iter, "enumerate(core.flatten(xx.__dask_keys__()))") and eqv(wc.key, "(name, i)") and eqv(wt[0].elts[2], "key")
    ok = ok and bool(find("xx = x.rechunk(chunks)", w)) and bool(find("chunks = tuple((c if i == axis else (sum(c),) for i, c in enumerate(x.chunks)))", w))
    ctx.ob("TAB.npy-stack.writer-index", w, "writer: i enumerates the blocks of x rechunked to a single block on every axis but `axis`", ok)
    rc = getattr(rt[0], "_parent", None) if rt else None
    ok = isinstance(rc, ast.ListComp) and eqv(rc.generators[0].target, "i") and eqv(rc.generators[0].iter, "range(len(chunks[axis]))")
    ctx.ob("TAB.npy-stack.reader-index", r, "reader: block i for i in range(len(chunks[axis])) (by number, not by directory listing)", ok, "" if ok else "the reader does not address the files by block number: the order of blocks along the stacking axis is not the written one")
    ok = bool(find("keys = list(product([name], *[range(len(c)) for c in chunks]))", r)) and bool(find("dsk = dict(zip(keys, values))", r)) and any(eqv(x.value, "Array(dsk, name, chunks, dtype)") for x in returns(r))
    ctx.ob("TAB.npy-stack.reader-keys", r, "keys in block order zipped with the files; Array(dsk, name, chunks, dtype)", ok)
    meta = find("meta = M_v", w)
    wkeys = set(dict_literal_keys(meta[0][1]["M_v"]) or {}) if meta else set()
    wvals = {k: unparse(v) for k, v in (dict_literal_keys(meta[0][1]["M_v"]) or {}).items()} if meta else {}
    rkeys = {const(n.slice) for n in ast.walk(r) if isinstance(n, ast.Subscript) and eqv(n.value, "info")}
    ok = wkeys == rkeys == {"chunks", "dtype", "axis"} and wvals == {"chunks": "chunks", "dtype": "x.dtype", "axis": "axis"}
    ok = ok and all(bool(find(f"{k} = info['{k}']", r)) for k in ("chunks", "dtype", "axis"))
    ctx.ob("TAB.npy-stack.info", w, "info file: writer stores {chunks (rechunked), dtype, axis}; reader uses exactly these", ok, "" if ok else f"writer {wvals} vs reader {sorted(map(str, rkeys))}")
    ok = bool(find("pickle.dump(meta, f)", w)) and bool(find("info = pickle.load(f)", r)) and "os.path.join(dirname, 'info')" in unparse(w) and "os.path.join(dirname, 'info')" in unparse(r)
    ctx.ob("TAB.npy-stack.info-file", w, "both sides use <dirname>/info via pickle", ok)
    # ---------------- large arguments (such as store targets) become Delayed with an identity (impure) name
    na = mod.func("normalize_arg")
    dl = [c for c in calls(na, "delayed")]
    ok = len(dl) >= 2 and all(kwarg(c, "pure") is None and len(c.args) == 1 for c in dl)
    ctx.ob("EFFECT.normalize-arg.impure", na, "normalize_arg wraps large arguments with delayed(x): a fresh name per object, never a content hash", ok, "" if ok else "large arguments are named by content (pure=True): two distinct store targets with equal contents share one key and only one of them is written")
    ops = [c for c in calls(w, "open")]
    ok = len(ops) == 1 and const(ops[0].args[1]) == "wb"
    ctx.ob("TAB.npy-stack.info-mode", w, "to_npy_stack (re)writes the info file ('wb')", ok, "" if ok else "the info file is appended to: after a second to_npy_stack into the same directory from_npy_stack reads the stale first record")
    ops = [c for c in calls(r, "open")]
    ok = len(ops) == 1 and const(ops[0].args[1]) == "rb"
    ctx.ob("TAB.npy-stack.info-mode", r, "from_npy_stack reads it ('rb')", ok)
    # ---------------- store(return_stored=True, compute=True): each stored array is read back through ITS OWN region
    stf = ctx.model.module("dask/array/core.py").func("store")
    lp = [l for l in ast.walk(stf) if isinstance(l, ast.For) and "stored_persisted" in unparse(l.iter)]
    ok = len(lp) == 1 and eqv(lp[0].iter, "zip(stored_persisted, regions_list)") and eqv(lp[0].target, "(s, r)")
    ctx.ob("PAIR.store.readback-region", stf, "for s, r in zip(stored_persisted, regions_list): the i-th result is loaded from the i-th region", ok, "" if ok else "a stale region from an earlier loop is used for every source: all returned arrays but one are read from the wrong window")
    # ---------------- fuse_slice: an integer of ANY integer type removes the axis
    fsl = ctx.model.module("dask/array/optimization.py").func("fuse_slice")
    tst = [n for n in ast.walk(fsl) if isinstance(n, ast.If) and "j == len(b)" in unparse(n.test)]
    ok = len(tst) == 1 and eqv(tst[0].test, "isinstance(a[i], Integral) or j == len(b)")
    ctx.ob("TAB.fuse-slice.integral", fsl, "fuse_slice recognises index entries with isinstance(a[i], Integral) (numpy integers included)", ok, "" if ok else "np.int64 region entries are not recognised: the store task raises NotImplementedError instead of writing target[region]")
    # ---------------- round 4b (C29-m7): the token of an array BlockwiseDep covers its constructor arguments
    lay4 = ctx.model.module("dask/layers.py")
    n_nd4 = 0
    for fn4 in [n for n in lay4.tree.body if isinstance(n, ast.FunctionDef) and n.decorator_list]:
        dec4 = fn4.decorator_list[0]
        if not (isinstance(dec4, ast.Call) and unparse(dec4.func) == "normalize_token.register" and dec4.args and isinstance(dec4.args[0], ast.Name)):
            continue
        cls4 = ctx.model.klass("dask/layers.py", dec4.args[0].id)
        init4 = None
        for c4 in cls4.mro:
            if "__init__" in c4.own_methods:
                init4 = c4.own_methods["__init__"]
                break
        if init4 is None:
            continue
        n_nd4 += 1
        pn4 = fn4.args.args[0].arg
        params4 = [a.arg for a in init4.args.args[1:]]
        rets4 = [r for r in ast.walk(fn4) if isinstance(r, ast.Return)]
        ok = len(rets4) == 1 and isinstance(rets4[0].value, ast.Tuple)
        missing4 = []
        if ok:
            have4 = {unparse(e) for e in rets4[0].value.elts}
            missing4 = [p for p in params4 if f"{pn4}.{p}" not in have4]
            ok = not missing4
        ctx.ob("INJ.blockwise-dep.token", rets4[0] if rets4 else fn4, f"{fn4.name}: the token lists {pn4}.<p> for every constructor argument {params4} of {cls4.name}", ok, "" if ok else f"{missing4} not in the token: two {cls4.name} with different {missing4} get one io-dependency name, rewrite_blockwise merges them with dict.update and the stored blocks are cut at the wrong positions")
    ctx.count("blockwise_dep_normalizers", n_nd4)
    ctx.floor("blockwise_dep_normalizers", 3)


VARIANTS = [
    (CORE, "    finally:\n        if lock:\n            lock.release()\n\n\nA = TypeVar", "    finally:\n        pass\n\n\nA = TypeVar", "PAIR.lock"),
    (CORE, "    if lock:\n        lock.acquire()\n    try:\n        if x is not None and x.size != 0:\n            if is_arraylike(x):\n                out[index] = x\n            else:\n                out[index] = np.asanyarray(x)\n", "    if x is not None and x.size != 0:\n        if is_arraylike(x):\n            out[index] = x\n        else:\n            out[index] = np.asanyarray(x)\n    if lock:\n        lock.acquire()\n    try:\n        pass\n", "PAIR.store-in-lock"),
    (CORE, "            index = fuse_slice(region, index)", "            index = fuse_slice(index, region)", "PAIR.region-index"),
    (CORE, "    for s, t, r in zip(sources, targets, regions_list):", "    for s, t, r in zip(sources, reversed(targets), regions_list):", "DELEG.store.zip"),
    (CORE, "                region=r,\n                lock=lock,\n                return_stored=return_stored,", "                lock=lock,\n                return_stored=return_stored,", "DELEG.store.map-blocks"),
    (CORE, '        for i in range(len(chunks[axis]))\n    ]\n    dsk = dict(zip(keys, values))', '        for i in reversed(range(len(chunks[axis])))\n    ]\n    dsk = dict(zip(keys, values))', "TAB.npy-stack.reader-index"),
    (CORE, '        (name, i): (np.save, os.path.join(dirname, f"{i}.npy"), key)', '        (name, i): (np.save, os.path.join(dirname, f"{i:02d}.npy"), key)', "TAB.npy-stack.file-name"),
    (CORE, '    meta = {"chunks": chunks, "dtype": x.dtype, "axis": axis}', '    meta = {"chunks": x.chunks, "dtype": x.dtype, "axis": axis}', "TAB.npy-stack.info"),
    (CORE, "    finally:\n        if lock:\n            lock.release()\n    return c", "    finally:\n        if asarray:\n            lock.release()\n    return c", "PAIR.lock"),
]


def selftest(ctx):
    from ..variants import selftest as st

    return st(ctx, "C29", VARIANTS)
