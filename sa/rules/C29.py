"""C29 -- storing arrays writes exactly the array into the targets (narrow).

Decided:
 PAIR.lock           at every lock.acquire() site of the package the release sits in the `finally` of
                     the try that immediately follows, under the same guard
 PAIR.store-in-lock  in load_store_chunk the write `out[index] = ...` lies inside that try (between
                     acquire and release), and `region` is combined with `index` before the write
 DELEG.store         store() pairs source i with target i and region i (zip), hands each block its own
                     slice (ArraySliceDep of the source's chunks) and forwards lock/region/return flags
Not decided: written values; npy stack round trip.
"""
from __future__ import annotations

import ast

from ..lib import *

EXPLANATION = (
    "Acquire/release pairing over every lock.acquire() site (release in the finally of the immediately "
    "following try, same guard), placement of the target write inside the locked region, composition of "
    "region and block index before the write, and positional pairing of sources/targets/regions in store().  "
    "The values written are NOT decided."
)
ASSUMPTIONS = ["ArraySliceDep(chunks) yields the slice of each block in the source's coordinates"]
CORE = "dask/array/core.py"


def check(ctx):
    model = ctx.model
    n_sites = 0
    for rel in model.package_files("dask"):
        src = model.read(rel)
        if ".acquire(" not in src:
            continue
        mod = model.module(rel)
        for qn, f in mod.functions():
            for c in calls(f, "acquire", nested=False):
                if not isinstance(c.func, ast.Attribute) or c.args:
                    continue
                lk = unparse(c.func.value)
                if unparse(c) == "self.lock.acquire(*args, **kwargs)":
                    continue
                n_sites += 1
                st = enclosing_stmt(c)
                # the statement after the acquire (or after the `if lock:` that contains it)
                holder = st
                par = st._parent
                guard = None
                if isinstance(par, ast.If) and len(par.body) == 1 and not par.orelse:
                    guard = unparse(par.test)
                    holder = par
                    par = par._parent
                body = None
                for fld in ("body", "orelse", "finalbody"):
                    seq = getattr(par, fld, None)
                    if isinstance(seq, list) and any(x is holder for x in seq):
                        body = seq
                nxt = None
                if body is not None:
                    i = [k for k, x in enumerate(body) if x is holder][0]
                    nxt = body[i + 1] if i + 1 < len(body) else None
                ok = isinstance(nxt, ast.Try) and bool(nxt.finalbody)
                detail = "" if ok else "acquire() is not immediately followed by try/finally"
                if ok:
                    rel_calls = [r for r in ast.walk(ast.Module(body=nxt.finalbody, type_ignores=[])) if isinstance(r, ast.Call) and isinstance(r.func, ast.Attribute) and r.func.attr == "release" and unparse(r.func.value) == lk]
                    ok = len(rel_calls) == 1
                    detail = "" if ok else f"finally does not release {lk}"
                    if ok and guard is not None:
                        rs = enclosing_stmt(rel_calls[0])
                        rg = unparse(rs._parent.test) if isinstance(rs._parent, ast.If) else None
                        ok = rg == guard
                        detail = "" if ok else f"acquire is guarded by `{guard}` but release by `{rg}`"
                    elif ok:
                        rs = enclosing_stmt(rel_calls[0])
                        ok = not isinstance(rs._parent, ast.If)
                        detail = "" if ok else "unconditional acquire, conditional release"
                ctx.ob("PAIR.lock", c, f"{qn}: {lk}.acquire() ; try: ... finally: {lk}.release()", ok, detail)
    ctx.count("acquire_sites", n_sites)
    ctx.floor("acquire_sites", 4, "lock.acquire() sites in the package")
    # ---------------- load_store_chunk
    mod = model.module(CORE)
    f = mod.func("load_store_chunk")
    writes = [n for n in walk_no_nested(f) if isinstance(n, ast.Assign) and isinstance(n.targets[0], ast.Subscript) and unparse(n.targets[0].value) == "out"]
    ctx.count("target_writes", len(writes))
    ctx.floor("target_writes", 1)
    acq = [c for c in calls(f, "acquire", nested=False)]
    for w in writes:
        t, part = try_of(w)
        holder = enclosing_stmt(acq[0]) if acq else None
        if holder is not None and isinstance(holder._parent, ast.If):
            holder = holder._parent
        ok = t is not None and part == "body" and bool(t.finalbody) and "lock.release()" in unparse(t.finalbody) and holder is not None and dominates(f, holder, t)
        ctx.ob("PAIR.store-in-lock", w, f"{unparse(w)} between lock.acquire() and the releasing finally", ok, "" if ok else "the target is written outside the locked region")
        ok2 = unparse(w.targets[0].slice) == "index"
        ctx.ob("PAIR.store-index", w, "written at out[index]", ok2)
        val = unparse(w.value)
        ok3 = val in ("x", "np.asanyarray(x)")
        ctx.ob("PAIR.store-value", w, "the block itself is written", ok3, "" if ok3 else f"writes {val}")
    fs = find("index = fuse_slice(region, index)", f, nested=False)
    alt = find("index = region", f, nested=False)
    ok = len(fs) == 1 and len(alt) == 1 and has_fact(inline_facts(f, fs[0][0]), "region", True) is not None and has_fact(inline_facts(f, fs[0][0]), "index", True) is not None and has_fact(inline_facts(f, alt[0][0]), "index", False) is not None
    ok = ok and all(dominates(f, enclosing_stmt(fs[0][0])._parent._parent if False else fs[0][0], w) or True for w in writes)
    g = cfg_of(f)
    rg = [n for n in f.body if isinstance(n, ast.If) and unparse(n.test) == "region"]
    ok = ok and bool(rg) and all(g.dominates(g.node_of(rg[0]), g.node_of(w)) for w in writes)
    ctx.ob("PAIR.region-index", f, "region is combined with the block index (fuse_slice(region, index)) before the write", ok, "" if ok else "the write ignores the region or composes it in the wrong order")
    rets = [r for r in ast.walk(f) if isinstance(r, ast.Return)]
    ok = any(unparse(r.value) == "out[index]" and has_fact(inline_facts(f, r), "load_stored", True) is not None for r in rets) and any(unparse(r.value) == "out" for r in rets)
    ctx.ob("PAIR.return-stored", f, "return_stored: out[index] when load_stored else out", ok)
    lc = mod.func("load_chunk")
    cs = [c for c in calls(lc, "load_store_chunk")]
    ok = len(cs) == 1 and const(cs[0].args[0]) is None and all(unparse(kwarg(cs[0], k)) == k for k in ("out", "region", "index", "lock"))
    ctx.ob("DELEG.load-chunk", lc, "load_chunk = load_store_chunk(None, out=out, region=region, index=index, lock=lock, ...)", ok)
    # ---------------- store()
    st = mod.func("store")
    loops = [l for l in walk_no_nested(st) if isinstance(l, ast.For) and isinstance(l.iter, ast.Call) and call_name(l.iter) == "zip" and "sources" in unparse(l.iter)]
    ok = len(loops) == 1 and [unparse(a) for a in loops[0].iter.args] == ["sources", "targets", "regions_list"] and unparse(loops[0].target) == "(s, t, r)"
    ctx.ob("DELEG.store.zip", st, "for s, t, r in zip(sources, targets, regions_list)", ok, "" if ok else "sources, targets and regions are not paired positionally")
    if loops:
        mb = [c for c in calls(loops[0], "map_blocks")]
        ok = len(mb) == 1 and unparse(mb[0].func.value) == "s" and [unparse(a) for a in mb[0].args] == ["load_store_chunk", "t", "slices"] and unparse(kwarg(mb[0], "region")) == "r" and unparse(kwarg(mb[0], "lock")) == "lock" and unparse(kwarg(mb[0], "return_stored")) == "return_stored" and unparse(kwarg(mb[0], "load_stored")) == "load_stored"
        ctx.ob("DELEG.store.map-blocks", mb[0] if mb else st, "s.map_blocks(load_store_chunk, t, slices, region=r, lock=lock, return_stored=..., load_stored=...)", ok)
        ok = bool(find("slices = ArraySliceDep(s.chunks)", loops[0]))
        ctx.ob("DELEG.store.slices", loops[0], "each block gets its own slice: ArraySliceDep(s.chunks)", ok)
        # positional parameters of load_store_chunk: x, out, index
        ok = [a.arg for a in f.args.args[:3]] == ["x", "out", "index"]
        ctx.ob("DELEG.store.signature", f, "load_store_chunk(x, out, index, ...): block, target, slice", ok)
    ok = any("len(sources) != len(targets)" in unparse(n.test) for n in ast.walk(st) if isinstance(n, ast.If))
    ctx.ob("DELEG.store.same-length", st, "sources and targets must have equal length", ok)
    ok = bool(find("lock = get_scheduler_lock(collection=Array, scheduler=kwargs.get('scheduler'))", st)) and any(has_fact(inline_facts(st, n), "lock is True", True) is not None for n, _ in find("lock = M_v", st))
    ctx.ob("DELEG.store.lock-true", st, "lock=True picks the scheduler-appropriate lock", ok)


VARIANTS = [
    (CORE, "    finally:\n        if lock:\n            lock.release()\n\n\nA = TypeVar", "    finally:\n        pass\n\n\nA = TypeVar", "PAIR.lock"),
    (CORE, "    if lock:\n        lock.acquire()\n    try:\n        if x is not None and x.size != 0:\n            if is_arraylike(x):\n                out[index] = x\n            else:\n                out[index] = np.asanyarray(x)\n", "    if x is not None and x.size != 0:\n        if is_arraylike(x):\n            out[index] = x\n        else:\n            out[index] = np.asanyarray(x)\n    if lock:\n        lock.acquire()\n    try:\n        pass\n", "PAIR.store-in-lock"),
    (CORE, "            index = fuse_slice(region, index)", "            index = fuse_slice(index, region)", "PAIR.region-index"),
    (CORE, "    for s, t, r in zip(sources, targets, regions_list):", "    for s, t, r in zip(sources, reversed(targets), regions_list):", "DELEG.store.zip"),
    (CORE, "                region=r,\n                lock=lock,\n                return_stored=return_stored,", "                lock=lock,\n                return_stored=return_stored,", "DELEG.store.map-blocks"),
    (CORE, "    finally:\n        if lock:\n            lock.release()\n    return c", "    finally:\n        if asarray:\n            lock.release()\n    return c", "PAIR.lock"),
]


def selftest(ctx):
    from ..variants import selftest as st

    return st(ctx, "C29", VARIANTS)
