"""C46 -- window, cumulative and shift operations are seamless across partitions (narrow).

Decided:
 ALG.scan-monoid    every CumulativeAggregations subclass declares (chunk_operation,
                    aggregate_operation, neutral_element) from one monoid: (cumsum, +, 0),
                    (cumprod, *, 1), (cummax, max, -inf), (cummin, min, +inf); the aggregate helpers in
                    dataframe/methods.py use the matching operator
 ALG.scan-carry     CumulativeFinalize merges partition i with the running total of partitions 0..i-1
 NAME.rolling       Rolling<X> classes declare how = "<x>"; the expression API builds the class of the
                    same name
 ARGPOS             expression-constructor sites in _rolling.py and _cumulative.py
Not decided: correctness at the seams of rolling windows.
"""
from __future__ import annotations

import ast

from ..consteval import NotConstant, fold
from ..lib import *
from ..srcmodel import snake
from . import _tables as T

EXPLANATION = (
    "Monoid tables of the cumulative DataFrame operations (per-partition scan, merge operator of the carried "
    "prefix, identity element; and the operator actually used by the merge helpers), the carry structure of "
    "CumulativeFinalize, naming of the Rolling classes against the pandas rolling method they call, and "
    "argument-slot agreement at constructor sites in _rolling.py/_cumulative.py.  Seam correctness of rolling "
    "windows is NOT decided."
)
ASSUMPTIONS = ["cumulative_wrapper applies aggregator(partition_i_scan, running_total)"]
CUM = "dask/dataframe/dask_expr/_cumulative.py"
ROL = "dask/dataframe/dask_expr/_rolling.py"
METH = "dask/dataframe/methods.py"
EX = "dask/dataframe/dask_expr/_expr.py"
WANT = {
    "cumsum": ("cumsum_aggregate", 0, "+"),
    "cumprod": ("cumprod_aggregate", 1, "*"),
    "cummax": ("cummax_aggregate", float("-inf"), ">"),
    "cummin": ("cummin_aggregate", float("inf"), "<"),
}


def _operator_used(f):
    """The arithmetic / comparison operator combining x and y in an aggregate helper."""
    for n in ast.walk(f):
        if isinstance(n, ast.BinOp) and {unparse(n.left), unparse(n.right)} == {"x", "y"}:
            return {ast.Add: "+", ast.Mult: "*", ast.Sub: "-"}.get(type(n.op))
    for n in ast.walk(f):
        if isinstance(n, ast.Compare) and eqv(n.left, "x") and eqv(n.comparators[0], "y"):
            return {ast.Lt: "<", ast.Gt: ">", ast.LtE: "<=", ast.GtE: ">="}.get(type(n.ops[0]))
    return None


def check(ctx):
    model = ctx.model
    em = T.exprmodel(ctx)
    base = model.klass(CUM, "CumulativeAggregations")
    meth = model.module(METH)
    n = 0
    for ci in em.classes:
        if base not in ci.mro or ci is base:
            continue
        ch = T.op_name(ci.own.get("chunk_operation"))
        agn = ci.own.get("aggregate_operation")
        ag = None
        if isinstance(agn, ast.Call) and call_name(agn) == "staticmethod" and agn.args:
            ag = (dotted(agn.args[0]) or "").split(".")[-1]
        try:
            ne = fold(ci.own.get("neutral_element"), {"math": None}) if ci.own.get("neutral_element") is not None else None
        except Exception:
            u = unparse(ci.own.get("neutral_element"))
            ne = {"math.inf": float("inf"), "-math.inf": float("-inf")}.get(u, u)
        if ch not in WANT:
            ctx.ob("ALG.scan-monoid", ci.node, f"{ci.name}: chunk_operation {ch}", None, "unknown scan")
            continue
        n += 1
        wag, wne, wop = WANT[ch]
        ok = ag == wag and ne == wne
        ctx.ob("ALG.scan-monoid", ci.node, f"{ci.name}: ({ch}, {wag}, {wne})", ok, "" if ok else f"declares ({ch}, {ag}, {ne}): partitions are merged with the wrong operator or identity")
        okn = snake(ci.name).replace("_", "") == ch
        ctx.ob("NAME.cumulative", ci.node, f"{ci.name} scans with {ch}", okn)
        if meth.has(wag):
            op = _operator_used(meth.func(wag))
            ctx.ob("ALG.scan-monoid.helper", meth.func(wag), f"{wag} combines x and y with `{wop}`", op == wop, f"uses `{op}`")
    ctx.count("cumulative_classes", n)
    ctx.floor("cumulative_classes", 4)
    lw = base.own_methods.get("_lower")
    ok = lw is not None and bool(find("chunks = CumulativeBlockwise(self.frame, self.axis, self.skipna, self.chunk_operation)", lw)) and bool(find("chunks_last = TakeLast(chunks, self.skipna)", lw)) and (all(Pat("CumulativeFinalize(chunks, chunks_last, self.aggregate_operation, self.neutral_element)").match(r.value) is not None for r in returns(lw)) and bool(returns(lw)))
    ctx.ob("ALG.scan-carry.lower", lw or base.node, "scan per partition; take each partition's last row; finalise with (aggregate_operation, neutral_element)", ok)
    fl = model.module(CUM).func("CumulativeFinalize._layer")
    u = unparse(fl)
    ok = "dsk[self._name, 0] = (frame._name, 0)" in u and "for i in range(1, self.frame.npartitions)" in u and "(intermediate_name, i - 1)" in u and u.count("(previous_partitions._name, i - 1)") == 2 and "(previous_partitions._name, i)" not in u and "(self.frame._name, i), (intermediate_name, i)" in u
    ctx.ob("ALG.scan-carry", fl, "partition i is combined with the running total of partitions 0..i-1", ok, "" if ok else "the carried prefix skips or repeats a partition")
    expr = model.klass(EX, "Expr")
    for m_, cls in (("cumsum", "CumSum"), ("cumprod", "CumProd"), ("cummax", "CumMax"), ("cummin", "CumMin")):
        _, f = expr.method(m_)
        built = [dotted(c.func) for r in returns(f) for c in ast.walk(r.value) if isinstance(c, ast.Call) and dotted(c.func)] if f else []
        ctx.ob("NAME.api", f or expr.node, f"Expr.{m_}() builds {cls}", cls in built, f"builds {built}")
    # ---------------- rolling
    rr = model.klass(ROL, "RollingReduction")
    n_r = 0
    for ci in em.classes:
        if rr not in ci.mro or ci is rr or "how" not in ci.own:
            continue
        how = const(ci.own["how"])
        if not isinstance(how, str):
            continue
        n_r += 1
        ok = ci.name.lower() == "rolling" + how
        ctx.ob("NAME.rolling", ci.node, f"{ci.name}.how == {ci.name[7:].lower()!r}", ok, "" if ok else f"how = {how!r}: the class calls a different pandas rolling method than its name says")
    ctx.count("rolling_classes", n_r)
    ctx.floor("rolling_classes", 12)
    T.argpos(ctx, lambda p: p in (ROL, CUM), "c46", floor=5)
    from .C13 import aux_key_names

    aux_key_names(ctx)
    # ---------------- the row carried between partitions: per column the last valid value
    tl = ctx.model.klass("dask/dataframe/dask_expr/_cumulative.py", "TakeLast").own_methods.get("operation")
    if tl is None:
        raise AnchorMissing("TakeLast.operation")
    ff = find("a = a.ffill()", tl)
    ok = len(ff) == 1 and any(eqv(e, "skipna") and pol for e, pol in cfg_of(tl).facts(ff[0][0])) and any(eqv(r.value, "a.tail(n=1).squeeze()") for r in returns(tl))
    ctx.ob("ALG.scan-carry.last-valid", tl, "skipna: a = a.ffill() then the last row -- per column the last non-missing value", ok, "" if ok else "the carried row is not forward-filled per column: a column that is NaN in the last row loses its running total in every later partition")
    # ---------------- centered rolling windows: rows taken from the previous / next partition
    rr = ctx.model.klass("dask/dataframe/dask_expr/_rolling.py", "RollingReduction").own_methods["_lower"]
    b_ = find("before = self.window // 2", rr)
    a_ = find("after = self.window - before - 1", rr)
    ok = len(b_) == 1 and len(a_) == 1 and any("self.kwargs.get('center')" in unparse(e) and pol for e, pol in cfg_of(rr).facts(b_[0][0])) and b_[0][0].lineno < a_[0][0].lineno
    ctx.ob("ALG.rolling.center-overlap", rr, "center=True: before = window // 2 rows from the previous partition, after = window - before - 1 from the next (pandas centers even windows to the right)", ok, "" if ok else "before/after are exchanged: an even centered window takes one row too few from the previous partition")
    # ---------------- scalar carries of cummax/cummin (Series path) use the matching extremum
    for fn, want in (("cummax_aggregate", "max(x, y)"), ("cummin_aggregate", "min(x, y)")):
        f_ = meth.func(fn)
        sc = [r for r in returns(f_) if isinstance(r.value, ast.Call) and call_name(r.value) in ("max", "min")]
        ok = len(sc) == 1 and unparse(sc[0].value) == want
        ctx.ob("ALG.scan-monoid.scalar", f_, f"{fn}: scalar carries are combined with {want}", ok, "" if ok else f"uses {unparse(sc[0].value) if sc else None}: Series.{fn[:6]}() is wrong from the third partition on")
    # ---------------- map_overlap: an EMPTY neighbour contributes no overlap (None), never a length of 0
    cp_ = ctx.model.module("dask/dataframe/dask_expr/_expr.py").func("_combined_parts")
    lens = [n for n in ast.walk(cp_) if isinstance(n, ast.IfExp) and isinstance(n.body, ast.Call) and call_name(n.body) == "len"]
    ok = len(lens) == 2 and all(eqv(n.test, f"{unparse(n.body.args[0])} is not None and len({unparse(n.body.args[0])}) > 0") and eqv(n.orelse, "None") for n in lens) and {unparse(n.body.args[0]) for n in lens} == {"prev_part", "next_part"}
    ctx.ob("ALG.overlap.empty-neighbour", cp_, "_combined_parts reports len(part) only if the part exists AND is non-empty, else None", ok, "" if ok else "a length of 0 becomes the slice bound out.iloc[before:-0], which is empty: every row of the partition disappears from the map_overlap result")
    # ---------------- cumulative carry: an absent carry on the LEFT is replaced by the right operand
    caa = ctx.model.module("dask/dataframe/methods.py").func("_cum_aggregate_apply")
    ifs = [n for n in walk_no_nested(caa) if isinstance(n, ast.If)]
    ok = len(ifs) == 1 and eqv(ifs[0].test, "y is None") and all(eqv(r.value, "x") for r in returns(ifs[0]) if r in ifs[0].body) and any(eqv(r.value, "aggregate(x, y)") for r in returns(caa))
    ctx.ob("ALG.scan-carry.apply", caa, "_cum_aggregate_apply(aggregate, x, y): x if y is None else aggregate(x, y) (the aggregate itself handles a missing x)", ok, "" if ok else "returning x when x is None keeps the carry None for ever after leading all-NaN/empty partitions: cumsum/cumprod restart at every later partition")
    # ---------------- limited ffill/bfill: exactly `limit` rows are borrowed from the neighbouring partition
    ffc = ctx.model.module("dask/dataframe/dask_expr/_expr.py")
    fb_ = ffc.func("FFill.before")
    ok = (all(eqv(r.value, "1 if self.limit is None else self.limit") for r in returns(fb_)) and bool(returns(fb_)))
    ctx.ob("ALG.fill.overlap-limit", fb_, "FFill.before = 1 if limit is None else limit", ok, "" if ok else "with fewer borrowed rows a NaN run crossing a partition boundary is filled less far than pandas fills it")
    # ---------------- cumulative / overlap predicates are never evaluated on the unfiltered frame (optimizer guard, see C43)
    dor46 = ctx.model.module("dask/dataframe/dask_expr/_expr.py").func("_depends_on_other_rows")
    listed46 = {n.id for r in returns(dor46) for n in ast.walk(r.value) if isinstance(n, ast.Name)}
    need46 = {"MapOverlap", "MapOverlapAlign", "CreateOverlappingPartitions", "CumulativeAggregations", "CumulativeBlockwise", "CumulativeFinalize", "RollingReduction", "RollingAggregation"}
    ctx.ob("TAB.neighbour-dependent.classes", dor46, f"_depends_on_other_rows covers the abstract and the lowered forms of cumulative, overlap and rolling operations", need46 <= listed46, "" if need46 <= listed46 else f"missing: {sorted(need46 - listed46)} -- x = df[p0]; x[x.b.cumsum() > k] is merged into one filter and the scan runs over the unfiltered rows")


VARIANTS = [
    ("dask/dataframe/dask_expr/_cumulative.py", "            a = a.ffill()\n", '            a = a.dropna(how="all")\n', "ALG.scan-carry.last-valid"),
    ("dask/dataframe/dask_expr/_expr.py", '        name_prepend = f"overlap-prepend-{self._name}"', '        name_prepend = f"overlap-prepend-{self.frame._name}"', "N1.aux-key"),
    (CUM, "class CumProd(CumulativeAggregations):\n    chunk_operation = M.cumprod\n    aggregate_operation = staticmethod(methods.cumprod_aggregate)\n    neutral_element = 1", "class CumProd(CumulativeAggregations):\n    chunk_operation = M.cumprod\n    aggregate_operation = staticmethod(methods.cumprod_aggregate)\n    neutral_element = 0", "ALG.scan-monoid"),
    (CUM, "    chunk_operation = M.cummax\n    aggregate_operation = staticmethod(methods.cummax_aggregate)", "    chunk_operation = M.cummax\n    aggregate_operation = staticmethod(methods.cummin_aggregate)", "ALG.scan-monoid"),
    (METH, "        return x.where((x > y) | x.isnull(), y, axis=x.ndim - 1)", "        return x.where((x < y) | x.isnull(), y, axis=x.ndim - 1)", "ALG.scan-monoid.helper"),
    (CUM, "                    (previous_partitions._name, i - 1),\n                    self.neutral_element,", "                    (previous_partitions._name, i),\n                    self.neutral_element,", "ALG.scan-carry"),
    (ROL, 'class RollingMin(RollingReduction):\n    how = "min"', 'class RollingMin(RollingReduction):\n    how = "max"', "NAME.rolling"),
    (EX, "        return CumMax(self, skipna=skipna)", "        return CumMin(self, skipna=skipna)", "NAME.api"),
]


def selftest(ctx):
    from ..variants import selftest as st

    return st(ctx, "C46", VARIANTS)
