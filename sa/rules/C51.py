"""C51 -- term-rewrite matching is sound and complete (partial).

Decided:
 INJ.preorder-arity   the pre-order token stream the discrimination net consumes must determine the
                      term's shape: either each token carries the arity of its node, or a match is
                      validated against the term afterwards
 DOM.bind-after-compare  _process_match compares before it binds a repeated variable, and rejects a
                      binding list of the wrong length
 MPT.top-level        _rewrite applies the first match and otherwise returns the term unchanged;
                      the "top_level" strategy is exactly that
 SIB.net              the net is built (RuleSet.add) and queried (_match) through the same traversal
Not decided: completeness of the net search.
"""
from __future__ import annotations

import ast

from ..lib import *

EXPLANATION = (
    "Injectivity of the encoding consumed by the discrimination net in dask/rewrite.py (does the pre-order "
    "stream of heads determine arity?), dominance of the equality test over the binding of a repeated "
    "variable, and the shape of the top-level rewrite.  Completeness of the backtracking search is NOT decided."
)
ASSUMPTIONS = ["terms are tuples headed by a callable, lists, or leaves"]
RW = "dask/rewrite.py"


def check(ctx):
    model = ctx.model
    mod = model.module(RW)
    tr = model.klass(RW, "Traverser")
    cur = tr.own_methods.get("current")
    head = mod.func("head")
    im = mod.func("RuleSet.iter_matches")
    pm = mod.func("_process_match")
    if cur is None:
        raise AnchorMissing("Traverser.current")
    # what a token is
    tok_src = " ".join(unparse(r.value) for r in returns(cur))
    head_rets = [unparse(r.value) for r in returns(head)]
    carries_arity = "len(" in tok_src or any("len(" in h for h in head_rets)
    validated = any(
        isinstance(n, ast.Compare) and "term" in unparse(n) and any(isinstance(x, ast.Call) for x in ast.walk(n))
        for f in (im, pm)
        for n in ast.walk(f)
    )
    ctx.count("token_definition_sites", 1)
    ctx.ob(
        "INJ.preorder-arity",
        cur,
        f"net token = {tok_src}; heads = {head_rets}",
        carries_arity or validated,
        "" if (carries_arity or validated) else "the token of a node is its head only: (f,(g,x),y) and (f,(g,a,b)) produce the same stream f,g,_,_ so a rule matches terms of a different shape (and binds variables across sibling boundaries)",
    )
    # next()/skip() walk the same pre-order for patterns and terms
    nx = tr.own_methods.get("next")
    ok = nx is not None and bool(find("self._stack.extend(reversed(subterms[1:]))", nx)) and bool(find("self.term = subterms[0]", nx)) and bool(find("self.term = self._stack.pop()", nx))
    ctx.ob("SIB.net.preorder", nx or tr.node, "next(): first subterm now, remaining subterms pushed in reverse (pre-order)", ok)
    add = mod.func("RuleSet.add")
    ok = any(isinstance(l, ast.For) and Pat("Traverser(rule.lhs)").match(l.iter) is not None for l in walk_no_nested(add)) and bool(find("S = Traverser(term)", im))
    ctx.ob("SIB.net.same-traversal", add, "patterns and terms are linearised by the same Traverser", ok)
    ok = bool(find("t = VAR", add)) and any(has_fact(inline_facts(add, n), "t in vars", True) is not None for n, _ in find("t = VAR", add))
    ctx.ob("SIB.net.variables", add, "pattern variables become the VAR edge", ok)
    # ---------------- _process_match
    stores = find("subs[M_v] = M_s", pm, nested=False)
    ctx.count("binding_sites", len(stores))
    ctx.floor("binding_sites", 1)
    for n, b in stores:
        facts = inline_facts(pm, n)
        ok = any(Pat("M_v in subs and subs[M_v] != M_s").match(e, {"M_v": b["M_v"], "M_s": b["M_s"]}) is not None and p is False for e, p in facts)
        ctx.ob("DOM.bind-after-compare", n, "subs[v] = s only if v is unbound or already bound to an equal subterm", ok, "" if ok else "a repeated variable can be rebound to a different subterm; guards: " + "; ".join(fact_strs(facts)))
    rej = [
        r
        for r in returns(pm)
        if const(r.value) is None
        and has_fact(inline_facts(pm, r), "M_v in subs", True) is not None
        and has_fact(inline_facts(pm, r), "subs[M_v] == M_s", False) is not None
    ]
    ctx.ob("DOM.reject-inconsistent", pm, "inconsistent repeated binding -> None", len(rej) == 1)
    ok = any(isinstance(n, ast.Raise) for n in ast.walk(pm)) and bool(find("len(varlist) == len(syms)", pm))
    ctx.ob("DOM.bind-arity", pm, "bindings and variable list must have equal length", ok)
    loops = [l for l in walk_no_nested(pm) if isinstance(l, ast.For)]
    ok = bool(loops) and Pat("zip(varlist, syms)").match(loops[0].iter) is not None and bool(find("varlist = rule._varlist", pm))
    ctx.ob("DOM.bind-order", pm, "variables are paired with matched subterms in pre-order", ok)
    # iter_matches filters None
    ys = [n for n in ast.walk(im) if isinstance(n, ast.Yield)]
    ok = len(ys) == 1 and has_fact(inline_facts(im, ys[0]), "subs is None", False) is not None and eqv(ys[0].value, "(rule, subs)")
    ctx.ob("DOM.yield-valid-only", im, "only matches with a consistent substitution are yielded", ok)
    # ---------------- top level rewrite
    rw = mod.func("RuleSet._rewrite")
    loops = [l for l in walk_no_nested(rw) if isinstance(l, ast.For)]
    ok = len(loops) == 1 and Pat("self.iter_matches(term)").match(loops[0].iter) is not None
    if ok:
        body = loops[0].body
        ok = isinstance(body[-1], ast.Break) and bool(find("term = rule.subs(sd)", loops[0])) and eqv(loops[0].target, "(rule, sd)")
    rets = returns(rw)
    ok = ok and len(rets) == 1 and eqv(rets[0].value, "term") and len(find("term = M_v", rw, nested=False)) == 1
    ctx.ob("MPT.top-level", rw, "first match is applied (then break); no match -> term unchanged", ok)
    tl = mod.func("_top_level")
    ok = (all(Pat("net._rewrite(term)").match(r.value) is not None for r in returns(tl)) and bool(returns(tl)))
    st = mod.toplevel_assign("strategies")
    ok = ok and isinstance(st, ast.Dict) and {const(k): unparse(v) for k, v in zip(st.keys, st.values)} == {"top_level": "_top_level", "bottom_up": "_bottom_up"}
    ctx.ob("MPT.strategies", tl, "strategy table: top_level -> _top_level, bottom_up -> _bottom_up", ok)
    # ---------------- backtracking flag of _match: after a backtrack the constant edge of the restored node was
    # already explored; it must be skipped exactly until a VAR edge is taken
    mt = mod.func("_match")
    sets_t = find("restore_state_flag = True", mt)
    sets_f = [n for n, _ in find("restore_state_flag = False", mt) if enclosing_loops(n)]
    pop = find("(S, N, matches) = stack.pop()", mt) or find("S, N, matches = stack.pop()", mt)
    ok = len(sets_t) == 1 and len(pop) == 1 and dominates(mt, pop[0][0], sets_t[0][0]) and getattr(pop[0][0], '_parent', None) is getattr(sets_t[0][0], '_parent', 0)
    ctx.ob("TYPESTATE.backtrack.set", mt, "restore_state_flag = True exactly when a saved state is popped", ok)
    var_take = find("matches = matches + (S.term,)", mt)
    ok = len(sets_f) == 1 and len(var_take) == 1 and control_equivalent(mt, sets_f[0], var_take[0][0]) and any((eqv(n_.test, "n") or eqv(n_.test, "n and S.current is not END")) and sets_f[0] in n_.body and "N.edges.get(VAR, None)" in unparse(mt) for n_ in walk_no_nested(mt) if isinstance(n_, ast.If))
    ctx.ob("TYPESTATE.backtrack.reset", mt, "the flag is cleared when (and only when) a VAR edge is taken", ok, "" if ok else "the flag is cleared elsewhere: after one backtrack constant edges keep being skipped (or are retried), so overlapping rules are missed")
    const_take = [n_ for n_ in ast.walk(mt) if isinstance(n_, ast.If) and eqv(n_.test, "n and (not restore_state_flag)")]
    ok = len(const_take) == 1 and bool(find("stack.append((S.copy(), N, matches))", const_take[0])) and not find("restore_state_flag = M_v", const_take[0])
    ctx.ob("TYPESTATE.backtrack.guard", mt, "a constant edge is taken only when not restoring; the state is saved first; the flag is untouched there", ok)
    # ---------------- the variables of a rule are collected over the WHOLE left-hand side (a bare variable is a pattern too)
    ri = ctx.model.module("dask/rewrite.py").func("RewriteRule.__init__")
    vl = find("self._varlist = M_v", ri)
    ok = len(vl) == 1 and eqv(vl[0][1]["M_v"], "[t for t in Traverser(lhs) if t in vars]") and bool(find("self.vars = tuple(sorted(set(self._varlist)))", ri))
    ctx.ob("ABS.rule-vars.whole-lhs", ri, "RewriteRule._varlist = [t for t in Traverser(lhs) if t in vars] -- traversal of lhs itself, head included", ok, "" if ok else "collecting over args(lhs) only: a catch-all rule whose lhs is a bare variable has no variables, is stored as a constant edge and never matches")
    # ---------------- a VAR edge consumes a subterm: it is not taken at the end of the term
    vb = [n for n in ast.walk(mt) if isinstance(n, ast.If) and find("S.skip()", n) and "n" in {x.id for x in ast.walk(n.test) if isinstance(x, ast.Name)}]
    ok = len(vb) == 1 and eqv(vb[0].test, "n and S.current is not END")
    ctx.ob("TYPESTATE.var-edge.not-at-end", mt, "the VAR edge is followed only while S.current is not END (skip() needs a subterm)", ok, "" if ok else "after a match was yielded at the end of the term the END marker is bound to a variable and skip() pops an empty stack: IndexError for rule sets where one lhs is a prefix of another")


VARIANTS = [
    (RW, "                stack.append((S.copy(), N, matches))\n                N = n", "                stack.append((S.copy(), N, matches))\n                restore_state_flag = False\n                N = n", "TYPESTATE.backtrack"),
    (RW, "        if v in subs and subs[v] != s:\n            return None\n        else:\n            subs[v] = s", "        subs[v] = s", "DOM.bind-after-compare"),
    (RW, "                if subs is not None:\n                    yield rule, subs", "                yield rule, subs", "DOM.yield-valid-only"),
    (RW, "            term = rule.subs(sd)\n            break\n        return term", "            term = rule.subs(sd)\n        return term", "MPT.top-level"),
    (RW, 'strategies = {"top_level": _top_level, "bottom_up": _bottom_up}', 'strategies = {"top_level": _bottom_up, "bottom_up": _bottom_up}', "MPT.strategies"),
    (RW, "            self._stack.extend(reversed(subterms[1:]))", "            self._stack.extend(subterms[1:])", "SIB.net.preorder"),
]


def selftest(ctx):
    from ..variants import selftest as st

    return st(ctx, "C51", VARIANTS)
