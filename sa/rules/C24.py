"""C24 -- structural array operations equal NumPy (narrow: twin agreement only).

Decided:
 TWIN.agree        repeat, concatenate and stack exist once in the classic array engine and once in the array-expression
                   engine; in canonical form (docstrings dropped, locals renamed in binding order) each pair
                   is identical apart from the reviewed engine-plumbing differences frozen in
                   sa/rules/twins_accepted.json.  The copies implement one algorithm: a new divergence means
                   one engine indexes / assembles blocks differently from the other.
 TWIN.shared-line  for loosely related copies, the statements both copies share today stay shared
Not decided: reshape, transpose, block, pad, flip, roll, tril/triu, diff and the chunk bookkeeping they do, which exist only once.
"""
from __future__ import annotations

from ..twin import check_pairs, check_loose
from ._twins import pairs_for, loose_for

EXPLANATION = (
    "Twin cross-check (sibling agreement over whole functions) of repeat, concatenate and stack between the classic and the "
    "array-expression engine, modulo frozen, reviewed engine-plumbing differences.  A divergence is a "
    "contradiction between two implementations of one specification.  NOT decided: reshape, transpose, block, pad, flip, roll, tril/triu, diff and the chunk bookkeeping they do, which exist only once."
)
ASSUMPTIONS = ["both copies are meant to implement the same algorithm (C30 states that the engines agree)"]
TECHNIQUE = "static analysis: canonicalised AST diff of sibling implementations (alpha-renamed locals, frozen reviewed differences) over /repo source (no execution)"


def check(ctx):
    n = check_pairs(ctx, pairs_for("C24"))
    n += check_loose(ctx, loose_for("C24"))
    ctx.count("twin_pairs", n)
    ctx.floor("twin_pairs", 3)
    # ---------------- axis bookkeeping that exists once (not in the expression engine)
    import ast as _ast
    from ..lib import find, returns, unparse, walk_no_nested, eqv
    nc = ctx.model.module("dask/array/numpy_compat.py").func("moveaxis")
    loops = [l for l in walk_no_nested(nc) if isinstance(l, _ast.For)]
    ok = len(loops) == 1 and eqv(loops[0].target, "(dest, src)") and eqv(loops[0].iter, "sorted(zip(destination, source))") and bool(find("order.insert(dest, src)", loops[0])) and bool(find("order = [n for n in range(a.ndim) if n not in source]", nc))
    ctx.ob("ALG.moveaxis", nc, "moveaxis: the moved axes are re-inserted in ascending DESTINATION order (for dest, src in sorted(zip(destination, source)))", ok, "" if ok else "inserting in another order shifts the positions of later insertions: several axes moved at once end up in the wrong places")
    ok = any(eqv(r.value, "result") for r in returns(nc)) and bool(find("result = a.transpose(order)", nc))
    ctx.ob("ALG.moveaxis.apply", nc, "moveaxis = a.transpose(order)", ok)
    ed = ctx.model.module("dask/array/routines.py").func("expand_dims")
    ok = bool(find("shape = [1 if ax in axis else next(shape_it) for ax in range(out_ndim)]", ed)) and bool(find("shape_it = iter(a.shape)", ed)) and bool(find("axis = validate_axis(axis, out_ndim)", ed)) and bool(find("out_ndim = len(axis) + a.ndim", ed))
    ctx.ob("ALG.expand-dims", ed, "expand_dims: the output shape is built position by position (1 where the axis is new, else the next input length), independent of the order in which axes are listed", ok, "" if ok else "the new axes are placed one after the other in the order given: an unsorted axis tuple yields a different shape than NumPy")
    from .C20 import take_rules

    take_rules(ctx)


VARIANTS = [
    ("dask/array/numpy_compat.py", "    for dest, src in sorted(zip(destination, source)):\n        order.insert(dest, src)", "    for src, dest in sorted(zip(source, destination)):\n        order.insert(dest, src)", "ALG.moveaxis"),
    ("dask/array/core.py", "    cum_dims = [0] + list(accumulate(add, [len(a.chunks[axis]) for a in seq2]))", "    cum_dims = [1] + list(accumulate(add, [len(a.chunks[axis]) for a in seq2]))", "TWIN.agree"),
    ("dask/array/creation.py", "        chunks[axis] = (chunks[axis][0] * repeats,)", "        chunks[axis] = (chunks[axis][0] + repeats,)", "TWIN.agree"),
]


def selftest(ctx):
    from ..variants import selftest as st

    return st(ctx, "C24", VARIANTS)
