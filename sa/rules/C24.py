"""C24 -- structural array operations equal NumPy (narrow: twin agreement only).

Decided:
 TWIN.agree        repeat, concatenate and stack exist once in the classic array engine and once in the array-expression
                   engine; in canonical form (docstrings dropped, locals renamed in binding order) each pair
                   is identical apart from the reviewed engine-plumbing differences frozen in
                   sa/rules/twins_accepted.json.  The copies implement one algorithm: a new divergence means
                   one engine indexes / assembles blocks differently from the other.
 TWIN.shared-line  for loosely related copies, the statements both copies share today stay shared
Not decided: reshape, transpose, block, pad, flip, roll, tril/triu, diff and the chunk bookkeeping they do, which exist only once.
"""
from __future__ import annotations

from ..twin import check_pairs, check_loose
from ._twins import pairs_for, loose_for

EXPLANATION = (
    "Twin cross-check (sibling agreement over whole functions) of repeat, concatenate and stack between the classic and the "
    "array-expression engine, modulo frozen, reviewed engine-plumbing differences.  A divergence is a "
    "contradiction between two implementations of one specification.  NOT decided: reshape, transpose, block, pad, flip, roll, tril/triu, diff and the chunk bookkeeping they do, which exist only once."
)
ASSUMPTIONS = ["both copies are meant to implement the same algorithm (C30 states that the engines agree)"]
TECHNIQUE = "static analysis: canonicalised AST diff of sibling implementations (alpha-renamed locals, frozen reviewed differences) over /repo source (no execution)"


def check(ctx):
    n = check_pairs(ctx, pairs_for("C24"))
    n += check_loose(ctx, loose_for("C24"))
    ctx.count("twin_pairs", n)
    ctx.floor("twin_pairs", 3)


VARIANTS = [
    ("dask/array/core.py", "    cum_dims = [0] + list(accumulate(add, [len(a.chunks[axis]) for a in seq2]))", "    cum_dims = [1] + list(accumulate(add, [len(a.chunks[axis]) for a in seq2]))", "TWIN.agree"),
    ("dask/array/creation.py", "        chunks[axis] = (chunks[axis][0] * repeats,)", "        chunks[axis] = (chunks[axis][0] + repeats,)", "TWIN.agree"),
]


def selftest(ctx):
    from ..variants import selftest as st

    return st(ctx, "C24", VARIANTS)
