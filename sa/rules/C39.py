"""C39 -- joins and concatenation equal pandas (partial; join-side algebra only).

Decided:
 ALG.join-side    every test on the join kind that is conjoined with a side-specific condition in
                  dask_expr/_merge.py uses the admissible set for that side:
                    filter pushed to the left input   -> how in {left, inner, leftsemi}
                    filter pushed to the right input  -> how in {right, inner}
                    left input is a single partition  (broadcast it / keep right divisions) -> {right, inner}
                    right input is a single partition (broadcast it / keep left divisions)  -> {left, inner, leftsemi}
                    broadcast join replicating the left side  -> {right, inner}
                    broadcast join replicating the right side -> {left, inner, leftsemi}
                  (a row of the preserved side must meet every row of the other side exactly once)
 ARGPOS           expression-constructor sites in _merge.py, _merge_asof.py, _concat.py
Not decided: row multisets.
"""
from __future__ import annotations

import ast

from ..consteval import NotConstant, fold
from ..lib import *
from . import _tables as T

EXPLANATION = (
    "Join-side preservation algebra over every `how` test in dask/dataframe/dask_expr/_merge.py that is "
    "conjoined with a side-specific condition (which input a filter is pushed to, which input has a single "
    "partition, which input is broadcast): the admitted join kinds are compared with the kinds for which the "
    "transformation is sound.  The broadcast-join predicate is evaluated for all 5 kinds x 2 sides by folding "
    "its `how`/side conjuncts.  Row multisets of the results are NOT decided."
)
ASSUMPTIONS = ["join kinds are inner/left/right/outer/leftsemi"]
MG = "dask/dataframe/dask_expr/_merge.py"
KINDS = ("inner", "left", "right", "outer", "leftsemi")
LEFT_PRESERVING_OK = {"left", "inner", "leftsemi"}   # transformation touches only how left rows are grouped
RIGHT_PRESERVING_OK = {"right", "inner"}


class _Sub(ast.NodeTransformer):
    def visit_Attribute(self, n):
        u = unparse(n)
        if u == "self.how":
            return ast.Name(id="HOW", ctx=ast.Load())
        if u in ("self.broadcast_side",):
            return ast.Name(id="SIDE", ctx=ast.Load())
        return n

    def visit_Name(self, n):
        if n.id == "broadcast_side":
            return ast.Name(id="SIDE", ctx=ast.Load())
        return n


def _mentions(e, *words):
    u = unparse(e)
    return any(w in u for w in words)


def check(ctx):
    model = ctx.model
    mod = model.module(MG)
    merge = model.klass(MG, "Merge")
    n_side = 0
    # ---------------- filter push-down
    fp = merge.own_methods.get("_filter_passthrough_available")
    if fp is None:
        raise AnchorMissing("Merge._filter_passthrough_available")
    for r in [r for r in ast.walk(fp) if isinstance(r, ast.Return)]:
        m = Pat("self.how in M_t").match(r.value) if r.value is not None else None
        if m is None:
            continue
        kinds = str_set(m["M_t"])
        facts = inline_facts(fp, r)
        side = None
        if has_fact(facts, "predicate_columns.issubset(self.left.columns)", True) is not None:
            side = "left"
        elif has_fact(facts, "predicate_columns.issubset(self.right.columns)", True) is not None:
            side = "right"
        if side is None or kinds is None:
            ctx.ob("ALG.join-side.filter", r, "filter push-down test", None, "side of the predicate not recognised")
            continue
        n_side += 1
        want = LEFT_PRESERVING_OK if side == "left" else RIGHT_PRESERVING_OK
        ok = kinds <= want
        ctx.ob("ALG.join-side.filter", r, f"filter on {side} columns is pushed below the join only for how in {sorted(want)}", ok, "" if ok else f"admits {sorted(kinds - want)}: for those kinds {side} columns can be null-padded / duplicated by the join, so filtering first changes the result")
    # ---------------- single-partition tests (broadcast + divisions)
    if merge.own_methods.get("_is_single_partition_broadcast") is None:
        raise AnchorMissing("Merge._is_single_partition_broadcast")
    for qn_, f in mod.functions():
        fname = qn_
        if f is fp or f is merge.own_methods.get("is_broadcast_join"):
            continue
        for n in ast.walk(f):
            if isinstance(n, ast.BoolOp) and isinstance(n.op, ast.And):
                hows = [v for v in n.values if Pat("self.how in M_t").match(v) is not None]
                if not hows:
                    continue
                kinds = str_set(Pat("self.how in M_t").match(hows[0])["M_t"])
                others = [v for v in n.values if v is not hows[0]]
                side = None
                if any(_mentions(v, "self.left.npartitions == 1") for v in others):
                    side = "left"
                elif any(_mentions(v, "self.right.npartitions == 1") for v in others):
                    side = "right"
                if side is None or kinds is None:
                    continue
                n_side += 1
                want = RIGHT_PRESERVING_OK if side == "left" else LEFT_PRESERVING_OK
                ok = kinds <= want
                ctx.ob("ALG.join-side.single-partition", n, f"{fname}: {side} input has one partition -> how in {sorted(want)}", ok, "" if ok else f"admits {sorted(kinds - want)}: unmatched {side} rows would be emitted once per partition of the other input")
    # ---------------- broadcast join predicate, evaluated symbolically
    bj = merge.own_methods.get("is_broadcast_join")
    if bj is None:
        raise AnchorMissing("Merge.is_broadcast_join")
    cond = None
    for n in ast.walk(bj):
        if isinstance(n, ast.If) and isinstance(n.test, ast.BoolOp) and isinstance(n.test.op, ast.And) and _mentions(n.test, "self.how"):
            cond = n.test
    if cond is None:
        raise AnalysisError("is_broadcast_join: the admitting condition was not recognised")
    relevant = [v for v in cond.values if _mentions(v, "self.how", "broadcast_side")]
    ctx.count("broadcast_conjuncts_on_how", len(relevant))
    admitted = {}
    for side in ("left", "right"):
        for how in KINDS:
            ok_all = True
            for v in relevant:
                e = _Sub().visit(ast.fix_missing_locations(ast.parse(unparse(v), mode="eval").body))
                try:
                    ok_all = ok_all and bool(fold(e, {"HOW": how, "SIDE": side}))
                except NotConstant as ex:
                    raise AnalysisError(f"is_broadcast_join: cannot evaluate `{unparse(v)}`: {ex}")
            admitted[(side, how)] = ok_all
    for side in ("left", "right"):
        n_side += 1
        got = {h for h in KINDS if admitted[(side, h)]}
        want = RIGHT_PRESERVING_OK if side == "left" else LEFT_PRESERVING_OK
        ok = got <= want
        ctx.ob("ALG.join-side.broadcast", bj, f"broadcasting the {side} input is chosen only for how in {sorted(want)}", ok, "" if ok else f"also for {sorted(got - want)}: every matching row of the {side} input is emitted once per partition of the other input that holds its key")
    bs = merge.own_methods.get("broadcast_side")
    ok = bs is not None and (all(Pat("'left' if self.left.npartitions < self.right.npartitions else 'right'").match(r.value) is not None for r in returns(bs)) and bool(returns(bs)))
    ctx.ob("ALG.join-side.broadcast-side", bs or merge.node, "the smaller input is the broadcast side", ok)
    ctx.count("side_conditioned_how_tests", n_side)
    ctx.floor("side_conditioned_how_tests", 8)
    # BroadcastJoin layer: the non-broadcast input is split only when how != inner; merge args are
    # (other, bcast), reversed when the broadcast side is the left
    bl = mod.func("BroadcastJoin._layer")
    u = unparse(bl)
    ok = "if self.broadcast_side in ('left', 'leftsemi'):" in u and "_merge_args.reverse()" in u
    ctx.ob("ALG.join-side.broadcast-arg-order", bl, "merge arguments are (other, broadcast), reversed when the left side is broadcast", ok)
    # ---------------- partitioning claims: who may say "hash partitioned by the join keys"
    # Downstream merges/groupbys skip their shuffle when an input claims its rows are mapped to
    # partitions by the key columns.  A hash join earns the claim {left_on, right_on}; a broadcast join
    # shuffles nothing and must report the partitioning of the side that is not broadcast.
    mp = merge.own_methods.get("unique_partition_mapping_columns_from_shuffle")
    bj_ci = model.klass(MG, "BroadcastJoin")
    bp = bj_ci.own_methods.get("unique_partition_mapping_columns_from_shuffle")
    if mp is None:
        raise AnchorMissing("Merge.unique_partition_mapping_columns_from_shuffle")
    key_claims = [r for r in returns(mp) if isinstance(r.value, ast.Set) and "self.left_on" in unparse(r.value) and "self.right_on" in unparse(r.value)]
    ctx.count("join_key_partitioning_claims", len(key_claims))
    ctx.floor("join_key_partitioning_claims", 1)
    for r in key_claims:
        facts = {(unparse(e), pol) for e, pol in cfg_of(mp).facts(r)}
        ok = ("self.is_broadcast_join", False) in facts or any(e.startswith("'broadcast' in self._parameters and self.is_broadcast_join") and pol is False for e, pol in facts)
        ctx.ob("ALG.partitioning-claim.merge", r, "Merge claims {left_on, right_on} only when it is not lowered to a broadcast join", ok, "" if ok else "a merge that will be lowered to BroadcastJoin (no shuffle) still claims hash partitioning by the keys: a following merge/groupby on the key skips its shuffle and loses rows")
    ok = bp is not None and "left_on" not in unparse(bp) and "right_on" not in unparse(bp)
    ctx.ob("ALG.partitioning-claim.broadcast", bp or bj_ci.node, "BroadcastJoin reports the partitioning of the un-broadcast side (does not inherit the key claim)", ok, "" if ok else "BroadcastJoin inherits Merge's claim of being hash partitioned by the join keys")
    os_ = merge.own_methods.get("_unique_partition_mapping_columns_of_other_side")
    ok = os_ is not None and bool(find("other = self.right if self.broadcast_side == 'left' else self.left", os_)) and "other.unique_partition_mapping_columns_from_shuffle" in unparse(os_)
    ctx.ob("ALG.partitioning-claim.other-side", os_ or merge.node, "the un-broadcast side is right when the left is broadcast, else left", ok)
    bm = model.klass(MG, "BlockwiseMerge").own_methods.get("unique_partition_mapping_columns_from_shuffle")
    ok = bm is not None and "self.left.unique_partition_mapping_columns_from_shuffle" in unparse(bm) and "self.right.unique_partition_mapping_columns_from_shuffle" in unparse(bm)
    ctx.ob("ALG.partitioning-claim.blockwise", bm or merge.node, "BlockwiseMerge reports what its (already shuffled) inputs report", ok)
    # ---------------- left/right mirror symmetry of the hash-join lowering
    lw = merge.own_methods["_lower"]

    def mirror(txt):
        return txt.replace("left", "\0").replace("right", "left").replace("\0", "right")
    rbc = [c for c in calls(lw, "RearrangeByColumn")]
    lefts = [c for c in rbc if eqv(c.args[0], "left")]
    rights = [c for c in rbc if eqv(c.args[0], "right")]
    ctx.count("side_shuffles", len(rbc))
    ctx.floor("side_shuffles", 4, "RearrangeByColumn(left|right, ...) in Merge._lower")
    for cl in lefts:
        want = mirror(unparse(cl))
        ok = any(unparse(cr) == want for cr in rights)
        ctx.ob("SIB.mirror.shuffle", cl, f"the shuffle of the right input mirrors `{unparse(cl)[:70]}…` (left<->right)", ok, "" if ok else f"no right-hand twin `{want[:120]}`: one side is shuffled by the other side's keys/index flag, so matching rows end up in different partitions")
    guards_l = [n for n in walk_no_nested(lw) if isinstance(n, ast.If) and unparse(n.test).startswith("shuffle_left_on and ")]
    guards_r = [n for n in walk_no_nested(lw) if isinstance(n, ast.If) and unparse(n.test).startswith("shuffle_right_on and ")]
    ok = len(guards_l) == 1 and len(guards_r) == 1 and mirror(unparse(guards_l[0].test)) == unparse(guards_r[0].test)
    ctx.ob("SIB.mirror.shuffle-guard", lw, "the conditions for shuffling left and right mirror each other", ok)
    hj = [c for c in calls(lw, "HashJoinP2P")]
    ok = len(hj) == 1
    if ok:
        kw = {k.arg: unparse(k.value) for k in hj[0].keywords}
        ok = all(kw.get(k) == v for k, v in (("left_on", "left_on"), ("right_on", "right_on"), ("left_index", "left_index"), ("right_index", "right_index"), ("shuffle_left_on", "shuffle_left_on"), ("shuffle_right_on", "shuffle_right_on"), ("how", "self.how")))
    ctx.ob("SIB.mirror.p2p-args", lw, "HashJoinP2P receives each side's keys/index flags under that side's name", ok)
    bjc = [c for c in calls(lw, "BroadcastJoin")]
    ok = len(bjc) == 1 and [unparse(a) for a in bjc[0].args] == ["left", "right", "self.how", "left_on", "right_on", "left_index", "right_index", "self.suffixes", "self.indicator"]
    ctx.ob("SIB.mirror.broadcast-args", lw, "BroadcastJoin(left, right, how, left_on, right_on, left_index, right_index, suffixes, indicator)", ok)
    # ---------------- concat: known divisions may only be chained when strictly increasing
    cc = model.klass("dask/dataframe/dask_expr/_concat.py", "Concat")
    md = cc.own_methods.get("_monotonic_divisions")
    if md is None:
        raise AnchorMissing("Concat._monotonic_divisions")
    cmps = [n for n in ast.walk(md) if isinstance(n, ast.Compare) and "divisions[-1]" in unparse(n.left) and "divisions[0]" in unparse(n.comparators[0])]
    ok = len(cmps) == 1 and isinstance(cmps[0].ops[0], ast.Lt) and eqv(cmps[0], "dfs[i].divisions[-1] < dfs[i + 1].divisions[0]")
    ctx.ob("ALG.concat.strict-divisions", md, "frames are chained by divisions only if last division < next first division (the last division is inclusive)", ok, "" if ok else f"comparison is `{unparse(cmps[0]) if cmps else None}`: with equality the boundary value lives in two partitions while the divisions promise one")
    T.argpos(ctx, lambda p: p.split("/")[-1] in ("_merge.py", "_merge_asof.py", "_concat.py"), "c39", floor=10)
    from ._claims import check_claims

    check_claims(ctx)
    # ---------------- merge_asof partition pairing: the upper bound of the right-hand range
    mu = model.module("dask/dataframe/multi.py")
    pp = mu.func("pair_partitions")
    up = find("upper = M_v", pp)
    ok = len(up) == 1 and unparse(up[0][1]["M_v"]) == "R[j + 1] if j + 1 < m and (R[j + 1] < L[i + 1] or (R[j + 1] == L[i + 1] and i == n - 1)) else None"
    ctx.ob("ALG.asof-pairing.upper", pp, "upper = R[j+1] when it lies below the left partition's end, or AT it for the last left partition (whose end is inclusive)", ok, "" if ok else "the inclusive end of the last left partition is not honoured: rows at that key are emitted for two right partitions")
    lo = find("lower = R[j] if j >= 0 and R[j] > L[i] else None", pp)
    ctx.ob("ALG.asof-pairing.lower", pp, "lower = R[j] when it lies strictly above the left partition's start", len(lo) == 1)
    # ---------------- broadcast join hash split: rows are hashed on the key columns in the order of `on`
    sp = mu.func("_split_partition")
    hs = [c for c in calls(sp, "hash_object_dispatch")]
    ok = len(hs) >= 2 and all(unparse(c.args[0]).startswith("df[on]") for c in hs[:2]) and bool(find("o = df[on]", sp))
    ctx.ob("SIB.split-partition.key-order", sp, "_split_partition hashes df[on] (columns in the order the join lists them), like the shuffle of the broadcast side", ok, "" if ok else "columns are taken in frame order: for on=['b','a'] the two sides hash different column orders and matching rows land in different splits")
    # ---------------- single-partition side: the other side's divisions survive only for joins that cannot add rows outside them
    bmd = ctx.model.module("dask/dataframe/dask_expr/_merge.py").func("BlockwiseMerge._divisions")
    rets = {unparse(r.value): [unparse(e) for e, pol in cfg_of(bmd).facts(r) if pol] for r in returns(bmd)}
    okr = "self.right.divisions" in rets and "self.how in ('right', 'inner')" in rets["self.right.divisions"] and "self.left.npartitions == 1" in rets["self.right.divisions"]
    okl = "self.left.divisions" in rets and "self.how in ('inner', 'left', 'leftsemi')" in rets["self.left.divisions"] and "self.right.npartitions == 1" in rets["self.left.divisions"]
    ctx.ob("SIB.mirror.blockwise-divisions", bmd, "right.divisions only for how in (right, inner) with a 1-partition left; left.divisions only for how in (inner, left, leftsemi) with a 1-partition right", okr and okl, "" if okr and okl else "an outer (or the opposite one-sided) join can produce index values outside the kept side's divisions: the declared divisions are too narrow and a following aligned operation loses rows")
    # ---------------- merge_asof: heads and tails of the right frame are taken per `by` group alike
    mai = ctx.model.module("dask/dataframe/dask_expr/_merge_asof.py").func("MergeAsofIndexed._layer")
    for fn_ in ("compute_heads", "compute_tails"):
        cs = [c for c in calls(mai, fn_)]
        ok = len(cs) == 1 and kwarg(cs[0], "by") is not None and eqv(kwarg(cs[0], "by"), "self.right_by") and eqv(cs[0].args[0], "self.right")
        ctx.ob("SIB.mirror.asof-heads-tails", mai, f"{fn_}(self.right, <name>, by=self.right_by)", ok, "" if ok else "without by= the first/last row of the neighbouring partition is taken regardless of its group: forward/nearest (resp. backward) matches across a partition boundary pick the wrong group")
    # ---------------- a merge aligned on divisions makes no hash-partitioning claim
    mup = ctx.model.module("dask/dataframe/dask_expr/_merge.py").func("Merge.unique_partition_mapping_columns_from_shuffle")
    fi = [n for n in walk_no_nested(mup) if isinstance(n, ast.If) and eqv(n.test, "self.merge_indexed_left and self.merge_indexed_right")]
    ok = len(fi) == 1 and any(eqv(r.value, "set()") for r in returns(fi[0]))
    last = [r for r in returns(mup) if isinstance(r.value, ast.Set)]
    ok = ok and len(last) == 1 and dominates(mup, fi[0], last[0])
    ctx.ob("CLAIM.indexed-merge.empty", mup, "fully-indexed merge (both sides on the index, aligned on divisions): the claim is the empty set, decided before {left_on, right_on} is built", ok, "" if ok else "{None} reads as 'hash-partitioned by the index': a following index merge skips its shuffle and matching index values sit in different partitions (duplicated / unmatched rows)")
    # ---------------- join of a LIST of frames: the other frames are combined with an OUTER join, whatever `how` is
    jr = ctx.model.module("dask/dataframe/dask_expr/_merge.py").func("JoinRecursive._recursive_join")
    inner = [c for c in calls(jr, "Merge") if kwarg(c, "left_index") is not None and eqv(c.args[0], "frames[0]") and eqv(c.args[1], "frames[1]")]
    ok = len(inner) == 1 and kwarg(inner[0], "how") is not None and eqv(kwarg(inner[0], "how"), "'outer'")
    ctx.ob("ALG.join-list.pairwise-outer", jr, "_recursive_join merges a pair of the *other* frames with how='outer'; only the final merge with the caller's frame uses self.how", ok, "" if ok else "with how='left' keys that occur only in a later frame are dropped before they can match the caller's rows")
    # ---------------- merge_asof helpers: head keeps the LEFT (earlier) non-empty value, tail the right one
    mra = ctx.model.module("dask/dataframe/dask_expr/_merge_asof.py")
    mh = mra.func("most_recent_head")
    g_ = [n for n in walk_no_nested(mh) if isinstance(n, ast.If)]
    ok = len(g_) == 1 and eqv(g_[0].test, "len(left.index) == 0") and any(eqv(r.value, "right") for r in returns(g_[0])) and any(eqv(r.value, "left.head(1)") for r in returns(mh))
    ctx.ob("SIB.mirror.asof-most-recent", mh, "most_recent_head(left, right): right if left is empty else left.head(1)", ok, "" if ok else "mirroring the guard drops the first row of the next non-empty partition across an empty one: forward/nearest matches beyond it are lost")


VARIANTS = [
    (MG, "                index_shuffle=right_index,\n", "                index_shuffle=left_index,\n", "SIB.mirror.shuffle"),
    (MG, "            and self.is_broadcast_join\n            and not (self.merge_indexed_left and self.merge_indexed_right)\n        ):", "            and False\n        ):", "ALG.partitioning-claim"),
    ("dask/dataframe/dask_expr/_concat.py", "                dfs[i].divisions[-1] < dfs[i + 1].divisions[0]", "                dfs[i].divisions[-1] <= dfs[i + 1].divisions[0]", "ALG.concat.strict-divisions"),
    (MG, '                return self.how in ("left", "inner", "leftsemi")\n            elif predicate_columns.issubset(self.right.columns):\n                return self.how in ("right", "inner")', '                return self.how in ("left", "inner", "leftsemi")\n            elif predicate_columns.issubset(self.right.columns):\n                return self.how in ("right", "inner", "left")', "ALG.join-side.filter"),
    (MG, '            and not (self.how == "leftsemi" and broadcast_side == "left")\n', "", "ALG.join-side.broadcast"),
    (MG, '            and self.how != broadcast_side\n', "", "ALG.join-side.broadcast"),
    (MG, '            or self.left.npartitions == 1\n            and self.how in ("right", "inner")', '            or self.left.npartitions == 1\n            and self.how in ("right", "inner", "left")', "ALG.join-side.single-partition"),
    (MG, '        if use_right and self.left.npartitions == 1 and self.how in ("right", "inner"):', '        if use_right and self.left.npartitions == 1 and self.how in ("right", "inner", "outer"):', "ALG.join-side.single-partition"),
    (MG, '        return "left" if self.left.npartitions < self.right.npartitions else "right"', '        return "left" if self.left.npartitions > self.right.npartitions else "right"', "ALG.join-side.broadcast-side"),
]


def selftest(ctx):
    from ..variants import selftest as st

    return st(ctx, "C39", VARIANTS)
