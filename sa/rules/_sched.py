"""Shared facts about the local scheduler (dask/local.py) used by C01..C05."""
from __future__ import annotations

import ast

from ..lib import *
from ..srcmodel import assigned_names

LOCAL = "dask/local.py"
FIELDS = (
    "dependencies",
    "dependents",
    "waiting",
    "waiting_data",
    "cache",
    "ready",
    "running",
    "finished",
    "released",
)
_MUT = {"add", "append", "insert", "extend", "update", "remove", "discard", "pop", "popitem", "clear", "setdefault", "sort", "reverse"}


def _state_field(expr, func):
    """If expr (after alias inlining) is ``<...state>["field"]`` return field."""
    if isinstance(expr, ast.Subscript):
        k = const(expr.slice)
        base = dotted(expr.value)
        if isinstance(k, str) and k in FIELDS and base is not None and base.split(".")[-1].lstrip("_") in ("state",):
            return k
    return None


def state_mutations(model, relpath):
    """Yield (func, node, field, how) for every mutation of a scheduler-state field in module."""
    mod = model.module(relpath)
    out = []
    for qn, f in mod.functions():
        if not any(
            isinstance(x, ast.Subscript) and isinstance(const(x.slice), str) and const(x.slice) in FIELDS
            for x in walk_no_nested(f)
        ):
            continue
        for mu in mutations(f):
            n = mu["node"]
            if mu["kind"] in ("store", "delete"):
                tgt_base = None
                # state["f"] = v   |  state["f"][k] = v  |  del state["f"][k]
                tnodes = []
                if isinstance(n, ast.Delete):
                    tnodes = [t for t in n.targets if isinstance(t, ast.Subscript)]
                elif isinstance(n, ast.Assign):
                    tnodes = [t for t in n.targets if isinstance(t, ast.Subscript)]
                elif isinstance(n, (ast.AugAssign, ast.AnnAssign)):
                    tnodes = [n.target] if isinstance(n.target, ast.Subscript) else []
                for t in tnodes:
                    fld = _state_field(t, f)
                    if fld:
                        out.append((f, n, fld, mu["kind"] + "-field"))
                        continue
                    inner = inline(t.value, n, f)
                    fld = _state_field(inner, f)
                    if fld:
                        out.append((f, n, fld, mu["kind"] + "-item"))
            else:
                call = n
                if isinstance(call.func, ast.Attribute) and call.func.attr in _MUT:
                    recv = inline(call.func.value, call, f)
                    fld = _state_field(recv, f)
                    if fld is None and isinstance(recv, ast.Subscript):
                        fld = _state_field(recv.value, f)
                    if fld:
                        out.append((f, n, fld, call.func.attr))
    return out


def ownership(ctx, fields=FIELDS):
    """OWN: scheduler state fields are mutated only inside dask/local.py."""
    model = ctx.model
    writers_in = 0
    per_field = {}
    for rel in model.package_files("dask"):
        try:
            src = model.read(rel)
        except Exception:
            continue
        if "state" not in src:
            continue
        for f, n, fld, how in state_mutations(model, rel):
            if fld not in fields:
                continue
            if rel == LOCAL:
                writers_in += 1
                per_field.setdefault(fld, 0)
                per_field[fld] += 1
            else:
                ctx.ob(
                    "OWN.state-writer",
                    n,
                    f"state['{fld}'] {how} outside dask/local.py",
                    False,
                    f"scheduler state field '{fld}' is mutated outside the scheduler ({how})",
                )
    ctx.count("state_writers_in_local", writers_in)
    for fld in fields:
        if fld in ("dependencies", "dependents"):
            continue
        ctx.ob(
            "OWN.state-writer",
            f"{LOCAL}::<module>",
            f"writers of state['{fld}'] are all in dask/local.py",
            per_field.get(fld, 0) >= 1 or fld in ("cache",),
            f"{per_field.get(fld, 0)} writer site(s) in dask/local.py",
            nontrivial=True,
        )
    ctx.floor("state_writers_in_local", 4, "mutations of scheduler state inside dask/local.py")
    return per_field


def get_async(ctx):
    return ctx.model.module(LOCAL).func("get_async")
