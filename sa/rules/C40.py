"""C40 -- sorting, shuffling and de-duplication keep exactly the right rows (narrow).

Decided:
 ALG.partition-function   the row -> partition function depends only on the key projection:
                          partitioning_index hashes its argument with index=False and reduces modulo
                          npartitions; every caller passes the selected key columns (never the whole
                          frame), with the same numeric normalisation on both sides of a join
 ARGPOS                   expression-constructor sites in dask_expr/_shuffle.py
Not decided: sortedness; multisets of rows.
"""
from __future__ import annotations

import ast

from ..lib import *
from . import _tables as T

EXPLANATION = (
    "Structure of the hash-partitioning function in dask/dataframe/shuffle.py (hash of the key projection only, "
    "index excluded, modulo the number of output partitions) and of its three call sites (the argument is the "
    "selected key columns, numerically normalised the same way at the shuffle and merge sites); plus "
    "argument-slot agreement at constructor sites in _shuffle.py.  Sortedness and row multisets are NOT decided."
)
ASSUMPTIONS = ["hash_object_dispatch is a function of the row values of the frame it is given"]
SH = "dask/dataframe/shuffle.py"
ESH = "dask/dataframe/dask_expr/_shuffle.py"
EMG = "dask/dataframe/dask_expr/_merge.py"
MULTI = "dask/dataframe/multi.py"


def check(ctx):
    model = ctx.model
    sh = model.module(SH)
    pi = sh.func("partitioning_index")
    hs = [c for c in calls(pi, "hash_object_dispatch")]
    ok = len(hs) == 1 and const(kwarg(hs[0], "index")) is False and eqv(hs[0].args[0], "df")
    ctx.ob("ALG.partition-function.hash", pi, "hash_object_dispatch(df, index=False): only the key values, not the row labels", ok, "" if ok else "rows with equal keys but different index labels can land in different partitions")
    ok = bool(find("res = hash_object_dispatch(df, index=False) % int(npartitions)", pi))
    ctx.ob("ALG.partition-function.modulo", pi, "partition = hash % npartitions", ok)
    rets = returns(pi)
    ok = len(rets) == 1 and "res.astype(" in unparse(rets[0].value)
    ctx.ob("ALG.partition-function.return", pi, "returns the partition numbers (re-typed only)", ok)
    # callers
    n = 0
    for rel in (ESH, EMG, MULTI):
        mod = model.module(rel)
        for qn, f in mod.functions():
            for c in calls(f, "partitioning_index", nested=False):
                n += 1
                arg = c.args[0]
                # the argument must be a key projection: defined through _select_columns_or_index / index.to_frame / df[cols]
                srcs = all_defs(arg, c, f) if isinstance(arg, ast.Name) else [arg]
                # follow one more step through astype normalisation
                chain = []
                seen = 0
                work = list(srcs)
                while work and seen < 12:
                    v = work.pop()
                    seen += 1
                    if v is None:
                        continue
                    chain.append(unparse(v))
                    if isinstance(v, ast.Call) and isinstance(v.func, ast.Attribute) and v.func.attr == "astype" and isinstance(v.func.value, ast.Name):
                        st = enclosing_stmt(v) if hasattr(v, "_parent") else c
                        work += all_defs(v.func.value, st, f)
                    elif isinstance(v, ast.Call) and call_name(v) == "_get_index":
                        chain.append("_select_columns_or_index(<via _get_index>)")
                ok = any("_select_columns_or_index(" in s or ".to_frame(" in s or "df[index]" in s or "df[[]]" in s for s in chain) and not any(s.strip() in ("df", "obj") for s in chain)
                ctx.ob("ALG.partition-function.caller", c, f"{qn}: partitioning_index(<selected key columns>, npartitions)", ok, "" if ok else f"argument derives from {chain[:4]}")
                np_arg = unparse(c.args[1]) if len(c.args) > 1 else None
                ctx.ob("ALG.partition-function.npartitions", c, f"{qn}: modulo the number of output partitions ({np_arg})", np_arg in ("npartitions", "nsplits"))
    ctx.count("partitioning_index_callers", n)
    ctx.floor("partitioning_index_callers", 3)
    # numeric normalisation agrees between the shuffle and the merge transfer (keys 1 and 1.0 must meet)
    a = [qn for qn, f in model.module(ESH).functions() if "_is_numeric_cast_type(dtype)" in unparse(f) and "np.float64" in unparse(f)]
    b = [qn for qn, f in model.module(EMG).functions() if "_is_numeric_cast_type(dtype)" in unparse(f) and "np.float64" in unparse(f)]
    ctx.ob("ALG.partition-function.same-normalisation", f"{ESH}::<module>", "shuffle and merge transfer both hash numeric keys as float64", bool(a) and bool(b))
    T.argpos(ctx, lambda p: p == ESH, "c40", floor=15)
    # ---------------- presorted: partitions may be kept only if every maximum is STRICTLY below the next minimum
    cd = ctx.model.module("dask/dataframe/dask_expr/_shuffle.py").func("_calculate_divisions")
    ps = find("presorted = M_v", cd)
    conj = [v for n_, b in ps for v in (b["M_v"].values if isinstance(b["M_v"], ast.BoolOp) else [b["M_v"]])]
    strict = [v for v in conj if eqv(v, "(maxes2 < mins2).all()")]
    ok = len(strict) == 1 and any(const(b["M_v"]) is False for n_, b in ps)
    ctx.ob("ORD.presorted-strict", cd, "presorted requires (maxes2 < mins2).all(): a key shared by two neighbouring partitions forces a shuffle", ok, "" if ok else "equality at a partition boundary is accepted: the same key ends up in two output partitions although the divisions promise one")
    ok = bool(find("maxes2 = (maxes.iloc[:n - 1] if ascending else maxes.iloc[1:]).reset_index(drop=True)", cd)) and bool(find("mins2 = (mins.iloc[1:] if ascending else mins.iloc[:n - 1]).reset_index(drop=True)", cd))
    ctx.ob("ORD.presorted-neighbours", cd, "maxes of partition i are compared with mins of partition i+1 (mirrored when descending)", ok)
    from ._claims import check_claims

    check_claims(ctx)
    # ---------------- staged task shuffle: the final partition number is reduced modulo npartitions BEFORE it is
    # narrowed to the small integer type (sized for 2 * npartitions)
    sg = ctx.model.module("dask/dataframe/shuffle.py").func("shuffle_group")
    ok = bool(find("ind = (ind % npartitions).astype(typ, **kwargs) // k ** stage % k", sg)) and bool(find("typ = np.min_scalar_type(npartitions * 2)", sg))
    ctx.ob("ABS.shuffle-stage.mod-before-narrowing", sg, "ind = (ind % npartitions).astype(typ) // k**stage % k with typ sized for 2*npartitions", ok, "" if ok else "the partition number is cast to the narrow type before the modulo: it wraps for large output partition counts and rows are dropped")
    ok = bool(find("ind = hash_object_dispatch(c_, index=False) % int(nfinal)", sg) or find("ind = hash_object_dispatch(c, index=False)", sg)) or "hash_object_dispatch" in unparse(sg)
    ctx.ob("ABS.shuffle-stage.hash", sg, "the stage index derives from the hash of the key columns", ok, nontrivial=False)
    # ---------------- drop_duplicates: a projection may move below it only when a subset names the compared columns
    dd_ = ctx.model.klass("dask/dataframe/dask_expr/_reductions.py", "DropDuplicates").own_methods["_simplify_up"]
    ifs = [n for n in walk_no_nested(dd_) if isinstance(n, ast.If) and "isinstance(parent, Projection)" in unparse(n.test)]
    ok = len(ifs) == 1 and "self.subset is not None" in unparse(ifs[0].test) and "additional_columns=self.subset" in unparse(ifs[0])
    ctx.ob("DOM.dedup-projection", dd_, "Projection is pushed below DropDuplicates only if subset is given (and the subset columns are kept)", ok, "" if ok else "without a subset rows are compared on ALL columns: projecting first de-duplicates on the projected columns only")
    # ---------------- sort_values with a list of directions: the partition ORDER follows the first key's direction
    sv = ctx.model.module("dask/dataframe/dask_expr/_shuffle.py")
    da_ = sv.func("SortValues._divisions_ascending")
    ok = bool(find("divisions_ascending = divisions_ascending[0]", da_)) and any(eqv(r.value, "divisions_ascending") for r in returns(da_))
    ctx.ob("ALG.sort.partition-direction", da_, "_divisions_ascending: for a list, ascending[0] (the leading sort key decides how partitions are laid out)", ok, "" if ok else "ascending=[True, False] lays the partitions out in descending order of the first key while each partition is sorted ascending: the global order is wrong")
    # ---------------- staged task shuffle: every stage splits with the number of INPUT partitions of the whole shuffle
    tsl = sv.func("TaskShuffle._layer")
    sg = [t for t in ast.walk(tsl) if isinstance(t, ast.Tuple) and t.elts and eqv(t.elts[0], "self._shuffle_group") and any(eqv(a, "stage") for a in t.elts)]
    ok = len(sg) == 1 and [unparse(a) for a in sg[0].elts[3:]] == ["self.partitioning_index", "stage", "nsplits", "npartitions_input", "self.ignore_index", "npartitions"]
    ctx.ob("ARG.task-shuffle.stage-base", tsl, "the staged shuffle_group task receives npartitions_input (the base of the digit decomposition), not the number of padded stage inputs", ok, "" if ok else "with a partition increase and an input count that is no power of nsplits rows are routed to stage outputs that do not exist: rows are silently dropped")
    # ---------------- sort_values: the partition assignment gets the same direction AND the same place for missing values as the per-partition sort
    svl = sv.func("SortValues._lower")
    pc = [c for c in calls(svl, "_SetPartitionsPreSetIndex")]
    ok = len(pc) == 1 and kwarg(pc[0], "ascending") is not None and eqv(kwarg(pc[0], "ascending"), "self._divisions_ascending") and kwarg(pc[0], "na_position") is not None and eqv(kwarg(pc[0], "na_position"), "self.na_position")
    ctx.ob("ARG.sort.partition-na-position", svl, "_SetPartitionsPreSetIndex(..., ascending=self._divisions_ascending, na_position=self.na_position)", ok, "" if ok else "missing values are routed to the last partition whatever na_position says: with na_position='first' they end up in the middle of the result")
    # ---------------- round 4b (C40-m7): both directions of set_partitions_pre bisect on the same side
    from ..lib import kwarg as _k4, eqv as _e4
    spp4 = ctx.model.module("dask/dataframe/shuffle.py").func("set_partitions_pre")
    ss4 = [c for c in ast.walk(spp4) if isinstance(c, ast.Call) and isinstance(c.func, ast.Attribute) and c.func.attr == "searchsorted" and _e4(c.func.value, "divisions") and c.args and _e4(c.args[0], "s")]
    ctx.count("set_partitions_pre_bisects", len(ss4))
    ctx.floor("set_partitions_pre_bisects", 2)
    for c4 in ss4:
        sd4 = _k4(c4, "side")
        ok = sd4 is not None and _e4(sd4, "'right'")
        ctx.ob("SIB.set-partitions.side", c4, "divisions.searchsorted(s, side='right') in both the ascending and the descending branch", ok, "" if ok else "with the default side='left' the rows equal to a division boundary land one partition off (descending: the global minimum is clamped into partition 0): the output is not globally sorted")
    # ---------------- round 4b (C40-m8): Repartition keeps the 'already shuffled on' claim only when partitions are merged
    rp4 = ctx.model.klass("dask/dataframe/dask_expr/_repartition.py", "Repartition").own_methods["unique_partition_mapping_columns_from_shuffle"]
    ifs4 = [n for n in ast.walk(rp4) if isinstance(n, ast.If) and any(isinstance(s_, ast.Return) and _e4(s_.value, "self.frame.unique_partition_mapping_columns_from_shuffle") for s_ in n.body)]
    ok = len(ifs4) == 1 and isinstance(ifs4[0].test, ast.BoolOp) and isinstance(ifs4[0].test.op, ast.And) and any(_e4(v, "self.npartitions <= self.frame.npartitions") or _e4(v, "self.frame.npartitions >= self.npartitions") for v in ifs4[0].test.values)
    other4 = [r for r in ast.walk(rp4) if isinstance(r, ast.Return) and not (ifs4 and r in ifs4[0].body)]
    ok = ok and all(_e4(r.value, "set()") for r in other4)
    ctx.ob("DOM.repartition.mapping-claim", ifs4[0] if ifs4 else rp4, "Repartition passes on its input's unique_partition_mapping_columns_from_shuffle only under `self.npartitions <= self.frame.npartitions`", ok, "" if ok else "splitting partitions separates equal keys: drop_duplicates/unique/nunique trust the claim, skip the shuffle and deduplicate per partition only")


VARIANTS = [
    ("dask/dataframe/dask_expr/_shuffle.py", "            and (maxes2 < mins2).all()", "            and (maxes2 <= mins2).all()", "ORD.presorted-strict"),
    (SH, "    res = hash_object_dispatch(df, index=False) % int(npartitions)", "    res = hash_object_dispatch(df, index=True) % int(npartitions)", "ALG.partition-function.hash"),
    (SH, "    res = hash_object_dispatch(df, index=False) % int(npartitions)", "    res = hash_object_dispatch(df, index=False) % int(npartitions - 1)", "ALG.partition-function.modulo"),
    (ESH, "        index = partitioning_index(index, npartitions)\n        if df.ndim == 1:", "        index = partitioning_index(df, npartitions)\n        if df.ndim == 1:", "ALG.partition-function.caller"),
    (EMG, "        index = partitioning_index(index, npartitions)\n        df = df.assign(**{name: index})", "        index = partitioning_index(index, npartitions + 1)\n        df = df.assign(**{name: index})", "ALG.partition-function.npartitions"),
]


def selftest(ctx):
    from ..variants import selftest as st

    return st(ctx, "C40", VARIANTS)
