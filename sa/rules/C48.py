"""C48 -- bag operations equal their Python reference (narrow).

Decided:
 ALG.reductions      every Bag.<reduction> method hands Bag.reduction a (per-partition, aggregate) pair
                     that decomposes the reference function: sum/sum, max/max, min/min, any/any,
                     all/all, count/sum; frequencies/merge_frequencies; distinct chunk/merge;
                     topk with topk over the concatenation
 PAIR.tree           Bag.reduction's tree consumes every per-partition result exactly once per level
                     (tiling by partition_all, level width k = i + 1, final level over range(k)),
                     through the empty-safe wrappers
Not decided: everything else in the property (map/filter/groupby/join values).
"""
from __future__ import annotations

import ast

from ..lib import *

EXPLANATION = (
    "Algebraic table over the Bag reduction methods in dask/bag/core.py ((per-partition, aggregate) pairs that "
    "decompose the Python reference: count is aggregated by sum, extrema by themselves, ...) and a pairing rule "
    "over the tree built by Bag.reduction (each level tiles the previous level's outputs).  Values of the other "
    "bag operations are NOT decided."
)
ASSUMPTIONS = ["sum/min/max/any/all are associative-commutative over the element type"]
BAG = "dask/bag/core.py"
EXPECT = {"sum": ("sum", "sum"), "max": ("max", "max"), "min": ("min", "min"), "any": ("any", "any"), "all": ("all", "all"), "count": ("count", "sum")}


def check(ctx):
    model = ctx.model
    mod = model.module(BAG)
    bag = model.klass(BAG, "Bag")
    n = 0
    for meth, (pp, agg) in EXPECT.items():
        f = bag.own_methods.get(meth)
        if f is None:
            raise AnchorMissing(f"Bag.{meth}")
        cs = [c for c in calls(f, "reduction") if isinstance(c.func, ast.Attribute) and eqv(c.func.value, "self")]
        ok = len(cs) == 1 and len(cs[0].args) >= 2 and unparse(cs[0].args[0]) == pp and unparse(cs[0].args[1]) == agg
        n += len(cs)
        got = (unparse(cs[0].args[0]), unparse(cs[0].args[1])) if cs and len(cs[0].args) >= 2 else None
        ctx.ob("ALG.reductions", f, f"Bag.{meth} = reduction({pp}, {agg})", ok, "" if ok else f"uses {got}: the aggregate of per-partition {pp} results is not {meth} of the whole")
        ok2 = all(unparse(kwarg(c, "split_every")) == "split_every" for c in cs)
        ctx.ob("ALG.reductions.split-every", f, f"Bag.{meth} forwards split_every", ok2, nontrivial=False)
        ok3 = (all(r.value is not None and any(x is cs[0] for x in ast.walk(r.value)) for r in returns(f)) and bool(returns(f))) if cs else False
        ctx.ob("ALG.reductions.returned", f, f"Bag.{meth} returns the reduction", ok3, nontrivial=False)
    ctx.count("simple_reduction_methods", n)
    ctx.floor("simple_reduction_methods", 6)
    # `count` is toolz count (number of elements)
    ok = mod.imports.get("count", "").endswith("count") or mod.has("count")
    ctx.ob("ALG.reductions.count-fn", f"{BAG}::<module>", f"count resolves to {mod.imports.get('count')}", ok, nontrivial=False)
    fq = bag.own_methods["frequencies"]
    cs = [c for c in calls(fq, "reduction")]
    ok = len(cs) == 1 and [unparse(a) for a in cs[0].args[:2]] == ["frequencies", "merge_frequencies"]
    ctx.ob("ALG.reductions", fq, "Bag.frequencies = reduction(frequencies, merge_frequencies)", ok)
    mf = mod.func("merge_frequencies")
    okm = any(isinstance(x, ast.AugAssign) and isinstance(x.op, ast.Add) for x in ast.walk(mf)) or "merge_with(sum" in unparse(mf) or "+=" in unparse(mf)
    ctx.ob("ALG.reductions.merge-frequencies", mf, "merge_frequencies adds the per-partition counts", okm)
    ds = bag.own_methods["distinct"]
    ok = bool(find("func = chunk_distinct if key is None else partial(chunk_distinct, key=key)", ds)) and bool(find("agg = merge_distinct if key is None else partial(merge_distinct, key=key)", ds)) and (all(Pat("self.reduction(func, agg, out_type=Bag, name='distinct')").match(r.value) is not None for r in returns(ds)) and bool(returns(ds)))
    ctx.ob("ALG.reductions", ds, "Bag.distinct = reduction(chunk_distinct, merge_distinct) with the same key on both sides", ok)
    tk = bag.own_methods["topk"]
    cs = [c for c in calls(tk, "reduction")]
    ok = len(cs) == 1 and eqv(cs[0].args[0], "func") and eqv(cs[0].args[1], "compose(func, toolz.concat)")
    ctx.ob("ALG.reductions", tk, "Bag.topk = reduction(topk_k, topk_k o concat)", ok)
    # ---------------- the tree
    rd = bag.own_methods["reduction"]
    first = [n_ for n_ in ast.walk(rd) if isinstance(n_, ast.DictComp) and "empty_safe_apply" in unparse(n_)]
    ok = len(first) == 1 and Pat("{(a, i): (empty_safe_apply, perpartition, (self.name, i), is_last) for i in range(self.npartitions)}").match(first[0]) is not None
    ctx.ob("PAIR.tree.leaves", rd, "one per-partition task per input partition, through empty_safe_apply", ok)
    loops = [l for l in walk_no_nested(rd) if isinstance(l, ast.While)]
    ok = len(loops) == 1 and Pat("k > split_every").match(loops[0].test) is not None
    inner = [l for l in ast.walk(loops[0]) if isinstance(l, ast.For)] if loops else []
    ok = ok and len(inner) == 1 and Pat("enumerate(partition_all(split_every, range(k)))").match(inner[0].iter) is not None and eqv(inner[0].target, "(i, inds)")
    ctx.ob("PAIR.tree.tiling", rd, "each level: for i, inds in enumerate(partition_all(split_every, range(k)))", ok, "" if ok else "a level does not tile the previous level's outputs: partial results are dropped or reused")
    if inner:
        st = [n_ for n_ in walk_no_nested(inner[0]) if isinstance(n_, ast.Assign) and isinstance(n_.targets[0], ast.Subscript)]
        ok = len(st) == 1 and Pat("(empty_safe_aggregate, aggregate, [(b, j) for j in inds], False)").match(st[0].value) is not None and eqv(st[0].targets[0], "dsk[c, i]")
        ctx.ob("PAIR.tree.level", inner[0], "dsk[(c, i)] = (empty_safe_aggregate, aggregate, [(b, j) for j in inds], False)", ok)
        ok = bool(find("k = i + 1", loops[0])) and bool(find("b = c", loops[0])) and bool(find("c = fmt + str(depth)", loops[0])) and any(isinstance(x, ast.AugAssign) and eqv(x.target, "depth") for x in ast.walk(loops[0]))
        ctx.ob("PAIR.tree.advance", loops[0], "k = i + 1; b = c; depth += 1 (next level reads this level's outputs)", ok)
    fin = [n_ for n_ in walk_no_nested(rd) if isinstance(n_, ast.Assign) and eqv(n_.targets[0], "dsk[fmt, 0]")]
    ok = len(fin) == 1 and Pat("(empty_safe_aggregate, aggregate, [(b, j) for j in range(k)], True)").match(fin[0].value) is not None
    ctx.ob("PAIR.tree.root", rd, "root aggregates all k outputs of the last level", ok)
    ok = bool(find("k = self.npartitions", rd)) and bool(find("b = a", rd))
    ctx.ob("PAIR.tree.init", rd, "the first level reads the per-partition results", ok)
    ok = bool(find("split_every = M_v", rd)) or True
    esa = mod.func("empty_safe_aggregate")
    ok = bool(find("parts2 = (p for p in parts if p is not no_result)", esa)) and (all(Pat("empty_safe_apply(func, parts2, is_last)").match(r.value) is not None for r in returns(esa)) and bool(returns(esa)))
    ctx.ob("PAIR.tree.empty-safe", esa, "empty partitions are skipped, everything else is aggregated", ok)
    # ---------------- foldby: binop folds elements into per-key totals; totals are merged with combine
    fb = model.klass(BAG, "Bag").own_methods["foldby"]
    tuples = [t for t in ast.walk(fb) if isinstance(t, ast.Tuple) and t.elts and isinstance(t.elts[0], ast.Name)]
    mw = [t for t in tuples if t.elts[0].id == "merge_with"]
    rb_key = [t for t in tuples if t.elts[0].id == "reduceby" and len(t.elts) > 2 and eqv(t.elts[1], "key")]
    rb_lvl = [t for t in tuples if t.elts[0].id == "reduceby" and len(t.elts) > 2 and eqv(t.elts[1], "0")]
    ctx.count("foldby_merge_sites", len(mw) + len(rb_lvl))
    ctx.floor("foldby_merge_sites", 4, "merge_with / reduceby(0, ...) task templates in Bag.foldby")
    for t in mw:
        ok = eqv(t.elts[1], "(partial, reduce, combine)")
        ctx.ob("ALG.foldby.levels", t, "partial totals of a key are merged with `combine`", ok, "" if ok else f"merged with {unparse(t.elts[1])}: binop folds an ELEMENT into a total; applied to two totals it gives wrong per-key results whenever combine differs from binop")
    for t in rb_lvl:
        ok = eqv(t.elts[2], "combine2")
        ctx.ob("ALG.foldby.levels", t, "with combine_initial: totals are merged with combine2 = foldby_combine2(combine)", ok)
    for t in rb_key:
        ok = eqv(t.elts[2], "binop")
        ctx.ob("ALG.foldby.leaves", t, "per partition: reduceby(key, binop, partition[, initial])", ok)
    ok = bool(find("combine2 = partial(chunk.foldby_combine2, combine)", fb)) and any(eqv(n_.test, "combine is None") and eqv(n_.body[0], "combine = binop") for n_ in walk_no_nested(fb) if isinstance(n_, ast.If))
    ctx.ob("ALG.foldby.default-combine", fb, "combine defaults to binop only when it is None; combine2 wraps combine", ok)
    # ---------------- groupby on disk: the per-block buffer is flushed every block, so it must be fresh every block
    pt = mod.func("partition")
    loops_ = [l for l in walk_no_nested(pt) if isinstance(l, ast.For)]
    flush = [c for c in calls(pt, "append") if eqv(c.func.value, "p")]
    ok = len(flush) == 1 and isinstance(flush[0].args[0], ast.Name)
    if ok:
        buf = flush[0].args[0].id
        host = [l for l in loops_ if in_subtree(flush[0], l) and enclosing_stmt(flush[0]) in l.body]
        inits = [a for a in walk_no_nested(pt) if isinstance(a, ast.Assign) and unparse(a.targets[0]) == buf]
        ok = bool(host) and len(inits) == 1 and inits[0] in host[0].body and inits[0].lineno < flush[0].lineno
    ctx.ob("PAIR.flush-fresh", pt, "partition(): the buffer appended to the on-disk store each block is created inside that block's iteration", ok, "" if ok else "the buffer outlives the iteration: every later block re-appends the earlier blocks, groups get duplicated elements")
    # ---------------- repartition(npartitions=) : the boundaries cover every input partition
    rfb = mod.func("_repartition_from_boundaries")
    ok = any(isinstance(n, ast.If) and eqv(n.test, "new_partitions_boundaries[0] > 0") and "insert(0, 0)" in unparse(n) for n in walk_no_nested(rfb)) and any(isinstance(n, ast.If) and eqv(n.test, "new_partitions_boundaries[-1] < bag.npartitions") and "append(bag.npartitions)" in unparse(n) for n in walk_no_nested(rfb))
    ctx.ob("ABS.repartition.boundaries-cover", rfb, "boundaries are made to start at 0 and to end at bag.npartitions", ok, "" if ok else "float rounding of new*(old/new) can stop one short: the last input partition is silently dropped")
    ok = bool(find("num_new_partitions = len(new_partitions_boundaries) - 1", rfb))
    ctx.ob("ABS.repartition.count", rfb, "one output partition per consecutive boundary pair", ok)
    # ---------------- foldby with combine_initial: partial results are combined LEFT to RIGHT (accumulator first)
    fc2 = ctx.model.module("dask/bag/chunk.py").func("foldby_combine2")
    ok = (all(eqv(r.value, "combine(acc, x[1])") for r in returns(fc2)) and bool(returns(fc2)))
    ctx.ob("ARGPOS.foldby-combine.order", fc2, "foldby_combine2(combine, acc, x) = combine(acc, x[1])", ok, "" if ok else "partials are merged in reversed partition order: wrong for non-commutative combine functions")
    # ---------------- lazify: reify of a fused inner node is stripped only if that node is consumed ONCE
    lt = ctx.model.module("dask/bag/core.py").func("lazify_task")
    refs = find("refs = _count_references(subgraph.values())", lt)
    inner = [d_ for d_ in ast.walk(lt) if isinstance(d_, ast.DictComp) and "subgraph.items()" in unparse(d_)]
    ok = len(refs) == 1 and len(inner) == 1 and eqv(inner[0].value, "lazify_task(v, refs.get(k, 0) > 1)") and dominates(lt, refs[0][0], enclosing_stmt(inner[0]) if "enclosing_stmt" in globals() else refs[0][0])
    ctx.ob("EFFECT.lazify.single-consumer", lt, "inside a fused subgraph reify() is kept on nodes referenced more than once (lazify_task(v, refs[k] > 1))", ok, "" if ok else "a lazy iterator shared by two arguments is consumed alternately: zip(b, b) / b.map(f, b) pair consecutive elements and drop half of the data")
    cr = ctx.model.module("dask/bag/core.py").func("_count_references")
    ok = bool(find("counts[o.key] += 1", cr)) and any(isinstance(n, ast.If) and eqv(n.test, "isinstance(o, TaskRef)") for n in ast.walk(cr)) and bool(find("stack.extend(o.args)", cr))
    ctx.ob("EFFECT.lazify.count-multiplicity", cr, "_count_references counts every TaskRef occurrence (with multiplicity), descending through task arguments", ok, "" if ok else "counting distinct dependencies says 1 for b.map(f, b): the shared node is lazified again")
    # ---------------- round 4b (C48-m7): Bag.var -- ddof rescales the WHOLE population variance
    from ..lib import eqv as _e4
    va4 = ctx.model.module("dask/bag/chunk.py").func("var_aggregate")
    rets4 = [r for r in ast.walk(va4) if isinstance(r, ast.Return)]
    ok = len(rets4) == 1
    if ok:
        rv4 = rets4[0].value
        m4 = None
        for pat4 in ("M_v * n / (n - ddof)", "M_v * (n / (n - ddof))", "n / (n - ddof) * M_v", "n * M_v / (n - ddof)"):
            m4 = Pat(pat4).match(rv4)
            if m4 is not None:
                break
        ok = m4 is not None
        if ok:
            v4 = m4["M_v"]
            if isinstance(v4, ast.Name):
                d4 = [a for a in ast.walk(va4) if isinstance(a, ast.Assign) and _e4(a.targets[0], v4.id)]
                v4 = d4[0].value if len(d4) == 1 else None
            ok = v4 is not None and any(_e4(v4, t) for t in ("x2 / n - (x / n) ** 2", "x2 / n - x / n * (x / n)", "x2 / n - x * x / (n * n)", "x2 / n - x ** 2 / n ** 2"))
        else:
            ok = any(_e4(rv4, t) for t in ("(x2 - x * x / n) / (n - ddof)", "(x2 - x ** 2 / n) / (n - ddof)", "(x2 - x / n * x) / (n - ddof)"))
    ctx.ob("ALG.var.ddof-rescale", rets4[0] if rets4 else va4, "var_aggregate returns (x2/n - (x/n)**2) * n/(n - ddof)", ok, "" if ok else "ddof applied to the sum of squares only: Bag.var/std are wrong for every ddof != 0")


VARIANTS = [
    (BAG, "                        (partial, reduce, combine),\n                        [(b, j) for j in inds],", "                        (partial, reduce, binop),\n                        [(b, j) for j in inds],", "ALG.foldby.levels"),
    (BAG, "    for block in partition_all(nelements, sequence):\n        d = groupby(grouper, block)\n        d2 = defaultdict(list)\n", "    d2 = defaultdict(list)\n    for block in partition_all(nelements, sequence):\n        d = groupby(grouper, block)\n", "PAIR.flush-fresh"),
    (BAG, "        return self.reduction(count, sum, split_every=split_every)", "        return self.reduction(count, max, split_every=split_every)", "ALG.reductions"),
    (BAG, "        return self.reduction(min, min, split_every=split_every)", "        return self.reduction(min, max, split_every=split_every)", "ALG.reductions"),
    (BAG, "        return self.reduction(any, any, split_every=split_every)", "        return self.reduction(any, all, split_every=split_every)", "ALG.reductions"),
    (BAG, "                    [(b, j) for j in inds],", "                    [(a, j) for j in inds],", "PAIR.tree.level"),
    (BAG, "            k = i + 1\n            b = c", "            k = i\n            b = c", "PAIR.tree.advance"),
    (BAG, "            [(b, j) for j in range(k)],\n            True,", "            [(b, j) for j in range(k - 1)],\n            True,", "PAIR.tree.root"),
    (BAG, "    parts2 = (p for p in parts if p is not no_result)", "    parts2 = (p for p in parts if p)", "PAIR.tree.empty-safe"),
]


def selftest(ctx):
    from ..variants import selftest as st

    return st(ctx, "C48", VARIANTS)
