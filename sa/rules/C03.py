"""C03 -- intermediate results are never released early and never leaked.

Decided:
 OWN.cache-delete   entries are deleted from state["cache"] only in release_data, which is
                    called only from finish_task
 DOM.release.*      every release is dominated by "not a requested result" and, when the data
                    still has registered consumers, by "the last consumer just finished"
 PAIR.edges         the three views of one dependency edge are updated together
 PAIR.release-data  release_data records the key as released, drops its consumer entry and
                    deletes the cached value
"""
from __future__ import annotations

import ast

from ..lib import *
from . import _sched

EXPLANATION = (
    "Ownership and dominance rules over dask/local.py: who deletes from the result cache, and under "
    "which dominating guards (not requested; last waiting consumer removed) a dependency is released; "
    "plus pairing of the dependency/dependent/waiting_data updates for one edge.  The global claim that "
    "everything else has been released when the scheduler returns is NOT decided."
)
ASSUMPTIONS = ["state['dependencies'][key] lists exactly the data a task consumed (C02/C01 pairing rules)"]
LOCAL = "dask/local.py"


def simple_scheduler_release(ctx):
    """The single-threaded twin of the local scheduler (dask.core.get -> _task_spec.execute_graph) releases by
    reference count.  ABS.refcount.*: counted once per consumer, decremented once per consumer, released exactly
    at zero and never when requested; DELEG.core-get.keys: every requested key reaches execute_graph."""
    ts = ctx.model.module("dask/_task_spec.py")
    eg = ts.func("execute_graph")
    inc = find("refcount[val] += 1", eg)
    ok = len(inc) == 1
    if ok:
        loops = enclosing_loops(inc[0][0])
        facts = cfg_of(eg).facts(inc[0][0])
        ok = len(loops) == 2 and eqv(loops[0].iter, "vals") and eqv(loops[1].iter, "DependenciesMapping(dsk).values()") and not facts
    ctx.ob("ABS.refcount.count", eg, "refcount[val] += 1 for every dependency of every node, unconditionally (also dependencies supplied through cache=)", ok, "" if ok else "dependencies that are not counted reach zero (or below) after their first consumer and are deleted while other consumers still need them")
    dec = find("refcount[dep] -= 1", eg)
    rel = find("del cache[dep]", eg)
    ok = len(dec) == 1 and len(rel) == 1 and dominates(eg, dec[0][0], rel[0][0])
    if ok:
        guard = getattr(rel[0][0], "_parent", None)
        ok = isinstance(guard, ast.If) and eqv(guard.test, "refcount[dep] == 0 and keys and (dep not in keys)") and eqv(enclosing_loops(dec[0][0])[0].iter, "node.dependencies")
    ctx.ob("ABS.refcount.release", eg, "after node ran: for dep in node.dependencies: refcount[dep] -= 1; del cache[dep] iff refcount[dep] == 0 and dep is not requested", ok, "" if ok else "a result is released while consumers remain (or a requested key is released): a later task finds its input gone")
    cg = ctx.model.module("dask/core.py").func("get")
    eg_calls = [c for c in calls(cg, "execute_graph")]
    ok = len(eg_calls) == 1 and kwarg(eg_calls[0], "keys") is not None and eqv(kwarg(eg_calls[0], "keys"), "set(flatten([out]))")
    chk = [l for l in walk_no_nested(cg) if isinstance(l, ast.For) and any(isinstance(n, ast.Raise) for n in ast.walk(l))]
    okv = len(chk) == 1 and eqv(chk[0].iter, "flatten([out])")
    ctx.ob("DELEG.core-get.validate", cg, "core.get validates exactly the keys it will request: for k in flatten([out])", okv, "" if okv else "flatten(out) takes a single tuple key apart: get(dsk, ('a', 0)) raises KeyError although the key exists (other schedulers accept it)")
    ctx.ob("DELEG.core-get.keys", cg, "core.get passes keys=set(flatten([out])): a fresh set of ALL requested keys", ok, "" if ok else "execute_graph receives an empty/partial key set (e.g. an exhausted generator): `keys` falsy disables releasing altogether, a partial set releases requested results")


def check(ctx):
    model = ctx.model
    mod = model.module(LOCAL)
    # --- who deletes from the cache
    nsites = 0
    for rel in model.package_files("dask"):
        src = model.read(rel)
        if "cache" not in src or "state" not in src:
            continue
        for f, n, fld, how in _sched.state_mutations(model, rel):
            if fld != "cache" or not how.startswith("delete") and how not in ("pop", "popitem", "clear"):
                continue
            nsites += 1
            ok = rel == LOCAL and f.name == "release_data"
            ctx.ob("OWN.cache-delete", n, f"cache entry removed ({how}) in {f.name}", ok, "" if ok else "only release_data may remove results from the cache")
    ctx.count("cache_delete_sites", nsites)
    ctx.floor("cache_delete_sites", 1)
    # --- who calls release_data
    ncalls = 0
    for rel in model.package_files("dask"):
        src = model.read(rel)
        if "release_data" not in src:
            continue
        m = model.module(rel)
        for qn, f in m.functions():
            for c in calls(f, "release_data", nested=False):
                ncalls += 1
                ok = rel == LOCAL and f.name == "finish_task"
                ctx.ob("OWN.release-caller", c, f"release_data called from {qn}", ok, "" if ok else "release_data must only be reachable from finish_task")
    ctx.count("release_data_call_sites", ncalls)
    ctx.floor("release_data_call_sites", 2)
    ft = mod.func("finish_task")
    # the name release_data inside finish_task is the default-bound module function
    dflt = None
    a = ft.args
    names = [x.arg for x in a.args]
    if "release_data" in names:
        i = names.index("release_data") - (len(names) - len(a.defaults))
        if i >= 0:
            dflt = a.defaults[i]
    ok = dflt is None or eqv(dflt, "release_data")
    ctx.ob("DELEG.release-default", ft, "finish_task(..., release_data=release_data)", ok, "" if ok else f"default is {unparse(dflt)}")
    # --- guards
    for c in calls(ft, "release_data", nested=False):
        dep = c.args[0] if c.args else None
        if dep is None:
            ctx.ob("DOM.release.not-requested", c, "release_data(<dep>, ...)", None, "no positional key")
            continue
        d = unparse(dep)
        facts = inline_facts(ft, c)
        ok1 = has_fact(facts, "M_d in results", False, {"M_d": dep}) is not None
        ctx.ob("DOM.release.not-requested", c, f"release_data({d}) only if {d} not in results", ok1, "" if ok1 else "guards: " + "; ".join(fact_strs(facts)))
        in_wd = has_fact(facts, "M_d in M_s['waiting_data']", True, {"M_d": dep}) is not None
        not_in_wd = has_fact(facts, "M_d in M_s['waiting_data']", False, {"M_d": dep}) is not None
        if in_wd:
            empty = has_fact(facts, "M_s['waiting_data'][M_d]", False, {"M_d": dep}) is not None
            rem = any(
                Pat("M_s['waiting_data'][M_d]").match(inline(rb["M_x"], r, ft), {"M_d": dep}) is not None
                and is_unmodified_param(ft, r, rb["M_k"], "key")
                and dominates(ft, r, c)
                for r, rb in find("M_x.remove(M_k)", ft, nested=False)
            )
            ctx.ob(
                "DOM.release.last-consumer",
                c,
                f"state['waiting_data'][{d}].remove(key); release only if it became empty",
                empty and rem,
                "" if empty and rem else f"emptiness-guard={empty} removal-of-finished-key={rem}",
            )
        elif not_in_wd:
            ctx.ob("DOM.release.last-consumer", c, f"{d} has no registered consumers", True, "no waiting_data entry", nontrivial=False)
        else:
            ctx.ob("DOM.release.last-consumer", c, f"release_data({d})", False, "release is not conditioned on the consumers of the data; guards: " + "; ".join(fact_strs(facts)))
        loops = [l for l in enclosing_loops(c) if isinstance(l, ast.For) and same(l.target, dep)]
        ok3 = bool(loops) and any(is_unmodified_param(ft, loops[0], bb["M_k"], "key") for _, bb in find("M_s['dependencies'][M_k]", loops[0].iter))
        ctx.ob("DOM.release.ranges-over-dependencies", c, f"for {d} in state['dependencies'][key]", ok3)
        b = bind_call(c, mod.func("release_data"))
        ok4 = unparse(b.get("state")) == "state"
        ctx.ob("DELEG.release-args", c, "release_data(dep, state, delete=delete)", ok4)
    # --- edges
    ss = mod.func("start_state_from_dask")
    trip = []
    for pat, nm in (("dependencies[M_a].add(M_b)", "dependencies"), ("dependents[M_a].add(M_b)", "dependents"), ("waiting_data[M_a].add(M_b)", "waiting_data")):
        r = find(pat, ss, nested=False)
        if len(r) != 1:
            raise AnchorMissing(f"start_state_from_dask: expected one {nm}[..].add(..), found {len(r)}")
        trip.append(r[0])
    (n1, b1), (n2, b2), (n3, b3) = trip
    ok = (
        control_equivalent(ss, n1, n2)
        and control_equivalent(ss, n2, n3)
        and same(b1["M_a"], b2["M_b"])
        and same(b1["M_b"], b2["M_a"])
        and same(b3["M_a"], b2["M_a"])
        and same(b3["M_b"], b2["M_b"])
    )
    ctx.ob("PAIR.edges", n1, "dependencies[key].add(dep); dependents[dep].add(key); waiting_data[dep].add(key)", ok, "" if ok else "the three views of a dependency edge are not updated together / consistently")
    loops = [l for l in enclosing_loops(n1) if isinstance(l, ast.For)]
    ok = bool(loops) and same(loops[0].target, b1["M_b"]) and Pat("M_t.dependencies").match(inline(loops[0].iter, loops[0], ss)) is not None
    ctx.ob("PAIR.edges.over-task-dependencies", n1, "for dep in task.dependencies", ok)
    # --- release_data itself
    rd = mod.func("release_data")
    g = cfg_of(rd)
    rel = find("M_s['released'].add(key)", rd, nested=False)
    ok = bool(rel) and g.postdominates(g.node_of(rel[0][0]), g.entry)
    ctx.ob("PAIR.release-data.released", rd, "state['released'].add(key) on every path", ok)
    dels = find("del M_s['cache'][key]", rd, nested=False)
    ok = False
    if dels:
        facts = inline_facts(rd, dels[0][0])
        others = [f_ for f_ in facts if not (eqv(f_[0], "delete") and f_[1] is True)]
        ok = not others
    ctx.ob("PAIR.release-data.cache", rd, "if delete: del state['cache'][key]", ok, "" if ok else "cached value is not (unconditionally under `delete`) removed")
    wd = find("del M_s['waiting_data'][key]", rd, nested=False)
    ok = False
    if wd:
        facts = inline_facts(rd, wd[0][0])
        ok = has_fact(facts, "key in M_s['waiting_data']", True) is not None and len(facts) == 1
    ctx.ob("PAIR.release-data.waiting-data", rd, "if key in waiting_data: del waiting_data[key]", ok)
    # ---------------- the protected set: exactly the requested keys, for the whole run
    ga = mod.func("get_async")
    defs = [a for a in walk_no_nested(ga) if isinstance(a, (ast.Assign, ast.AugAssign, ast.AnnAssign)) and any(isinstance(t, ast.Name) and t.id == "results" for t in (a.targets if isinstance(a, ast.Assign) else [a.target]))]
    muts = [c for c in ast.walk(ga) if isinstance(c, ast.Call) and isinstance(c.func, ast.Attribute) and eqv(c.func.value, "results") and c.func.attr in ("difference_update", "discard", "remove", "pop", "clear", "intersection_update", "symmetric_difference_update", "update", "add")]
    ok = len(defs) == 1 and isinstance(defs[0], ast.Assign) and eqv(defs[0].value, "set(result_flat)") and not muts
    ctx.ob("OWN.protected-set", ga, "results = set(result_flat), assigned once and never modified", ok, "" if ok else f"the protected set is changed after it was built ({[unparse(m)[:50] for m in muts] or [unparse(d)[:50] for d in defs]}): a requested key can be released before the scheduler returns it")
    rf = find("result_flat = M_v", ga)
    ok = len(rf) >= 1 and all("result" in unparse(b["M_v"]) for _, b in rf)
    ctx.ob("OWN.protected-set.source", ga, "result_flat is the flattened request", ok)
    ft = [c for c in calls(ga, "finish_task")]
    ok = len(ft) == 1 and len(ft[0].args) >= 4 and eqv(ft[0].args[3], "results")
    ctx.ob("OWN.protected-set.use", ga, "finish_task receives that set as its `results`", ok)
    simple_scheduler_release(ctx)
    # ---------------- round 4b (C03-m7): the diagnostics callbacks only read the scheduler state
    from ..lib import eqv as _e4
    MUT4 = {"add", "remove", "discard", "pop", "clear", "update", "intersection_update", "difference_update", "symmetric_difference_update", "append", "extend", "insert", "sort", "setdefault", "popitem", "reverse"}
    n_cb4 = 0
    for rel4 in ("dask/diagnostics/profile.py", "dask/diagnostics/progress.py", "dask/cache.py"):
        m4 = ctx.model.module(rel4)
        for cls4 in [n for n in m4.tree.body if isinstance(n, ast.ClassDef)]:
            for fn4 in [n for n in cls4.body if isinstance(n, ast.FunctionDef) and n.name in ("_start_state", "_pretask", "_posttask", "_finish", "_start")]:
                if "state" not in [a.arg for a in fn4.args.args]:
                    continue
                n_cb4 += 1
                alias4 = {"state"}
                for a4 in ast.walk(fn4):
                    if isinstance(a4, ast.Assign) and len(a4.targets) == 1 and isinstance(a4.targets[0], ast.Name) and isinstance(a4.value, ast.Subscript) and isinstance(a4.value.value, ast.Name) and a4.value.value.id == "state":
                        alias4.add(a4.targets[0].id)

                def _is_state4(e):
                    if isinstance(e, ast.Name):
                        return e.id in alias4
                    if isinstance(e, ast.Subscript):
                        return _is_state4(e.value)
                    return False

                bad4 = []
                for n4 in ast.walk(fn4):
                    if isinstance(n4, ast.Call) and isinstance(n4.func, ast.Attribute) and n4.func.attr in MUT4 and _is_state4(n4.func.value):
                        bad4.append(n4)
                    elif isinstance(n4, ast.AugAssign) and _is_state4(n4.target):
                        bad4.append(n4)
                    elif isinstance(n4, (ast.Assign, ast.Delete)):
                        for t4 in n4.targets:
                            if isinstance(t4, ast.Subscript) and _is_state4(t4.value):
                                bad4.append(n4)
                ok = not bad4
                ctx.ob("EFFECT.callbacks.state-readonly", bad4[0] if bad4 else fn4, f"{rel4}: {cls4.name}.{fn4.name} never mutates the scheduler state it is shown", ok, "" if ok else f"`{unparse(bad4[0])}` edits the scheduler's own bookkeeping (state['released'] etc.) from inside a callback: what the scheduler later reports as released/cached no longer matches what it did")
    ctx.count("callback_hooks_with_state", n_cb4)
    ctx.floor("callback_hooks_with_state", 4)


VARIANTS = [
    (LOCAL, "    results = set(result_flat)\n", "    results = set(result_flat)\n    if cache:\n        results.difference_update(cache)\n", "OWN.protected-set"),
    (LOCAL, "            if not s and dep not in results:", "            if not s:", "DOM.release.not-requested"),
    (LOCAL, "            if not s and dep not in results:", "            if dep not in results:", "DOM.release.last-consumer"),
    (LOCAL, "        elif delete and dep not in results:", "        elif delete:", "DOM.release.not-requested"),
    (LOCAL, '            s = state["waiting_data"][dep]\n            s.remove(key)\n', '            s = state["waiting_data"][dep]\n            s.discard(dep)\n', "DOM.release.last-consumer"),
    (LOCAL, "                waiting_data[dep].add(key)\n", "                waiting_data[key].add(dep)\n", "PAIR.edges"),
    (LOCAL, '    state["released"].add(key)\n', "    pass\n", "PAIR.release-data.released"),
    (LOCAL, '    for dep in state["dependencies"][key]:\n        if dep in state["waiting_data"]:', '    for dep in state["dependents"][key]:\n        if dep in state["waiting_data"]:', "DOM.release.ranges-over-dependencies"),
    (LOCAL, '    state["finished"].add(key)\n', '    state["finished"].add(key)\n    state["cache"].pop(key, None)\n', "OWN.cache-delete"),
    ("dask/cache.py", "        self.durations = dict()\n", "        self.durations = dict()\n        from dask.local import release_data\n        release_data(None, {})\n", "OWN.release-caller"),
]


def selftest(ctx):
    from ..variants import selftest as st

    return st(ctx, "C03", VARIANTS)
