"""C18 -- size and duration helpers round-trip and meet their documented bounds.

Decided:
 ABS.format-bytes.width   band table and threshold are folded from the source; for each band the
                          supremum quotient and the width of the formatted string are computed for
                          all n < 2**60 (documented bound: 10 characters)
 TAB.units                byte_sizes / timedelta_sizes are folded (incl. the derived lower/upper and
                          abbreviation entries); every documented spelling parses to the documented
                          multiplier and every unit format_bytes prints parses back to its band
 EXC.key-split-total      key_split: every raising operation sits inside the catch-all
 API.int-guard            int(part) is guarded by a predicate whose domain is within int()'s
 SIB.parse                parse_bytes and parse_timedelta agree on their shared steps
"""
from __future__ import annotations

import ast

from ..consteval import NotConstant, fold, fold_module_tables
from ..lib import *

EXPLANATION = (
    "Abstract interpretation over constants folded from dask/utils.py: the format_bytes band table gives, per "
    "band, the supremum of n/k below the next band (or 2**60) and hence the maximal output width; the unit "
    "tables are replayed statement by statement and compared with the documented spellings; key_split's body "
    "is checked to lie entirely inside its catch-all; int() guards are checked against int()'s domain; the "
    "near-clone parsers are compared step by step.  Floating-point rounding of parsed values is NOT decided."
)
ASSUMPTIONS = ["Python float formatting ('.2f')", "documented unit spellings as listed in the rule"]
UT = "dask/utils.py"
DOC_WIDTH = 10
DOC_LIMIT = 2**60

BYTE_DOC = {
    "kB": 10**3, "MB": 10**6, "GB": 10**9, "TB": 10**12, "PB": 10**15,
    "KiB": 2**10, "MiB": 2**20, "GiB": 2**30, "TiB": 2**40, "PiB": 2**50,
    "B": 1, "": 1, "k": 10**3, "M": 10**6, "G": 10**9, "T": 10**12, "P": 10**15,
    "Ki": 2**10, "Mi": 2**20, "Gi": 2**30, "Ti": 2**40, "Pi": 2**50,
    "kb": 10**3, "mb": 10**6, "KB": 10**3, "kib": 2**10,
}
TIME_DOC = {
    "s": 1, "ms": 1e-3, "us": 1e-6, "ns": 1e-9, "m": 60, "h": 3600, "d": 86400, "w": 604800,
    "second": 1, "seconds": 1, "minute": 60, "minutes": 60, "hour": 3600, "hours": 3600,
    "day": 86400, "days": 86400, "week": 604800, "weeks": 604800,
    "millisecond": 1e-3, "milliseconds": 1e-3, "microsecond": 1e-6, "microseconds": 1e-6,
    "nanosecond": 1e-9, "nanoseconds": 1e-9, "S": 1, "MS": 1e-3, "Seconds": 1, "HOURS": 3600,
}


def check(ctx):
    model = ctx.model
    mod = model.module(UT)
    _format_bytes(ctx, mod)
    _tables(ctx, mod)
    _key_split(ctx, mod)
    _int_guards(ctx, mod)
    # ---------------- parse_bytes: the unit is the maximal ALPHABETIC suffix; everything before it is the number
    pb_ = mod.func("parse_bytes")
    scan = [l for l in walk_no_nested(pb_) if isinstance(l, ast.For) and eqv(l.iter, "range(len(s) - 1, -1, -1)")]
    ok = len(scan) == 1 and any(isinstance(n, ast.If) and eqv(n.test, "not s[i].isalpha()") and any(isinstance(b_, ast.Break) for b_ in n.body) for n in scan[0].body) and bool(find("index = i + 1", pb_)) and bool(find("prefix = s[:index]", pb_)) and bool(find("suffix = s[index:]", pb_)) and bool(find("n = float(prefix)", pb_))
    ctx.ob("ALG.parse-bytes.split", pb_, "scan from the right to the last non-letter: number = s[:index] (anything float() accepts, e.g. 1e-3, 2.5E+2), unit = s[index:]", ok, "" if ok else "a hand-written number pattern accepts fewer spellings than float(): '1e-3 GB' or '2.5E+2 MiB' no longer parse")
    _siblings(ctx, mod)


def _format_bytes(ctx, mod):
    f = mod.func("format_bytes")
    loops = [l for l in walk_no_nested(f) if isinstance(l, ast.For)]
    if len(loops) != 1:
        raise AnchorMissing("format_bytes: band loop")
    lp = loops[0]
    try:
        bands = fold(lp.iter)
    except NotConstant as e:
        raise AnalysisError(f"format_bytes band table is not constant: {e}")
    ctx.count("format_bytes_bands", len(bands))
    ctx.floor("format_bytes_bands", 3)
    tnames = [unparse(e) for e in lp.target.elts]
    test = None
    ret = None
    for n in lp.body:
        if isinstance(n, ast.If):
            test = n.test
            ret = [r for r in n.body if isinstance(r, ast.Return)]
    m = Pat(f"n >= {tnames[1]} * M_c").match(test) if test is not None else None
    if m is None or not ret:
        raise AnalysisError("format_bytes: threshold test `n >= k * c` not recognised")
    thr = fold(m["M_c"])
    fmt = ret[0].value
    okf = eqv(fmt, "f'{n / k:.2f} {prefix}B'") and len([x for x in lp.body[-1].body if not isinstance(x, ast.Return)]) == 0 if isinstance(lp.body[-1], ast.If) else False
    ctx.ob("ALG.format-bytes.two-decimals", lp, "a band prints f'{n / k:.2f} {prefix}B': the quotient rounded to two decimals BY THE FORMATTER (carries into the integer part)", okf, "" if okf else "hand-made rounding of the fraction does not carry (2047 -> '1.100 kiB', which parses back as 1126) or prints more than 10 characters")
    ok = [b[1] for b in bands] == sorted((b[1] for b in bands), reverse=True)
    ctx.ob("ABS.format-bytes.order", lp, "bands are tried from the largest unit down", ok, "" if ok else "a smaller unit shadows a larger one")
    prev_lo = DOC_LIMIT
    for prefix, k in bands:
        lo = k * thr
        sup_n = prev_lo - 1 if prev_lo == DOC_LIMIT else prev_lo  # n < prev_lo
        # supremum of the formatted value: evaluate at the largest admissible n
        n_max = int(sup_n) if prev_lo == DOC_LIMIT else int(prev_lo) - (1 if float(int(prev_lo)) == prev_lo else 0)
        try:
            s = fold(fmt, {"n": n_max, tnames[0]: prefix, tnames[1]: k})
        except NotConstant as e:
            if not okf:
                return  # already reported: the format expression is not the expected one
            raise AnalysisError(f"format_bytes: output format not foldable: {e}")
        ok = len(s) <= DOC_WIDTH
        ctx.ob(
            "ABS.format-bytes.width",
            lp,
            f"band {prefix}B: n in [{lo:g}, {prev_lo:g}) formats to at most {DOC_WIDTH} characters",
            ok,
            f"max output {s!r} ({len(s)} chars) at n={n_max}" + ("" if ok else f": exceeds the documented {DOC_WIDTH} characters for n < 2**60"),
        )
        prev_lo = lo
    tail = [r for r in f.body if isinstance(r, ast.Return)]
    if tail:
        s = fold(tail[0].value, {"n": int(prev_lo) - (1 if float(int(prev_lo)) == prev_lo else 0)})
        ctx.ob("ABS.format-bytes.width", f, f"plain bytes below {prev_lo:g}", len(s) <= DOC_WIDTH, f"max output {s!r}")
    ctx._format_units = [(p + "B", k) for p, k in bands] + [("B", 1)]


def _tables(ctx, mod):
    env = fold_module_tables(mod, {"byte_sizes", "timedelta_sizes"})
    if "byte_sizes" not in env or "timedelta_sizes" not in env:
        raise AnalysisError(f"unit tables are not constant-foldable (got {sorted(env)})")
    bs, tds = env["byte_sizes"], env["timedelta_sizes"]
    ctx.count("byte_units", len(bs))
    ctx.count("time_units", len(tds))
    ctx.floor("byte_units", 10)
    ctx.floor("time_units", 16)
    pb = mod.func("parse_bytes")
    pt = mod.func("parse_timedelta")
    look_b = find("byte_sizes[suffix.lower()]", pb)
    look_t = find("timedelta_sizes[suffix.lower()]", pt)
    ctx.ob("TAB.units.lookup", pb, "parse_bytes looks up byte_sizes[suffix.lower()]", bool(look_b))
    ctx.ob("TAB.units.lookup", pt, "parse_timedelta looks up timedelta_sizes[suffix.lower()]", bool(look_t))
    bad = [(s, bs.get(s.lower()), v) for s, v in BYTE_DOC.items() if bs.get(s.lower()) != v]
    ctx.ob("TAB.units.bytes", f"{UT}::byte_sizes", f"{len(BYTE_DOC)} documented byte spellings map to their multipliers", not bad, "" if not bad else f"(spelling, table, documented): {bad[:4]}")
    bad = [(s, tds.get(s.lower()), v) for s, v in TIME_DOC.items() if tds.get(s.lower()) is None or abs(tds.get(s.lower()) - v) > 1e-18]
    ctx.ob("TAB.units.time", f"{UT}::timedelta_sizes", f"{len(TIME_DOC)} documented duration spellings map to their multipliers", not bad, "" if not bad else f"(spelling, table, documented): {bad[:4]}")
    # every unit format_bytes can print parses back to its band
    bad = [(u, bs.get(u.lower()), k) for u, k in getattr(ctx, "_format_units", []) if bs.get(u.lower()) != k]
    ctx.ob("TAB.units.format-parse", f"{UT}::byte_sizes", "every unit printed by format_bytes parses back to the same multiplier", not bad, "" if not bad else str(bad[:3]))
    # no two spellings that differ only by case carry different multipliers (lookup lower-cases)
    raw = mod.toplevel_assign("byte_sizes")
    # result = n * multiplier, truncated to int for bytes
    ok = any(Pat("int(result)").match(r.value) is not None for r in returns(pb)) and bool(find("result = n * multiplier", pb))
    ctx.ob("TAB.units.bytes-result", pb, "parse_bytes returns int(n * multiplier)", ok)
    ok = bool(find("result = n * multiplier", pt)) and bool(find("n = float(prefix)", pt))
    ctx.ob("TAB.units.time-result", pt, "parse_timedelta returns n * multiplier", ok)


_RAISING = (ast.Call, ast.Subscript, ast.Attribute, ast.BinOp)


def _key_split(ctx, mod):
    f = mod.func("key_split")
    body = [s for s in f.body if not (isinstance(s, ast.Expr) and isinstance(s.value, ast.Constant))]
    tries = [s for s in body if isinstance(s, ast.Try)]
    outside = [s for s in body if not isinstance(s, ast.Try)]
    raising = []
    for s in outside:
        for n in ast.walk(s):
            if isinstance(n, _RAISING) and not (isinstance(n, ast.Call) and call_name(n) == "type"):
                raising.append(unparse(n)[:40])
    ok = len(tries) == 1 and not raising
    ctx.ob("EXC.key-split-total.inside-try", f, "every operation that can raise lies inside the try", ok, "" if ok else f"raising operations outside the catch-all: {sorted(set(raising))[:4]}")
    ok = False
    if tries:
        hs = [h for h in tries[0].handlers if h.type is None or unparse(h.type) in ("Exception", "BaseException")]
        ok = bool(hs) and all(any(isinstance(r, ast.Return) and isinstance(const(r.value), str) for r in h.body) for h in hs) and not tries[0].finalbody
        # handlers themselves must not raise
        for h in hs:
            if any(isinstance(n, (ast.Raise,)) for n in ast.walk(h)):
                ok = False
    ctx.ob("EXC.key-split-total.catch-all", f, "except Exception: return '<constant>'", ok)
    rets = [r for r in ast.walk(f) if isinstance(r, ast.Return)]
    ok = all(r.value is not None for r in rets) and bool(rets)
    # recursion arguments are conversions of the same key
    ctx.ob("EXC.key-split-total.returns", f, "every path returns a value", ok, nontrivial=False)
    decs = [unparse(d) for d in f.decorator_list]
    ctx.ob("EXC.key-split-total.cache", f, f"decorators {decs}", True, nontrivial=False)


def _int_guards(ctx, mod):
    f = mod.func("natural_sort_key")
    convs = [c for c in calls(f, "int")]
    ctx.count("int_conversions", len(convs))
    ctx.floor("int_conversions", 1)
    for c in convs:
        arg = c.args[0]
        guard = None
        p = getattr(c, "_parent", None)
        if isinstance(p, ast.IfExp) and p.body is c:
            guard = p.test
        ok = guard is not None and Pat("M_x.isdecimal()").match(guard, {"M_x": arg}) is not None
        detail = ""
        if guard is not None and Pat("M_x.isdigit()").match(guard, {"M_x": arg}) is not None:
            detail = "str.isdigit() accepts characters (e.g. superscripts) that int() rejects"
        elif guard is None:
            detail = "int() conversion without a guard"
        ctx.ob("API.int-guard", c, f"int({unparse(arg)}) guarded by {unparse(arg)}.isdecimal()", ok, detail)


def _steps(f):
    out = {}
    for n in walk_no_nested(f):
        if isinstance(n, ast.Assign) and eqv(n.targets[0], "s") and "replace" in unparse(n.value):
            out["strip-blanks"] = unparse(n.value)
        if isinstance(n, ast.If) and any(isinstance(x, ast.Assign) and unparse(x.value).startswith("f'1{s}'") for x in n.body):
            out["implicit-one"] = dump(n.test)
            out["implicit-one-src"] = unparse(n.test)
        if isinstance(n, ast.For) and eqv(n.target, "i"):
            out["scan"] = dump(n)
        if isinstance(n, ast.Assign) and eqv(n.targets[0], "index"):
            out["index"] = unparse(n.value)
        if isinstance(n, ast.Assign) and eqv(n.targets[0], "prefix"):
            out["prefix"] = unparse(n.value)
        if isinstance(n, ast.Assign) and eqv(n.targets[0], "n") and "float" in unparse(n.value):
            out["number"] = unparse(n.value)
    return out


def _siblings(ctx, mod):
    a = _steps(mod.func("parse_bytes"))
    b = _steps(mod.func("parse_timedelta"))
    keys = ["strip-blanks", "implicit-one", "scan", "index", "prefix", "number"]
    missing = [k for k in keys if k not in a or k not in b]
    if missing:
        raise AnalysisError(f"parse_bytes/parse_timedelta: shared steps not recognised: {missing}")
    for k in keys:
        ok = a[k] == b[k]
        d = ""
        if not ok:
            d = f"parse_bytes: {a.get(k + '-src', a[k])[:70]} | parse_timedelta: {b.get(k + '-src', b[k])[:70]}"
        ctx.ob("SIB.parse", f"{UT}::parse_timedelta", f"step `{k}` agrees between parse_bytes and parse_timedelta", ok, d)


VARIANTS = [
    (UT, "        if n >= k * 0.9:", "        if n >= k * 1.0:", "ABS.format-bytes.width"),
    (UT, '    "GiB": 2**30,', '    "GiB": 10**9,', "TAB.units"),
    (UT, "byte_sizes = {k.lower(): v for k, v in byte_sizes.items()}", "byte_sizes = {k.upper(): v for k, v in byte_sizes.items()}", "TAB.units"),
    (UT, '    "h": 3600,', '    "h": 360,', "TAB.units.time"),
    (UT, "    try:\n        # If we convert the key, recurse to utilize LRU cache better\n        if type(s) is bytes:\n            return key_split(s.decode())\n        if type(s) is tuple:\n            return key_split(s[0])\n", "    if type(s) is bytes:\n        return key_split(s.decode())\n    if type(s) is tuple:\n        return key_split(s[0])\n    try:\n", "EXC.key-split-total.inside-try"),
    (UT, "int(part) if part.isdecimal() else part", "int(part) if part.isdigit() else part", "API.int-guard"),
    (UT, '    s = s.replace(" ", "")\n    if not any(char.isdigit() for char in s):\n        s = f"1{s}"\n\n    for i in range(len(s) - 1, -1, -1):\n        if not s[i].isalpha():\n            break\n    index = i + 1\n\n    prefix = s[:index]\n    suffix = s[index:] or default', '    s = s.replace(" ", "")\n    if not s[0].isdigit():\n        s = f"1{s}"\n\n    for i in range(len(s) - 1, -1, -1):\n        if not s[i].isalpha():\n            break\n    index = i + 1\n\n    prefix = s[:index]\n    suffix = s[index:] or default', "SIB.parse"),
    (UT, '        ("Pi", 2**50),\n        ("Ti", 2**40),', '        ("Ti", 2**40),\n        ("Pi", 2**50),', "ABS.format-bytes"),
    (UT, '    except Exception:\n        return "Other"\n\n\ndef stringify', '    except KeyError:\n        return "Other"\n\n\ndef stringify', "EXC.key-split-total.catch-all"),
]


def selftest(ctx):
    from ..variants import selftest as st

    return st(ctx, "C18", VARIANTS)
