"""C14 -- compute, persist and optimize preserve structure (narrow).

Decided:
 TAB.containers      base.unpack_collections' container dispatch covers every container kind the
                     property lists (list, tuple, set, dict, OrderedDict, dataclass, namedtuple,
                     iterator) and rebuilds each with its own type, elements in order
 SIB.containers      the sibling dispatch in delayed.unpack_collections covers the shared kinds
 PAIR.repack-index   the repack index of a collection is taken before, and on the same path as, its
                     insertion into the collections list, once per distinct collection
 DELEG.repack        compute/persist return repack(<results in collection order>)
 REBUILD.metadata    Delayed/Array/Bag._rebuild (used by persist and optimize) forward the metadata that is not
                     derivable from the graph (length; chunks, dtype, meta; npartitions)
 ORD.sequence-positions  _HLGExprSequence._tune_down regroups operands by optimizer; the original output
                     positions are recorded and restored by __dask_keys__ (compute/persist pair keys with
                     collections by position)
Not decided: values; scheduler independence.
"""
from __future__ import annotations

import ast

from ..lib import *

EXPLANATION = (
    "Table/sibling rules over dask/base.py::unpack_collections and dask/delayed.py::unpack_collections: the "
    "container kinds traversed, the constructor used to rebuild each, and the pairing of the repack index "
    "with the insertion into the collections list; plus delegation of compute/persist to repack.  Values "
    "and scheduler independence are NOT decided."
)
ASSUMPTIONS = ["schedulers return results in the order of the requested keys (C01)"]
BASE = "dask/base.py"
DEL = "dask/delayed.py"


def check(ctx):
    model = ctx.model
    base = model.module(BASE)
    uc = base.func("unpack_collections")
    un = base.func("unpack_collections._unpack")
    # ---------------- dispatch kinds
    kinds = {}
    for n in ast.walk(un):
        if isinstance(n, ast.If):
            t = unparse(n.test)
            body = ast.Module(body=n.body, type_ignores=[])
            if t == "typ in (list, tuple, set)":
                ok = bool(find("tsk = Task(tok, typ, List(*[_unpack(i) for i in expr]))", body))
                kinds["list/tuple/set"] = (n, ok, "Task(tok, typ, List(*[_unpack(i) for i in expr]))")
            elif t == "typ in (dict, OrderedDict)":
                ok = bool(find("tsk = Task(tok, typ, Dict({_unpack(k): _unpack(v) for k, v in expr.items()}))", body))
                kinds["dict/OrderedDict"] = (n, ok, "Task(tok, typ, Dict({_unpack(k): _unpack(v) ...}))")
            elif t.startswith("dataclasses.is_dataclass(expr)"):
                ok = bool(find("tsk = Task(tok, typ, *[_unpack(getattr(expr, f.name)) for f in dataclasses.fields(expr)])", body)) and "not isinstance(expr, type)" in t
                kinds["dataclass"] = (n, ok, "Task(tok, typ, *[_unpack(getattr(expr, f.name)) for f in fields(expr)])")
            elif t == "is_namedtuple_instance(expr)":
                ok = bool(find("tsk = Task(tok, typ, *[_unpack(i) for i in expr])", body))
                kinds["namedtuple"] = (n, ok, "Task(tok, typ, *[_unpack(i) for i in expr])")
    it = find("typ = list if isinstance(expr, Iterator) else type(expr)", un)
    kinds["iterator"] = (it[0][0] if it else un, bool(it), "iterators are traversed like lists")
    want = ["list/tuple/set", "dict/OrderedDict", "dataclass", "namedtuple", "iterator"]
    for k in want:
        if k not in kinds:
            ctx.ob("TAB.containers", un, f"container kind {k} is traversed", False, "kind missing from the dispatch")
        else:
            n, ok, how = kinds[k]
            ctx.ob("TAB.containers", n, f"{k}: rebuilt as {how}", ok, "" if ok else "rebuilt differently: element order or container type is not preserved")
    ctx.count("container_kinds", len(kinds))
    ctx.floor("container_kinds", 5)
    other = [r for r in returns(un) if eqv(r.value, "expr")]
    ctx.ob("TAB.containers.other", un, "anything else is returned unchanged", len(other) == 1)
    nt = find("tsk = DataNode(None, expr)", un)
    ok = bool(nt) and has_fact(inline_facts(un, nt[0][0]), "traverse", False) is not None
    ctx.ob("TAB.containers.no-traverse", un, "traverse=False keeps containers opaque", ok)
    # ---------------- repack index
    apps = find("collections.append(expr)", un, nested=False)
    ctx.count("collection_append_sites", len(apps))
    ctx.floor("collection_append_sites", 1)
    for a, _ in apps:
        st = [n for n, b in find("repack_dsk[tok] = Task(tok, getitem, TaskRef(collections_token), len(collections))", un, nested=False)]
        ok = bool(st) and dominates(un, st[0], a) and control_equivalent(un, st[0], a)
        ctx.ob("PAIR.repack-index", a, "repack_dsk[tok] = Task(tok, getitem, TaskRef(collections_token), len(collections)); collections.append(expr)", ok, "" if ok else "index is not taken immediately before the insertion: results are handed to the wrong collection")
        facts = inline_facts(un, a)
        ok2 = has_fact(facts, "tok in repack_dsk", False) is not None and has_fact(facts, "is_dask_collection(expr)", True) is not None
        ctx.ob("PAIR.repack-once", a, "a collection is registered once (keyed by its token)", ok2)
        ok3 = bool(find("tok = tokenize(expr)", un))
        ctx.ob("PAIR.repack-token", a, "collections are identified by tokenize(expr)", ok3)
    top = find("repack_dsk[out] = Task(out, tuple, List(*[_unpack(i) for i in args]))", uc, nested=False)
    ctx.ob("TAB.top-level", uc, "the arguments themselves are rebuilt as a tuple, in order", bool(top))
    rp = base.func("unpack_collections.repack")
    ok = bool(find("dsk[collections_token] = DataNode(collections_token, results)", rp)) and (all(Pat("simple_get(dsk, out)").match(r.value) is not None for r in returns(rp)) and bool(returns(rp))) and bool(find("dsk = repack_dsk.copy()", rp))
    ctx.ob("DELEG.repack.function", rp, "repack(results) evaluates the repack graph on the results", ok)
    rs = returns(uc)
    ok = len(rs) == 1 and eqv(rs[0].value, "(collections2, repack)") and bool(find("collections2 = list(collections)", uc))
    ctx.ob("DELEG.repack.return", uc, "returns (collections in registration order, repack)", ok)
    # ---------------- compute / persist
    for fn in ("compute", "persist"):
        f = base.func(fn)
        un_ = find("collections, repack = unpack_collections(*args, traverse=traverse)", f, nested=False)
        ok = bool(un_)
        ctx.ob("DELEG.repack.unpack", f, f"{fn}: collections, repack = unpack_collections(*args, traverse=traverse)", ok)
        rets = [r for r in returns(f)]
        rr = [r for r in rets if isinstance(r.value, ast.Call) and call_name(r.value) == "repack"]
        ra = [r for r in rets if eqv(r.value, "args")]
        ok = bool(rr) and all(has_fact(inline_facts(f, r), "collections", False) is not None for r in ra) and len(rr) + len(ra) == len(rets)
        ctx.ob("DELEG.repack.result", f, f"{fn}: returns repack(results) (or args unchanged when there is no collection)", ok)
    cf = base.func("compute")
    ok = bool(find("expr = collections_to_expr(collections, optimize_graph)", cf)) and bool(find("keys = list(flatten(expr.__dask_keys__()))", cf)) and bool(find("results = schedule(expr, keys, **kwargs)", cf))
    ctx.ob("DELEG.compute.keys", cf, "compute: schedule(expr, keys of the finalized expression)", ok)
    # ---------------- metadata survives persist/optimize: _rebuild passes the collection's metadata on
    # (frozen table, confirmed by reading each constructor: these are the constructor parameters that
    # carry state which is not derivable from the graph)
    REBUILD = [
        (DEL, "Delayed", "Delayed", {"length": "self._length"}, "nout/len() of the Delayed"),
        ("dask/array/core.py", "Array", "Array", {"chunks": "self.chunks", "dtype": "self.dtype", "meta": "self._meta"}, "chunks, dtype and meta of the Array"),
        ("dask/bag/core.py", "Bag", "type(self)", {"npartitions": "self.npartitions"}, "npartitions of the Bag"),
    ]
    n_rb = 0
    for rel, cname, ctor, want, what in REBUILD:
        ci = model.klass(rel, cname)
        rb = ci.own_methods.get("_rebuild")
        init = ci.own_methods.get("__new__") or ci.own_methods.get("__init__")
        if rb is None or init is None:
            raise AnchorMissing(f"{rel}::{cname}._rebuild / constructor not found")
        cs = [r.value for r in returns(rb) if isinstance(r.value, ast.Call) and unparse(r.value.func) == ctor]
        n_rb += len(cs)
        if not cs:
            ctx.ob("REBUILD.metadata", rb, f"{cname}._rebuild returns {ctor}(...)", False, "no constructor call returned")
            continue
        for c in cs:
            params = [a.arg for a in init.args.args][1:]  # drop self/cls
            b = {}
            for i, a in enumerate(c.args):
                if i < len(params):
                    b[params[i]] = unparse(a)
            for k in c.keywords:
                if k.arg:
                    b[k.arg] = unparse(k.value)
            bad = {p_: (b.get(p_), v) for p_, v in want.items() if b.get(p_) != v}
            ctx.ob("REBUILD.metadata", c, f"{cname}._rebuild passes {what} to the new collection ({', '.join(f'{k}={v}' for k, v in want.items())})", not bad, "" if not bad else f"not forwarded: {bad} -- the rebuilt collection loses this metadata after persist/optimize")
        pp = ci.own_methods.get("__dask_postpersist__")
        ok = pp is not None and (all(eqv(r.value, "(self._rebuild, ())") for r in returns(pp)) and bool(returns(pp)))
        ctx.ob("REBUILD.postpersist", pp or ci.node, f"{cname}.__dask_postpersist__ returns (self._rebuild, ())", ok)
    ctx.count("rebuild_constructor_calls", n_rb)
    ctx.floor("rebuild_constructor_calls", 3)
    # ---------------- positional contract: optimisation of a sequence of collections keeps the output order
    ex = model.module("dask/_expr.py")
    seq = model.klass("dask/_expr.py", "_HLGExprSequence")
    td = seq.own_methods.get("_tune_down")
    dk = seq.own_methods.get("__dask_keys__")
    if td is None or dk is None:
        raise AnchorMissing("_HLGExprSequence._tune_down / __dask_keys__ not found")
    regroup = [c for c in calls(td, "groupby")]
    ctx.count("sequence_regrouping_sites", len(regroup))
    if regroup:
        # grouping moves members with the same optimizer next to each other; compute()/persist()
        # pair expr.__dask_keys__() with the collections by position, so the order must be restored
        rec = any(k.arg == "positions" for c in calls(td, "_HLGExprGroup") for k in c.keywords)
        over_enum = any("enumerate(self.operands)" in unparse(c) for c in regroup)
        restores = "positions" in unparse(dk) and bool(find("placed.update(zip(op.positions, op.__dask_keys__()))", dk))
        ok = rec and over_enum and restores
        ctx.ob("ORD.sequence-positions", td, "_tune_down groups operands by optimizer; the group records its members' positions and __dask_keys__ returns the keys in the original order", ok, "" if ok else "grouping reorders the outputs but compute()/persist() match keys with collections by position: dask.compute(arr, bag, arr2) returns (arr, arr2, bag)")
    else:
        ctx.ob("ORD.sequence-positions", td, "_tune_down does not regroup operands", True, nontrivial=False)
    pf = base.func("persist")
    ok = bool(find("zip(collections, collection_exprs, expr.__dask_keys__(), strict=True)", pf))
    ctx.ob("ORD.persist-zip", pf, "persist pairs collections with expr.__dask_keys__() positionally (strict zip)", ok)
    # ---------------- computed values re-enter a graph: they must not be re-interpreted as graph syntax
    rb = [c for c in calls(pf, "rebuild") if c.args]
    ctx.count("persist_rebuild_sites", len(rb))
    ctx.floor("persist_rebuild_sites", 1)
    for c in rb:
        a0 = c.args[0]
        val = a0.value if isinstance(a0, ast.DictComp) else None
        ok = val is not None and isinstance(val, ast.Call) and call_name(val) == "DataNode"
        ctx.ob("TYPED-STORE.persist-values", pf, f"rebuild({unparse(a0)}, ...): computed values are stored as data nodes", ok, "" if ok else "a computed value is put into a legacy graph bare: a value shaped like graph syntax (a tuple starting with a callable, a list/str naming a key) is evaluated again when the persisted collection is computed")
    # ---------------- sibling dispatch in delayed
    dl = model.module(DEL)
    du = dl.func("unpack_collections")
    tests = [unparse(n.test) for n in walk_no_nested(du) if isinstance(n, ast.If)]
    need = {"typ in (list, tuple, set)": "list/tuple/set", "typ is dict": "dict", "is_dataclass(expr)": "dataclass", "typ is slice": "slice"}
    for t, k in need.items():
        ctx.ob("SIB.containers", du, f"delayed.unpack_collections traverses {k}", t in tests, "" if t in tests else "kind missing from the sibling dispatch")
    its = [t for t in tests if t.startswith("type(expr) is type(iter(")]
    ctx.ob("SIB.containers", du, "delayed.unpack_collections materialises list/tuple/set iterators", len(its) == 3, f"{len(its)} iterator kinds")
    ok = bool(find("args = Task(None, typ, args)", du)) and any(has_fact(inline_facts(du, n), "typ is list", False) is not None for n, _ in find("args = Task(None, typ, args)", du))
    wraps = find("args = Task(None, typ, args)", du)
    unconditional = bool(wraps) and all(not any("_return_collections" in unparse(e) for e, _ in cfg_of(du).facts(n)) for n, _ in wraps)
    ctx.ob("SIB.containers.type", du, "non-list sequences are rebuilt with their own type", ok)
    ctx.ob("SIB.containers.type-nested", du, "the type is restored at every nesting level (not only when _return_collections)", unconditional, "" if unconditional else "tuples/sets nested inside other containers (the recursive calls pass _return_collections=False) come back as lists")
    ok = bool(find("args = Dict([[k, v] for k, v in zip(keyargs, valargs)])", du))
    ctx.ob("SIB.containers.dict-pairs", du, "dict keys and values are re-paired positionally", ok)
    place = [n for n in ast.walk(dk) if isinstance(n, ast.ListComp) and "placed[i] if i in placed else next(rest)" in unparse(n)]
    ok = len(place) == 1 and eqv(place[0].generators[0].iter, "range(len(all_keys) + len(placed))") and bool(find("rest = iter(all_keys)", dk))
    ctx.ob("ORD.sequence-positions.merge", dk, "__dask_keys__ fills slot i with the group member recorded for i, else with the next ungrouped key: one pass over all output slots", ok, "" if ok else "the recorded positions are applied one after the other to a list that is still growing: with three or more optimizer kinds interleaved the keys land in the wrong slots")
    # ---------------- composite collections: optimize keeps the whole (still lazy) graph, persist keeps the computed outputs
    of_ = base.func("optimize")
    oc = [c for c in calls(of_, "_rebuild_composite_collection")]
    ok = len(oc) == 1 and kwarg(oc[0], "cull_to_child_keys") is not None and eqv(kwarg(oc[0], "cull_to_child_keys"), "False")
    ctx.ob("ARG.composite-rebuild.cull", of_, "optimize: _rebuild_composite_collection(..., cull_to_child_keys=False) -- the children's graphs are still needed", ok, "" if ok else "only each child's output task is kept: the optimized collection has the right type but can no longer be computed")
    pc_ = [c for c in calls(pf, "_rebuild_composite_collection")]
    ok = len(pc_) == 1 and kwarg(pc_[0], "cull_to_child_keys") is not None and eqv(kwarg(pc_[0], "cull_to_child_keys"), "True")
    ctx.ob("ARG.composite-rebuild.cull", pf, "persist: _rebuild_composite_collection(..., cull_to_child_keys=True) -- only computed outputs exist", ok)
    # ---------------- a persisted dataframe lists its partitions in partition order
    fpp = model.module("dask/dataframe/dask_expr/_collection.py").func("FrameBase._postpersist")
    ks = find("keys = M_v", fpp)
    plain = [k for k in ks if not any(eqv(e, "rename") and pol for e, pol in cfg_of(fpp).facts(k[0]))]
    ok = len(plain) == 1 and eqv(plain[0][1]["M_v"], "sorted(futures)")
    ctx.ob("ORD.persist.partition-order", fpp, "FrameBase._postpersist: keys = sorted(futures) -- (name, 0), (name, 1), ... whatever order the results arrive in", ok, "" if ok else "partitions are taken in dict order: persisted together with other collections the frame comes back with permuted partitions (rows in the wrong order)")


VARIANTS = [
    (DEL, "        return Delayed(key, dsk, self._length, layer=layer)", "        return Delayed(key, dsk, layer=layer)", "REBUILD.metadata"),
    ("dask/array/core.py", "        return Array(dsk, name, self.chunks, self.dtype, self._meta)", "        return Array(dsk, name, self.chunks, self.dtype)", "REBUILD.metadata"),
    ("dask/_expr.py", "                    positions=positions,\n", "", "ORD.sequence-positions"),
    (BASE, "                tsk = Task(tok, typ, List(*[_unpack(i) for i in expr]))", "                tsk = Task(tok, list, List(*[_unpack(i) for i in expr]))", "TAB.containers"),
    (BASE, "            if typ in (list, tuple, set):", "            if typ in (list, tuple):", "TAB.containers"),
    (BASE, "                    tok, getitem, TaskRef(collections_token), len(collections)\n                )\n                collections.append(expr)", "                    tok, getitem, TaskRef(collections_token), len(collections)\n                )\n            if True:\n                collections.append(expr)", "PAIR.repack"),
    (BASE, "            typ = list if isinstance(expr, Iterator) else type(expr)", "            typ = type(expr)", "TAB.containers"),
    (BASE, "    repack_dsk[out] = Task(out, tuple, List(*[_unpack(i) for i in args]))", "    repack_dsk[out] = Task(out, tuple, List(*[_unpack(i) for i in reversed(args)]))", "TAB.top-level"),
    (DEL, "        if typ is not list:\n            args = Task(None, typ, args)", "        if typ is set:\n            args = Task(None, typ, args)", "SIB.containers.type"),
    (BASE, "    return repack(results)\n\n\ndef visualize(", "    return results\n\n\ndef visualize(", "DELEG.repack.result"),
]


def selftest(ctx):
    from ..variants import selftest as st

    return st(ctx, "C14", VARIANTS)
