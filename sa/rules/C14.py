"""C14 -- compute, persist and optimize preserve structure (narrow).

Decided:
 TAB.containers      base.unpack_collections' container dispatch covers every container kind the
                     property lists (list, tuple, set, dict, OrderedDict, dataclass, namedtuple,
                     iterator) and rebuilds each with its own type, elements in order
 SIB.containers      the sibling dispatch in delayed.unpack_collections covers the shared kinds
 PAIR.repack-index   the repack index of a collection is taken before, and on the same path as, its
                     insertion into the collections list, once per distinct collection
 DELEG.repack        compute/persist return repack(<results in collection order>)
Not decided: values; scheduler independence.
"""
from __future__ import annotations

import ast

from ..lib import *

EXPLANATION = (
    "Table/sibling rules over dask/base.py::unpack_collections and dask/delayed.py::unpack_collections: the "
    "container kinds traversed, the constructor used to rebuild each, and the pairing of the repack index "
    "with the insertion into the collections list; plus delegation of compute/persist to repack.  Values "
    "and scheduler independence are NOT decided."
)
ASSUMPTIONS = ["schedulers return results in the order of the requested keys (C01)"]
BASE = "dask/base.py"
DEL = "dask/delayed.py"


def check(ctx):
    model = ctx.model
    base = model.module(BASE)
    uc = base.func("unpack_collections")
    un = base.func("unpack_collections._unpack")
    # ---------------- dispatch kinds
    kinds = {}
    for n in ast.walk(un):
        if isinstance(n, ast.If):
            t = unparse(n.test)
            body = ast.Module(body=n.body, type_ignores=[])
            if t == "typ in (list, tuple, set)":
                ok = bool(find("tsk = Task(tok, typ, List(*[_unpack(i) for i in expr]))", body))
                kinds["list/tuple/set"] = (n, ok, "Task(tok, typ, List(*[_unpack(i) for i in expr]))")
            elif t == "typ in (dict, OrderedDict)":
                ok = bool(find("tsk = Task(tok, typ, Dict({_unpack(k): _unpack(v) for k, v in expr.items()}))", body))
                kinds["dict/OrderedDict"] = (n, ok, "Task(tok, typ, Dict({_unpack(k): _unpack(v) ...}))")
            elif t.startswith("dataclasses.is_dataclass(expr)"):
                ok = bool(find("tsk = Task(tok, typ, *[_unpack(getattr(expr, f.name)) for f in dataclasses.fields(expr)])", body)) and "not isinstance(expr, type)" in t
                kinds["dataclass"] = (n, ok, "Task(tok, typ, *[_unpack(getattr(expr, f.name)) for f in fields(expr)])")
            elif t == "is_namedtuple_instance(expr)":
                ok = bool(find("tsk = Task(tok, typ, *[_unpack(i) for i in expr])", body))
                kinds["namedtuple"] = (n, ok, "Task(tok, typ, *[_unpack(i) for i in expr])")
    it = find("typ = list if isinstance(expr, Iterator) else type(expr)", un)
    kinds["iterator"] = (it[0][0] if it else un, bool(it), "iterators are traversed like lists")
    want = ["list/tuple/set", "dict/OrderedDict", "dataclass", "namedtuple", "iterator"]
    for k in want:
        if k not in kinds:
            ctx.ob("TAB.containers", un, f"container kind {k} is traversed", False, "kind missing from the dispatch")
        else:
            n, ok, how = kinds[k]
            ctx.ob("TAB.containers", n, f"{k}: rebuilt as {how}", ok, "" if ok else "rebuilt differently: element order or container type is not preserved")
    ctx.count("container_kinds", len(kinds))
    ctx.floor("container_kinds", 5)
    other = [r for r in returns(un) if unparse(r.value) == "expr"]
    ctx.ob("TAB.containers.other", un, "anything else is returned unchanged", len(other) == 1)
    nt = find("tsk = DataNode(None, expr)", un)
    ok = bool(nt) and has_fact(inline_facts(un, nt[0][0]), "traverse", False) is not None
    ctx.ob("TAB.containers.no-traverse", un, "traverse=False keeps containers opaque", ok)
    # ---------------- repack index
    apps = find("collections.append(expr)", un, nested=False)
    ctx.count("collection_append_sites", len(apps))
    ctx.floor("collection_append_sites", 1)
    for a, _ in apps:
        st = [n for n, b in find("repack_dsk[tok] = Task(tok, getitem, TaskRef(collections_token), len(collections))", un, nested=False)]
        ok = bool(st) and dominates(un, st[0], a) and control_equivalent(un, st[0], a)
        ctx.ob("PAIR.repack-index", a, "repack_dsk[tok] = Task(tok, getitem, TaskRef(collections_token), len(collections)); collections.append(expr)", ok, "" if ok else "index is not taken immediately before the insertion: results are handed to the wrong collection")
        facts = inline_facts(un, a)
        ok2 = has_fact(facts, "tok in repack_dsk", False) is not None and has_fact(facts, "is_dask_collection(expr)", True) is not None
        ctx.ob("PAIR.repack-once", a, "a collection is registered once (keyed by its token)", ok2)
        ok3 = bool(find("tok = tokenize(expr)", un))
        ctx.ob("PAIR.repack-token", a, "collections are identified by tokenize(expr)", ok3)
    top = find("repack_dsk[out] = Task(out, tuple, List(*[_unpack(i) for i in args]))", uc, nested=False)
    ctx.ob("TAB.top-level", uc, "the arguments themselves are rebuilt as a tuple, in order", bool(top))
    rp = base.func("unpack_collections.repack")
    ok = bool(find("dsk[collections_token] = DataNode(collections_token, results)", rp)) and any(Pat("simple_get(dsk, out)").match(r.value) is not None for r in returns(rp)) and bool(find("dsk = repack_dsk.copy()", rp))
    ctx.ob("DELEG.repack.function", rp, "repack(results) evaluates the repack graph on the results", ok)
    rs = returns(uc)
    ok = len(rs) == 1 and unparse(rs[0].value) == "(collections2, repack)" and bool(find("collections2 = list(collections)", uc))
    ctx.ob("DELEG.repack.return", uc, "returns (collections in registration order, repack)", ok)
    # ---------------- compute / persist
    for fn in ("compute", "persist"):
        f = base.func(fn)
        un_ = find("collections, repack = unpack_collections(*args, traverse=traverse)", f, nested=False)
        ok = bool(un_)
        ctx.ob("DELEG.repack.unpack", f, f"{fn}: collections, repack = unpack_collections(*args, traverse=traverse)", ok)
        rets = [r for r in returns(f)]
        rr = [r for r in rets if isinstance(r.value, ast.Call) and call_name(r.value) == "repack"]
        ra = [r for r in rets if unparse(r.value) == "args"]
        ok = bool(rr) and all(has_fact(inline_facts(f, r), "collections", False) is not None for r in ra) and len(rr) + len(ra) == len(rets)
        ctx.ob("DELEG.repack.result", f, f"{fn}: returns repack(results) (or args unchanged when there is no collection)", ok)
    cf = base.func("compute")
    ok = bool(find("expr = collections_to_expr(collections, optimize_graph)", cf)) and bool(find("keys = list(flatten(expr.__dask_keys__()))", cf)) and bool(find("results = schedule(expr, keys, **kwargs)", cf))
    ctx.ob("DELEG.compute.keys", cf, "compute: schedule(expr, keys of the finalized expression)", ok)
    # ---------------- sibling dispatch in delayed
    dl = model.module(DEL)
    du = dl.func("unpack_collections")
    tests = [unparse(n.test) for n in walk_no_nested(du) if isinstance(n, ast.If)]
    need = {"typ in (list, tuple, set)": "list/tuple/set", "typ is dict": "dict", "is_dataclass(expr)": "dataclass", "typ is slice": "slice"}
    for t, k in need.items():
        ctx.ob("SIB.containers", du, f"delayed.unpack_collections traverses {k}", t in tests, "" if t in tests else "kind missing from the sibling dispatch")
    its = [t for t in tests if t.startswith("type(expr) is type(iter(")]
    ctx.ob("SIB.containers", du, "delayed.unpack_collections materialises list/tuple/set iterators", len(its) == 3, f"{len(its)} iterator kinds")
    ok = bool(find("args = Task(None, typ, args)", du)) and any(has_fact(inline_facts(du, n), "typ is list", False) is not None for n, _ in find("args = Task(None, typ, args)", du))
    ctx.ob("SIB.containers.type", du, "non-list sequences are rebuilt with their own type", ok)
    ok = bool(find("args = Dict([[k, v] for k, v in zip(keyargs, valargs)])", du))
    ctx.ob("SIB.containers.dict-pairs", du, "dict keys and values are re-paired positionally", ok)


VARIANTS = [
    (BASE, "                tsk = Task(tok, typ, List(*[_unpack(i) for i in expr]))", "                tsk = Task(tok, list, List(*[_unpack(i) for i in expr]))", "TAB.containers"),
    (BASE, "            if typ in (list, tuple, set):", "            if typ in (list, tuple):", "TAB.containers"),
    (BASE, "                    tok, getitem, TaskRef(collections_token), len(collections)\n                )\n                collections.append(expr)", "                    tok, getitem, TaskRef(collections_token), len(collections)\n                )\n            if True:\n                collections.append(expr)", "PAIR.repack"),
    (BASE, "            typ = list if isinstance(expr, Iterator) else type(expr)", "            typ = type(expr)", "TAB.containers"),
    (BASE, "    repack_dsk[out] = Task(out, tuple, List(*[_unpack(i) for i in args]))", "    repack_dsk[out] = Task(out, tuple, List(*[_unpack(i) for i in reversed(args)]))", "TAB.top-level"),
    (DEL, "        if typ is not list:\n            args = Task(None, typ, args)", "        if typ is set:\n            args = Task(None, typ, args)", "SIB.containers.type"),
    (BASE, "    return repack(results)\n\n\ndef visualize(", "    return results\n\n\ndef visualize(", "DELEG.repack.result"),
]


def selftest(ctx):
    from ..variants import selftest as st

    return st(ctx, "C14", VARIANTS)
