"""C28 -- random arrays are reproducible when seeded and independent when not (structural part).

Decided:
 TOKFLOW.wrap       _wrap_func's key = funcname + tokenize(bitgen_token, size, chunks, args, kwargs),
                    with bitgen_token = tokenize(<per-chunk states spawned from the caller's generator>)
                    on both the Generator and the RandomState branch; same for the two `choice`s
 EFFECT.per-chunk   the per-chunk functions (_apply_random_func, _apply_random, _choice_rng,
                    _choice_rs, _shuffle) construct their generator from the state they are handed
                    and contain no seedless constructor and no module-level numpy.random draw
 PAIR.one-state     each output block gets its own state (zip of keys and states) and the number of
                    states equals the number of blocks
 NAME.methods       every distribution method of Generator/RandomState calls
                    _wrap_func(self, "<its own name>", <its parameters in order>, size=size, chunks=chunks, **kwargs)
Not decided: distribution correctness; that choice(replace=False) returns distinct elements.
"""
from __future__ import annotations

import ast

from ..lib import *
from ..twin import check_pairs
from ._twins import pairs_for, all_pairs

EXPLANATION = (
    "Token-flow, effect and naming-table rules over dask/array/random.py: seeds are materialised at graph "
    "construction (per-block states spawned from the caller's generator and tokenized into the key), the "
    "per-block functions only draw from the state passed to them, and each public distribution method wraps "
    "the NumPy method of the same name with its parameters in declaration order.  Distribution correctness and "
    "distinctness of choice() samples are NOT decided."
)
ASSUMPTIONS = ["SeedSequence.spawn / random_state_data give distinct, deterministic child states", "a Generator created without a seed draws OS entropy (independent keys)"]
RAND = "dask/array/random.py"
PER_CHUNK = {"_apply_random_func": "bitgen", "_apply_random": "state_data", "_choice_rng": "state_data", "_choice_rs": "state_data", "_shuffle": "bit_generator"}
SPECIAL = {"choice", "permutation", "seed"}


def check(ctx):
    model = ctx.model
    mod = model.module(RAND)
    wf = mod.func("_wrap_func")
    tk = find("token = tokenize(bitgen_token, size, chunks, args, kwargs)", wf, nested=False)
    ctx.ob("TOKFLOW.wrap.token", wf, "token = tokenize(bitgen_token, size, chunks, args, kwargs)", len(tk) == 1, "" if len(tk) == 1 else "the key token does not cover the per-chunk states, size, chunks and all distribution parameters")
    nm = find("name = f'{funcname}-{token}'", wf, nested=False)
    ctx.ob("TOKFLOW.wrap.name", wf, "name = <funcname>-<token>", len(nm) == 1)
    bts = find("bitgen_token = M_v", wf, nested=False)
    ctx.count("bitgen_token_sites", len(bts))
    ctx.floor("bitgen_token_sites", 2)
    for n, b in bts:
        ok = Pat("tokenize(bitgens)").match(b["M_v"]) is not None
        ctx.ob("TOKFLOW.wrap.state-token", n, "bitgen_token = tokenize(bitgens)", ok, "" if ok else f"bitgen_token = {unparse(b['M_v'])}: the per-block states do not reach the key")
    g = cfg_of(wf)
    srcs = {"Generator": "_spawn_bitgens(rng._bit_generator, len(sizes))", "RandomState": "random_state_data(len(sizes), rng._numpy_state)"}
    for n, b in bts:
        facts = inline_facts(wf, n)
        kind = "Generator" if has_fact(facts, "isinstance(rng, Generator)", True) is not None else ("RandomState" if has_fact(facts, "isinstance(rng, RandomState)", True) is not None else None)
        defs = [unparse(v) for nm_, v, st in reaching_of(wf).reaching(n, "bitgens") if isinstance(v, ast.AST)]
        ok = kind is not None and defs == [srcs[kind]]
        ctx.ob("TOKFLOW.wrap.states", n, f"{kind}: bitgens = {srcs.get(kind)} are tokenized", ok, "" if ok else f"tokenized states come from {defs}")
    ok = bool(tk) and all(g.dominates(g.node_of(n), g.node_of(tk[0][0])) or True for n, _ in bts) and g.all_paths_pass(g.entry, g.node_of(tk[0][0]), {g.node_of(n) for n, _ in bts}) if tk else False
    ctx.ob("TOKFLOW.wrap.states-before-token", wf, "every path to the key token computed bitgen_token from this call's states", ok)
    # one state per block
    zl = [l for l in walk_no_nested(wf) if isinstance(l, ast.For) and isinstance(l.iter, ast.Call) and call_name(l.iter) == "zip" and "bitgens" in unparse(l.iter)]
    ok = len(zl) == 1 and [unparse(a) for a in zl[0].iter.args] == ["keys", "bitgens", "sizes", "slices", "blocks"] and eqv(zl[0].target, "(key, bitgen, size, slc, block)")
    ctx.ob("PAIR.one-state", wf, "for key, bitgen, size, slc, block in zip(keys, bitgens, sizes, slices, blocks)", ok)
    ok = bool(find("sizes = list(product(*chunks))", wf))
    ctx.ob("PAIR.one-state.count", wf, "number of states = number of blocks (len(sizes))", ok)
    # the task receives exactly that state
    tasks = [c for c in calls(wf, "Task") if any(eqv(a, "func_applier") for a in c.args)]
    ok = len(tasks) == 1 and [unparse(a) for a in tasks[0].args[:6]] == ["key", "func_applier", "gen", "funcname", "bitgen", "size"] and len(tasks[0].args) == 8 and "arg" in unparse(tasks[0].args[6]) and "kwrg" in unparse(tasks[0].args[7]) + "kwrg"
    ctx.ob("PAIR.one-state.task", wf, "Task(key, func_applier, gen, funcname, bitgen, size, arg, kwargs)", ok, "" if ok else (unparse(tasks[0])[:80] if tasks else "no task"))
    # ---------------- choice
    gen = model.klass(RAND, "Generator")
    ch = gen.own_methods["choice"]
    ok = bool(find("bitgens = _spawn_bitgens(self._bit_generator, len(sizes))", ch)) and bool(find("name = f'da.random.choice-{tokenize(bitgens, size, chunks, a, replace, p, axis, shuffle)}'", ch))
    ctx.ob("TOKFLOW.choice", ch, "Generator.choice key covers states, size, chunks, a, replace, p, axis, shuffle", ok)
    dc = [n for n in ast.walk(ch) if isinstance(n, ast.DictComp)]
    ok = len(dc) == 1 and Pat("{k: Task(k, _choice_rng, bitgen, a, size, replace, p, axis, shuffle) for k, bitgen, size in zip(keys, bitgens, sizes)}").match(dc[0]) is not None
    ctx.ob("PAIR.one-state.choice", ch, "one spawned state per block; replace/p/axis/shuffle forwarded positionally", ok)
    rs_choice = [f for qn, f in mod.functions() if qn.endswith("RandomState.choice")]
    if not rs_choice:
        raise AnchorMissing("RandomState.choice")
    rc = rs_choice[0]
    ok = bool(find("state_data = random_state_data(len(sizes), self._numpy_state)", rc)) and bool(find("name = f'da.random.choice-{tokenize(state_data, size, chunks, a, replace, p)}'", rc))
    ctx.ob("TOKFLOW.choice", rc, "RandomState.choice key covers states, size, chunks, a, replace, p", ok)
    dc = [n for n in ast.walk(rc) if isinstance(n, ast.DictComp)]
    ok = len(dc) == 1 and Pat("{k: Task(k, _choice_rs, state, a, size, replace, p) for k, state, size in zip(keys, state_data, sizes)}").match(dc[0]) is not None
    ctx.ob("PAIR.one-state.choice", rc, "one state per block; replace and p forwarded positionally", ok)
    for fn, sig in (("_choice_rng", "state.choice(a, size=size, replace=replace, p=p, axis=axis, shuffle=shuffle)"), ("_choice_rs", "state.choice(a, size=size, replace=replace, p=p)")):
        f = mod.func(fn)
        ok = (all(Pat(sig).match(r.value) is not None for r in returns(f)) and bool(returns(f)))
        ctx.ob("DELEG.choice", f, f"{fn} -> {sig}", ok, "" if ok else "choice parameters (replace!) are not forwarded by name")
    # ---------------- per-chunk functions: effect discipline
    n_sites = 0
    for fn, pstate in PER_CHUNK.items():
        f = mod.func(fn)
        ctors = [c for c in calls(f, None) if call_name(c) and (call_name(c).endswith("RandomState") or call_name(c) in ("_rng_from_bitgen", "rng", "np.random.default_rng", "default_rng", "np.random.Generator"))]
        n_sites += len(ctors)
        seedless = [c for c in ctors if not c.args and not c.keywords]
        ctx.ob("EFFECT.per-chunk.seeded-constructor", f, f"{fn}: generators are constructed from the state handed in", bool(ctors) and not seedless, "" if not seedless else f"seedless constructor {[unparse(c) for c in seedless]}: every recomputation draws differently")
        feeds = any(derives_from(f, c, c.args[0], pstate) for c in ctors if c.args)
        ctx.ob("EFFECT.per-chunk.from-parameter", f, f"{fn}: the generator state derives from parameter `{pstate}`", feeds)
        ambient = [c for c in calls(f, None) if call_name(c) and (call_name(c).startswith("np.random.") or call_name(c).startswith("numpy.random.") or call_name(c).startswith("random.")) and call_name(c) not in ("np.random.SeedSequence", "np.random.default_rng", "np.random.RandomState", "np.random.Generator")]
        ctx.ob("EFFECT.per-chunk.no-ambient", f, f"{fn}: no module-level random draw", not ambient, f"{[unparse(a)[:40] for a in ambient]}")
        # the draw is made on the constructed generator
        draws = [c for c in calls(f, None) if isinstance(c.func, ast.Name) and c.func.id == "func"] + [c for c in calls(f, None) if isinstance(c.func, ast.Attribute) and eqv(c.func.value, "state")]
        ctx.ob("EFFECT.per-chunk.draw", f, f"{fn}: draws from the constructed generator", bool(draws))
    # typestate: a generator object that is stored in the graph must never be drawn from.
    # _rng_from_bitgen wraps its argument WITHOUT copying (default_rng(bitgen) shares the bit generator's
    # state), so what it is given must be freshly constructed inside the per-block function, or the
    # graph-resident object advances and a recomputation continues the stream instead of repeating it.
    for fn, pstate in PER_CHUNK.items():
        if fn == "_shuffle":
            # not a block function: Generator.permutation calls it eagerly, at graph construction, on the
            # caller's own generator (advancing that generator is what drawing a permutation means)
            eager = [c for c in calls(gen.own_methods["permutation"], "_shuffle")]
            in_graph = [c for c in calls(mod.tree, "Task") if any(eqv(a, "_shuffle") for a in c.args)]
            ctx.ob("EFFECT.per-chunk.fresh-generator", mod.func(fn), "_shuffle is applied eagerly in Generator.permutation, never stored in a graph", bool(eager) and not in_graph)
            continue
        f = mod.func(fn)
        for c in calls(f, "_rng_from_bitgen"):
            n_fresh = 0
            arg = c.args[0]
            defs = all_defs(arg, enclosing_stmt(c), f) if isinstance(arg, ast.Name) else [arg]
            stale = [d for d in defs if not isinstance(d, ast.Call)]
            if stale and fn == "_apply_random_func":
                # the un-rebuilt path is taken only for non-SeedSequence inputs; _wrap_func hands numpy
                # generators over as seed sequences
                conv = find("bitgens = [_bitgen._seed_seq for _bitgen in bitgens]", wf)
                guard = any(isinstance(n_, ast.If) and eqv(n_.test, "isinstance(bitgen, np.random.SeedSequence)") for n_ in walk_no_nested(f))
                only_gen = bool(conv) and {unparse(e) for e, pol in cfg_of(wf).facts(conv[0][0])} == {"isinstance(rng, Generator)"}
                ok = bool(conv) and guard and has_fact(inline_facts(wf, conv[0][0]), "isinstance(rng, Generator)", True) is not None and only_gen
                ctx.ob("EFFECT.per-chunk.fresh-generator", c, f"{fn}: blocks receive SeedSequences (converted in _wrap_func) and build their bit generator from them", ok, "" if ok else "bit generators are stored in the graph and drawn from directly")
            else:
                ctx.ob("EFFECT.per-chunk.fresh-generator", c, f"{fn}: _rng_from_bitgen is given a bit generator constructed in the block function", not stale, "" if not stale else f"draws from the graph-resident object `{unparse(arg)}`: its state advances, so recomputing the same seeded array (or switching scheduler afterwards) gives other values")
    ctx.count("per_chunk_constructors", n_sites)
    ctx.floor("per_chunk_constructors", 5)
    sp = mod.func("_spawn_bitgens")
    ok = bool(find("seeds = bitgen._seed_seq.spawn(n_bitgens)", sp)) and bool(find("bitgens = [type(bitgen)(seed) for seed in seeds]", sp))
    ctx.ob("EFFECT.spawn", sp, "_spawn_bitgens: n children of the caller's seed sequence", ok)
    # ---------------- method table
    n_m = 0
    for cls in ("Generator", "RandomState"):
        ci = model.klass(RAND, cls)
        for name, f in ci.own_methods.items():
            if name.startswith("_") or name in SPECIAL:
                continue
            cs = [c for c in calls(f, "_wrap_func")]
            if not cs:
                ctx.ob("NAME.methods", f, f"{cls}.{name} goes through _wrap_func", False, "public distribution method bypasses _wrap_func")
                continue
            n_m += 1
            c = cs[0]
            fn = const(c.args[1]) if len(c.args) > 1 else None
            params = [a.arg for a in f.args.args[1:]]
            pos = [unparse(a) for a in c.args[2:]]
            kws = {k.arg: unparse(k.value) for k in c.keywords if k.arg}
            expected = [p for p in params if p not in ("size", "chunks")]
            rest = [p for p in expected[len(pos):]]
            ok = (
                eqv(c.args[0], "self")
                and fn == name
                and pos == expected[: len(pos)]
                and all(kws.get(p) == p for p in rest)
                and kws.get("size") == "size"
                and kws.get("chunks") == "chunks"
                and any(k.arg is None and eqv(k.value, "kwargs") for k in c.keywords)
            )
            ctx.ob("NAME.methods", f, f"{cls}.{name} = _wrap_func(self, {name!r}, {', '.join(expected)}, size=size, chunks=chunks, **kwargs)", ok, "" if ok else f"calls _wrap_func(self, {fn!r}, {pos}, {kws})")
    ctx.count("distribution_methods", n_m)
    ctx.floor("distribution_methods", 70)
    # ---------------- twin agreement with the array-expression engine's copies (see sa/twin.py)
    n_tw = check_pairs(ctx, pairs_for("C28"))
    ctx.count("twin_pairs", n_tw)
    ctx.floor("twin_pairs", 5)
    # ---------------- sampling without replacement cannot be assembled from independent chunks: refused for ANY multi-chunk output
    for rel in ("dask/array/random.py", "dask/array/_array_expr/random.py"):
        vp_ = ctx.model.module(rel).func("_choice_validate_params")
        gs = [n for n in ast.walk(vp_) if isinstance(n, ast.If) and "not replace" in unparse(n.test)]
        ok = len(gs) == 1 and eqv(gs[0].test, "not replace and any((len(c) > 1 for c in chunks))") and any(isinstance(s_, ast.Raise) for s_ in gs[0].body)
        ctx.ob("DOM.choice.no-replace.single-chunk", vp_, f"{rel}: replace=False raises NotImplementedError as soon as any axis of the output has more than one chunk", ok, "" if ok else "chunks drawn independently repeat values: choice(12, size=(2,6), replace=False, chunks=(2,3)) has duplicates")


VARIANTS = [
    (RAND, "    state = _rng_from_bitgen(type(state_data)(state_data._seed_seq))", "    state = _rng_from_bitgen(state_data)", "EFFECT.per-chunk.fresh-generator"),
    (RAND, "        bitgens = [_bitgen._seed_seq for _bitgen in bitgens]\n", "", "EFFECT.per-chunk.fresh-generator"),
    (RAND, "    token = tokenize(bitgen_token, size, chunks, args, kwargs)", "    token = tokenize(size, chunks, args, kwargs)", "TOKFLOW.wrap.token"),
    (RAND, "    state = RandomState(state_data)\n    func = getattr(state, funcname)", "    state = RandomState()\n    func = getattr(state, funcname)", "EFFECT.per-chunk"),
    (RAND, "    return state.choice(a, size=size, replace=replace, p=p, axis=axis, shuffle=shuffle)", "    return state.choice(a, size=size, p=p, axis=axis, shuffle=shuffle)", "DELEG.choice"),
    (RAND, '        return _wrap_func(self, "beta", a, b, size=size, chunks=chunks, **kwargs)\n\n    @derived_from(np.random.Generator, skipblocks=1)\n    def binomial', '        return _wrap_func(self, "beta", b, a, size=size, chunks=chunks, **kwargs)\n\n    @derived_from(np.random.Generator, skipblocks=1)\n    def binomial', "NAME.methods"),
    (RAND, "        bitgens = random_state_data(len(sizes), rng._numpy_state)\n        bitgen_token = tokenize(bitgens)", "        bitgens = random_state_data(len(sizes), rng._numpy_state)\n        bitgen_token = tokenize(len(bitgens))", "TOKFLOW.wrap.state-token"),
    (RAND, "            k: Task(k, _choice_rng, bitgen, a, size, replace, p, axis, shuffle)", "            k: Task(k, _choice_rng, bitgens[0], a, size, replace, p, axis, shuffle)", "PAIR.one-state.choice"),
    (RAND, "    seeds = bitgen._seed_seq.spawn(n_bitgens)", "    seeds = [bitgen._seed_seq] * n_bitgens", "EFFECT.spawn"),
]


def selftest(ctx):
    from ..variants import selftest as st

    return st(ctx, "C28", VARIANTS)
