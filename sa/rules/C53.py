"""C53 -- serializable locks keep their identity across pickling.

Decided:
 PAIR.registry      in __init__ every path either reads self.lock from the registry under self.token
                    or stores the new lock under the same token
 DELEG.pickle       __getstate__ returns the token used as registry key; __setstate__ forwards it to
                    __init__
 OWN.registry       the registry is a class attribute (one per process), written only in __init__
 EFFECT.fresh-token a lock created without a token gets a uuid4 token
 DELEG.lock-api     acquire/release/locked/__enter__/__exit__ delegate to the shared lock
Not decided: thread interleavings of first creation (documented as not thread-safe).
"""
from __future__ import annotations

import ast

from ..lib import *

EXPLANATION = (
    "Pairing and delegation rules over dask/utils.py::SerializableLock: both branches of __init__ leave "
    "self.lock equal to the registry entry under self.token; the pickled state is exactly that token and "
    "unpickling re-runs __init__ with it; the registry is one class-level mapping; the lock API delegates to "
    "the shared lock object.  Thread interleavings of first creation are NOT decided."
)
ASSUMPTIONS = ["pickle protocol calls __getstate__/__setstate__", "WeakValueDictionary keeps an entry while a lock with that token is alive"]
UT = "dask/utils.py"


def check(ctx):
    model = ctx.model
    ci = model.klass(UT, "SerializableLock")
    init = ci.own_methods["__init__"]
    reg = ci.own.get("_locks")
    ok = reg is not None and isinstance(reg, ast.Call) and call_name(reg) in ("WeakValueDictionary", "weakref.WeakValueDictionary", "dict")
    ctx.ob("OWN.registry.class-level", ci.node, "_locks is a class-level mapping created once", ok)
    tok = find("self.token = M_v", init, nested=False)
    ok = len(tok) == 1 and Pat("token or str(uuid.uuid4())").match(tok[0][1]["M_v"]) is not None
    ctx.ob("EFFECT.fresh-token", init, "self.token = token or str(uuid.uuid4())", ok, "" if ok else "locks created without a token may share one / the given token is not used")
    reads = find("self.lock = SerializableLock._locks[self.token]", init, nested=False)
    news = find("self.lock = Lock()", init, nested=False)
    stores = find("SerializableLock._locks[self.token] = self.lock", init, nested=False)
    ctx.count("lock_assignments", len(find("self.lock = M_v", init, nested=False)))
    ctx.floor("lock_assignments", 2)
    ok = len(reads) == 1 and has_fact(inline_facts(init, reads[0][0]), "self.token in SerializableLock._locks", True) is not None
    ctx.ob("PAIR.registry.reuse", init, "token already registered -> self.lock is the registered lock", ok, "" if ok else "an existing lock for the token is not reused: two locks with one token no longer exclude each other")
    ok = len(news) == 1 and len(stores) == 1 and control_equivalent(init, news[0][0], stores[0][0]) and dominates(init, news[0][0], stores[0][0]) and has_fact(inline_facts(init, news[0][0]), "self.token in SerializableLock._locks", False) is not None
    ctx.ob("PAIR.registry.register", init, "new token -> new Lock(), registered under self.token", ok, "" if ok else "a new lock is not registered under its token: its unpickled copies get a different lock")
    # every path assigns self.lock
    g = cfg_of(init)
    lock_nodes = {g.node_of(n) for n, _ in find("self.lock = M_v", init, nested=False)}
    ok = g.all_paths_pass(g.entry, g.exit, lock_nodes)
    ctx.ob("PAIR.registry.total", init, "every path through __init__ sets self.lock", ok)
    ok = all(dominates(init, tok[0][0], n) for n, _ in reads + news) if tok else False
    ctx.ob("PAIR.registry.token-first", init, "the token is fixed before the registry is consulted", ok)
    # writers of the registry
    writers = []
    for rel in ("dask/utils.py",):
        m = model.module(rel)
        for qn, f in m.functions():
            for n in walk_no_nested(f):
                if isinstance(n, (ast.Assign, ast.Delete)):
                    tg = n.targets
                    for t in tg:
                        if isinstance(t, ast.Subscript) and "_locks" in unparse(t.value):
                            writers.append(qn)
                if isinstance(n, ast.Call) and isinstance(n.func, ast.Attribute) and "_locks" in unparse(n.func.value) and n.func.attr in ("pop", "clear", "update", "setdefault", "popitem"):
                    writers.append(qn)
    ok = set(writers) == {"SerializableLock.__init__"}
    ctx.ob("OWN.registry.writers", ci.node, "the registry is written only by __init__", ok, f"writers: {sorted(set(writers))}")
    gs = ci.own_methods.get("__getstate__")
    ss = ci.own_methods.get("__setstate__")
    ok = gs is not None and (all(Pat("self.token").match(r.value) is not None for r in returns(gs)) and bool(returns(gs))) and len(returns(gs)) == 1
    ctx.ob("DELEG.pickle.getstate", gs or ci.node, "__getstate__ returns self.token", ok)
    ok = ss is not None and bool(find("self.__init__(token)", ss)) and [a.arg for a in ss.args.args] == ["self", "token"]
    ctx.ob("DELEG.pickle.setstate", ss or ci.node, "__setstate__(token) -> self.__init__(token)", ok)
    ok = "__reduce__" not in ci.own_methods and "__reduce_ex__" not in ci.own_methods
    ctx.ob("DELEG.pickle.no-reduce", ci.node, "no __reduce__ bypasses the token state", ok, nontrivial=False)
    for meth, pat in (("acquire", "self.lock.acquire(*args, **kwargs)"), ("release", "self.lock.release(*args, **kwargs)"), ("locked", "self.lock.locked()")):
        f = ci.own_methods.get(meth)
        ok = f is not None and (all(Pat(pat).match(r.value) is not None for r in returns(f)) and bool(returns(f)))
        ctx.ob("DELEG.lock-api", f or ci.node, f"{meth} -> {pat}", ok)
    en = ci.own_methods.get("__enter__")
    ex = ci.own_methods.get("__exit__")
    ok = en is not None and bool(find("self.lock.__enter__()", en)) and ex is not None and bool(find("self.lock.__exit__(*args)", ex))
    ctx.ob("DELEG.lock-api", ci.node, "__enter__/__exit__ delegate to the shared lock", ok)
    # ---------------- who creates locks with an explicit token: nobody inside dask.  A token is an identity that
    # callers may share on purpose; library code that derives one from a name (a scheduler name, an array name)
    # makes separately created locks exclude each other.
    n_ctor = 0
    for rel in model.package_files("dask"):
        if "SerializableLock(" not in model.read(rel):
            continue
        m_ = model.module(rel)
        for c in calls(m_.tree, "SerializableLock"):
            n_ctor += 1
            ok = not c.args and not c.keywords
            ctx.ob("EFFECT.fresh-token.callers", c, f"{rel}: SerializableLock() -- a fresh token per lock", ok, "" if ok else f"`{unparse(c)}` derives the token from a name: every lock created this way with the same name is one and the same mutex", nontrivial=not ok)
    ctx.count("serializable_lock_constructions", n_ctor)
    ctx.floor("serializable_lock_constructions", 3)
    # ---------------- the getter wrappers hand the lock on
    ac = ctx.model.module("dask/array/core.py")
    for gname in ("getter_nofancy", "getter_inline"):
        gf_ = ac.func(gname)
        cs = [c for c in calls(gf_, "getter")]
        ok = len(cs) == 1 and kwarg(cs[0], "lock") is not None and eqv(kwarg(cs[0], "lock"), "lock")
        ctx.ob("DELEG.getter.lock", gf_, f"{gname} calls getter(..., lock=lock)", ok, "" if ok else "the lock given to from_array(..., fancy=False) is never acquired: chunk reads overlap each other and whoever holds the lock")
    # ---------------- load_store_chunk touches the target only while it holds the lock
    lsc = ac.func("load_store_chunk")
    trys = [t for t in ast.walk(lsc) if isinstance(t, ast.Try) and t.finalbody and any("lock.release()" in unparse(s_) for s_ in t.finalbody)]
    ok = len(trys) == 1
    if ok:
        inside = {id(n) for n in ast.walk(trys[0])}
        touches = [n for n in ast.walk(lsc) if isinstance(n, ast.Subscript) and isinstance(n.value, ast.Name) and n.value.id == "out"]
        ok = bool(touches) and all(id(n) in inside for n in touches) and bool(find("lock.acquire()", lsc))
    ctx.ob("PAIR.store-chunk.under-lock", lsc, "every out[index] access (write and read-back) of load_store_chunk lies inside the try whose finally releases the lock", ok, "" if ok else "the read-back of return_stored happens after lock.release(): the target is read while another holder of the lock may be writing it")
    # ---------------- round 4b (C53-m7): getter reads and materialises the chunk while it holds the lock
    gt4 = ac.func("getter")
    trys4 = [t for t in ast.walk(gt4) if isinstance(t, ast.Try) and t.finalbody and any("lock.release()" in unparse(s_) for s_ in t.finalbody)]
    ok = len(trys4) == 1
    if ok:
        inside4 = {id(n) for s_ in trys4[0].body for n in ast.walk(s_)}
        touch4 = [n for n in ast.walk(gt4) if (isinstance(n, ast.Subscript) and eqv(n, "a[b]")) or (isinstance(n, ast.Call) and eqv(n.func, "np.asarray"))]
        ok = len(touch4) >= 2 and all(id(n) in inside4 for n in touch4)
    ctx.ob("PAIR.getter.under-lock", trys4[0] if trys4 else gt4, "getter: a[b] and the np.asarray(c) that actually reads a lazy store both lie inside the try whose finally releases the lock", ok, "" if ok else "np.asarray runs after lock.release(): for an h5py/zarr-style lazily indexed store the real read happens without the lock")
    # ---------------- round 4b (C53-m8): store(lock=True) makes ONE lock for the whole call
    st4 = ac.func("store")
    gl4 = [c for c in calls(st4, "get_scheduler_lock")]
    ok = len(gl4) == 1
    if ok:
        par4 = {}
        for n in ast.walk(st4):
            for ch in ast.iter_child_nodes(n):
                par4[id(ch)] = n
        p4 = par4.get(id(gl4[0]))
        inloop4 = False
        q4 = gl4[0]
        while id(q4) in par4:
            q4 = par4[id(q4)]
            if isinstance(q4, (ast.For, ast.While, ast.ListComp, ast.GeneratorExp, ast.SetComp, ast.DictComp, ast.Lambda)):
                inloop4 = True
        ok = not inloop4 and isinstance(p4, ast.Assign) and eqv(p4.targets[0], "lock")
        looptargets4 = {n_.id for f_ in ast.walk(st4) if isinstance(f_, (ast.For, ast.comprehension)) for n_ in ast.walk(f_.target) if isinstance(n_, ast.Name)}
        ok = ok and "lock" not in looptargets4
        lk4 = [kwarg(c, "lock") for c in ast.walk(st4) if isinstance(c, ast.Call) and isinstance(c.func, ast.Attribute) and c.func.attr == "map_blocks" and kwarg(c, "lock") is not None]
        ok = ok and len(lk4) >= 2 and all(eqv(k, "lock") for k in lk4)
    ctx.ob("EFFECT.store.one-lock", gl4[0] if gl4 else st4, "store: `lock = get_scheduler_lock(...)` once, outside any loop, and every map_blocks(load_store_chunk, ..., lock=lock) uses it", ok, "" if ok else "one lock per target: two sources written into the same target/resource no longer exclude each other")


VARIANTS = [
    (UT, "        self.token = token or str(uuid.uuid4())", "        self.token = token or 'lock'", "EFFECT.fresh-token"),
    (UT, "            self.lock = Lock()\n            SerializableLock._locks[self.token] = self.lock", "            self.lock = Lock()", "PAIR.registry.register"),
    (UT, "        if self.token in SerializableLock._locks:\n            self.lock = SerializableLock._locks[self.token]\n        else:\n            self.lock = Lock()", "        if False:\n            self.lock = SerializableLock._locks[self.token]\n        else:\n            self.lock = Lock()", "PAIR.registry"),
    (UT, "    def __getstate__(self):\n        return self.token\n\n    def __setstate__(self, token):\n        self.__init__(token)", "    def __getstate__(self):\n        return self.token\n\n    def __setstate__(self, token):\n        self.__init__()", "DELEG.pickle.setstate"),
    (UT, "    def __getstate__(self):\n        return self.token\n", "    def __getstate__(self):\n        return str(self.token) + '-copy'\n", "DELEG.pickle.getstate"),
    (UT, "    def release(self, *args, **kwargs):\n        return self.lock.release(*args, **kwargs)", "    def release(self, *args, **kwargs):\n        return None", "DELEG.lock-api"),
]


def selftest(ctx):
    from ..variants import selftest as st

    return st(ctx, "C53", VARIANTS)
