"""Alpha-normalisation of local variable names against a reference snapshot.

The rules name local variables of the functions they read (`is_leaf`, `chunkss`, `parts`, ...).
Renaming a local is the commonest behaviour-preserving edit, and it must not raise an alarm.  Instead
of making every rule rename-tolerant, the *program* is normalised before any rule looks at it:

  reference   for every top-level function and method of every non-test module under dask/, the
              names bound in it (binding order, outer parameters excluded) and its canonical text with
              those names replaced by `_v<k>` -- frozen from the tree the rules were written against
              (sa/rules/locals_ref.json.gz, written by tools/locals_freeze.py).
  at parse    a function whose list of local names differs from the reference is canonicalised the same
              way; the two canonical texts are aligned line by line on their abstract form (numbers
              erased); on the aligned lines the k-th local of the current function is matched with the
              local of the reference standing at the same place.  A current local whose matches all
              agree (one reference local, and that reference local matched with nothing else) has been
              renamed: it gets its reference name back, in memory only.

A swapped pair of operands, or one use replaced by another variable, gives conflicting matches for the
names involved, which then keep their real names -- so the rules still see the change.  Lines that were
edited do not align and do not vote.  Nothing is renamed when the reference does not know the function.
Reports keep real line numbers; the digest is taken from the real text.
"""
from __future__ import annotations

import ast
import difflib
import gzip
import hashlib
import json
import os
import re

from .twin import _Binder, _Renamer

_REF = None
_VAR = re.compile(r"_v(\d+)\b")
REF_PATH = os.path.join(os.path.dirname(os.path.abspath(__file__)), "rules", "locals_ref.json.gz")


def reference():
    global _REF
    if _REF is None:
        if os.path.exists(REF_PATH):
            with gzip.open(REF_PATH, "rt", encoding="utf-8") as f:
                _REF = json.load(f)
        else:
            _REF = {}
    return _REF


def _outer_params(fn):
    a = fn.args
    ps = {x.arg for x in a.posonlyargs + a.args + a.kwonlyargs}
    if a.vararg:
        ps.add(a.vararg.arg)
    if a.kwarg:
        ps.add(a.kwarg.arg)
    return ps


def local_order(fn) -> list[str]:
    b = _Binder()
    b.visit(fn)
    ps = _outer_params(fn)
    return [n for n in b.order if n not in ps]


def _h(s: str) -> str:
    return hashlib.blake2b(s.encode(), digest_size=6).hexdigest()


def canon(fn, order=None):
    """(order, [(hash of abstract line, [k, ...]), ...]) of a function."""
    order = local_order(fn) if order is None else order
    f = ast.parse(ast.unparse(fn)).body[0]
    f.decorator_list = []
    for n in ast.walk(f):
        if isinstance(n, (ast.FunctionDef, ast.AsyncFunctionDef, ast.ClassDef)) and n.body and isinstance(n.body[0], ast.Expr) and isinstance(n.body[0].value, ast.Constant) and isinstance(n.body[0].value.value, str):
            n.body = n.body[1:] or [ast.Pass()]
    mapping = {nm: f"_v{k}" for k, nm in enumerate(order)}
    f = _LocalRenamer(mapping, _outer_params(f)).visit(f)
    ast.fix_missing_locations(f)
    lines = []
    for line in ast.unparse(f).splitlines():
        ks = [int(x) for x in _VAR.findall(line)]
        lines.append((_h(_VAR.sub("_v", line.strip())), ks))
    return order, lines


class _LocalRenamer(_Renamer):
    """twin._Renamer plus global/nonlocal declarations."""

    def visit_Nonlocal(self, node):
        node.names = [self.m.get(n, n) for n in node.names]
        return node

    visit_Global = visit_Nonlocal


def toplevel_functions(tree):
    """(qualname, node) of module-level functions and methods (not functions nested in functions)."""
    out = []

    def rec(node, prefix):
        for ch in ast.iter_child_nodes(node):
            if isinstance(ch, (ast.FunctionDef, ast.AsyncFunctionDef)):
                out.append((prefix + ch.name, ch))
            elif isinstance(ch, ast.ClassDef):
                rec(ch, prefix + ch.name + ".")
            elif isinstance(ch, (ast.If, ast.Try, ast.With, ast.For, ast.While)):
                rec(ch, prefix)

    rec(tree, "")
    return out


def snapshot(tree) -> dict:
    snap = {}
    seen = set()
    for qn, fn in toplevel_functions(tree):
        if qn in seen:
            snap.pop(qn, None)  # redefined names are ambiguous: no reference
            continue
        seen.add(qn)
        order, lines = canon(fn)
        if order:
            snap[qn] = {"order": order, "lines": [[h, ks] for h, ks in lines]}
    return snap


def back_mapping(ref, cur_order, cur_lines):
    rl, cl = ref["lines"], cur_lines
    sm = difflib.SequenceMatcher(None, [h for h, _ in rl], [h for h, _ in cl], autojunk=False)
    votes: dict[int, set] = {}
    rvotes: dict[int, set] = {}
    for tag, i1, i2, j1, j2 in sm.get_opcodes():
        if tag != "equal":
            continue
        for (hr, kr), (hc, kc) in zip(rl[i1:i2], cl[j1:j2]):
            if len(kr) != len(kc):
                continue
            for a, b in zip(kr, kc):
                votes.setdefault(b, set()).add(a)
                rvotes.setdefault(a, set()).add(b)
    ren = {}
    for ck, s in votes.items():
        if len(s) != 1:
            continue
        (rk,) = s
        if len(rvotes.get(rk, ())) != 1:
            continue
        if ck < len(cur_order) and rk < len(ref["order"]):
            a, b = cur_order[ck], ref["order"][rk]
            if a != b:
                ren[a] = b
    return ren


def normalise(tree, relpath: str) -> int:
    """Rename renamed locals back to their reference names, in place.  Returns the number of names."""
    ref = reference().get(relpath)
    if not ref:
        return 0
    n = 0
    seen = set()
    for qn, fn in toplevel_functions(tree):
        r = ref.get(qn)
        if r is None or qn in seen:
            continue
        seen.add(qn)
        order = local_order(fn)
        if order == r["order"]:
            continue
        try:
            _, lines = canon(fn, order)
        except (SyntaxError, ValueError, RecursionError):
            continue
        ren = back_mapping(r, order, lines)
        if not ren:
            continue
        occurring = {x.id for x in ast.walk(fn) if isinstance(x, ast.Name)} | {x.arg for x in ast.walk(fn) if isinstance(x, ast.arg)}
        # a reference name may be taken only if it is free now, or is itself being renamed away
        ok = {a: b for a, b in ren.items() if b not in occurring or b in ren}
        if len(set(ok.values())) != len(ok):
            continue
        if not ok:
            continue
        _InPlace(ok, _outer_params(fn)).visit(fn)
        n += len(ok)
    return n


class _InPlace(_LocalRenamer):
    """Rename on the live tree (nodes keep identity, positions and back-links)."""

    def __init__(self, mapping, params):
        super().__init__(mapping, params)


class _StripAnn(ast.NodeTransformer):
    """`x: T = v` inside a function body is `x = v` for every rule (class bodies -- dataclass fields --
    and module level keep their annotations)."""

    def __init__(self):
        self.depth = 0
        self.n = 0

    def visit_FunctionDef(self, node):
        self.depth += 1
        self.generic_visit(node)
        self.depth -= 1
        return node

    visit_AsyncFunctionDef = visit_FunctionDef

    def visit_ClassDef(self, node):
        d, self.depth = self.depth, 0
        self.generic_visit(node)
        self.depth = d
        return node

    def visit_AnnAssign(self, node):
        if self.depth and node.value is not None and isinstance(node.target, (ast.Name, ast.Attribute, ast.Subscript)):
            self.n += 1
            return ast.copy_location(ast.Assign(targets=[node.target], value=node.value, type_comment=None), node)
        return node


def strip_local_annotations(tree) -> int:
    t = _StripAnn()
    t.visit(tree)
    return t.n
