"""Total, side-effect-free folding of literal tables from source (no import of the repo).

Supports: constants, + - * / // % ** on numbers and + on str, tuples/lists/dicts/sets of
foldable things, names bound earlier in the environment, f-strings, subscripts and
slices on str/tuple/list, str methods lower/upper/replace/strip/startswith/endswith,
`x in y`, `not`, `and`/`or`, comparisons, dict/list/set comprehensions over
foldable iterables (incl. d.items()/keys()/values()), dict.update(<foldable dict>).
Anything else raises NotConstant -- never guessed.
"""
from __future__ import annotations

import ast
import operator

from .srcmodel import unparse


class NotConstant(Exception):
    pass


_BIN = {
    ast.Add: operator.add,
    ast.Sub: operator.sub,
    ast.Mult: operator.mul,
    ast.Div: operator.truediv,
    ast.FloorDiv: operator.floordiv,
    ast.Mod: operator.mod,
    ast.Pow: operator.pow,
}
_CMP = {
    ast.Eq: operator.eq,
    ast.NotEq: operator.ne,
    ast.Lt: operator.lt,
    ast.LtE: operator.le,
    ast.Gt: operator.gt,
    ast.GtE: operator.ge,
    ast.In: lambda a, b: a in b,
    ast.NotIn: lambda a, b: a not in b,
}
_STR_METHODS = {"lower", "upper", "replace", "strip", "lstrip", "rstrip", "startswith", "endswith", "title"}
_DICT_METHODS = {"items", "keys", "values"}


def fold(node, env=None):
    env = env if env is not None else {}
    if isinstance(node, ast.Constant):
        return node.value
    if isinstance(node, ast.Name):
        if node.id in env:
            return env[node.id]
        raise NotConstant(node.id)
    if isinstance(node, ast.BinOp) and type(node.op) in _BIN:
        a, b = fold(node.left, env), fold(node.right, env)
        if isinstance(node.op, ast.Pow) and isinstance(b, (int, float)) and abs(b) > 4096:
            raise NotConstant("huge power")
        return _BIN[type(node.op)](a, b)
    if isinstance(node, ast.UnaryOp):
        v = fold(node.operand, env)
        if isinstance(node.op, ast.USub):
            return -v
        if isinstance(node.op, ast.Not):
            return not v
        if isinstance(node.op, ast.UAdd):
            return +v
    if isinstance(node, ast.BoolOp):
        vals = [fold(v, env) for v in node.values]
        if isinstance(node.op, ast.And):
            r = True
            for v in vals:
                r = v
                if not v:
                    break
            return r
        r = False
        for v in vals:
            r = v
            if v:
                break
        return r
    if isinstance(node, ast.Compare):
        left = fold(node.left, env)
        for op, c in zip(node.ops, node.comparators):
            right = fold(c, env)
            if type(op) not in _CMP or not _CMP[type(op)](left, right):
                if type(op) not in _CMP:
                    raise NotConstant(unparse(node))
                return False
            left = right
        return True
    if isinstance(node, ast.Tuple):
        return tuple(fold(e, env) for e in node.elts)
    if isinstance(node, ast.List):
        return [fold(e, env) for e in node.elts]
    if isinstance(node, ast.Set):
        return {fold(e, env) for e in node.elts}
    if isinstance(node, ast.Dict):
        out = {}
        for k, v in zip(node.keys, node.values):
            if k is None:
                out.update(fold(v, env))
            else:
                out[fold(k, env)] = fold(v, env)
        return out
    if isinstance(node, ast.JoinedStr):
        parts = []
        for v in node.values:
            if isinstance(v, ast.Constant):
                parts.append(str(v.value))
            elif isinstance(v, ast.FormattedValue):
                val = fold(v.value, env)
                spec = fold(v.format_spec, env) if v.format_spec is not None else ""
                parts.append(format(val, spec))
        return "".join(parts)
    if isinstance(node, ast.Subscript):
        base = fold(node.value, env)
        if isinstance(node.slice, ast.Slice):
            lo = fold(node.slice.lower, env) if node.slice.lower else None
            hi = fold(node.slice.upper, env) if node.slice.upper else None
            st = fold(node.slice.step, env) if node.slice.step else None
            return base[lo:hi:st]
        return base[fold(node.slice, env)]
    if isinstance(node, ast.IfExp):
        return fold(node.body, env) if fold(node.test, env) else fold(node.orelse, env)
    if isinstance(node, ast.Call):
        if isinstance(node.func, ast.Attribute):
            recv = fold(node.func.value, env)
            m = node.func.attr
            args = [fold(a, env) for a in node.args]
            if isinstance(recv, str) and m in _STR_METHODS:
                return getattr(recv, m)(*args)
            if isinstance(recv, dict) and m in _DICT_METHODS and not args:
                return list(getattr(recv, m)())
            if isinstance(recv, dict) and m == "get":
                return recv.get(*args)
        elif isinstance(node.func, ast.Name) and node.func.id in ("len", "int", "float", "str", "tuple", "list", "dict", "set", "sorted", "min", "max", "abs", "round") and not node.keywords:
            args = [fold(a, env) for a in node.args]
            return {"len": len, "int": int, "float": float, "str": str, "tuple": tuple, "list": list, "dict": dict, "set": set, "sorted": sorted, "min": min, "max": max, "abs": abs, "round": round}[node.func.id](*args)
        raise NotConstant(unparse(node))
    if isinstance(node, (ast.ListComp, ast.SetComp, ast.DictComp, ast.GeneratorExp)):
        out = []

        def rec(gi, env2):
            if gi == len(node.generators):
                if isinstance(node, ast.DictComp):
                    out.append((fold(node.key, env2), fold(node.value, env2)))
                else:
                    out.append(fold(node.elt, env2))
                return
            g = node.generators[gi]
            for item in fold(g.iter, env2):
                e3 = dict(env2)
                _bind(g.target, item, e3)
                if all(fold(c, e3) for c in g.ifs):
                    rec(gi + 1, e3)

        rec(0, dict(env))
        if isinstance(node, ast.DictComp):
            return dict(out)
        if isinstance(node, ast.SetComp):
            return set(out)
        return out
    raise NotConstant(unparse(node)[:60])


def _bind(target, value, env):
    if isinstance(target, ast.Name):
        env[target.id] = value
    elif isinstance(target, (ast.Tuple, ast.List)):
        vals = list(value)
        if len(vals) != len(target.elts):
            raise NotConstant("unpack arity")
        for t, v in zip(target.elts, vals):
            _bind(t, v, env)
    else:
        raise NotConstant("target")


def fold_module_tables(module, names):
    """Replay the top-level statements of `module` that assign/update the given names
    (and any name they depend on that is itself foldable).  Returns env with what
    could be folded; names that could not be folded are absent."""
    env = {}
    for st in module.tree.body:
        try:
            if isinstance(st, ast.Assign) and len(st.targets) == 1 and isinstance(st.targets[0], ast.Name):
                nm = st.targets[0].id
                try:
                    env[nm] = fold(st.value, env)
                except NotConstant:
                    env.pop(nm, None)
            elif isinstance(st, ast.AnnAssign) and isinstance(st.target, ast.Name) and st.value is not None:
                try:
                    env[st.target.id] = fold(st.value, env)
                except NotConstant:
                    env.pop(st.target.id, None)
            elif isinstance(st, ast.Expr) and isinstance(st.value, ast.Call) and isinstance(st.value.func, ast.Attribute):
                c = st.value
                if isinstance(c.func.value, ast.Name) and c.func.value.id in env and c.func.attr == "update" and isinstance(env[c.func.value.id], dict):
                    try:
                        arg = fold(c.args[0], env)
                        env[c.func.value.id] = dict(env[c.func.value.id])
                        env[c.func.value.id].update(arg)
                    except NotConstant:
                        env.pop(c.func.value.id, None)
        except Exception:
            continue
    return {k: v for k, v in env.items() if k in names}
