"""Expression-class model for dask/_expr.py, dask/dataframe/dask_expr/** and dask/array/_array_expr/**:
`_parameters` / `_defaults` resolved through the MRO (including `Base._parameters + [...]`), class
attributes such as `operation`, `reduction_chunk`, ..., and every constructor call site `Cls(a, b, k=v)`
with `Cls` resolved through imports."""
from __future__ import annotations

import ast

from .consteval import NotConstant, fold
from .srcmodel import AnalysisError, ClassInfo, Model, dotted, unparse, walk_no_nested

EXPR_PREFIXES = ("dask/dataframe/dask_expr/", "dask/array/_array_expr/")
EXPR_FILES = ("dask/_expr.py",)


def expr_files(model: Model):
    out = [f for f in model.package_files("dask") if f.startswith(EXPR_PREFIXES) or f in EXPR_FILES]
    return [f for f in out if "/tests/" not in f]


class ExprModel:
    def __init__(self, model: Model):
        self.model = model
        self.files = expr_files(model)
        self.base = model.klass("dask/_expr.py", "Expr")
        self.classes: list[ClassInfo] = []
        for rel in self.files:
            mod = model.module(rel)
            for qn, c in mod.classes():
                ci = model.classinfo(mod, c)
                if self.base in ci.mro:
                    self.classes.append(ci)
        self._params: dict[int, list | None] = {}

    # -- attribute folding through the MRO
    def _fold_attr(self, ci: ClassInfo, attr: str, depth=0):
        if depth > 12:
            raise NotConstant("depth")
        owner, val = ci.lookup(attr)
        if val is None:
            raise NotConstant(f"{ci.name}.{attr} undefined")
        return self._fold_in(owner, val, attr, depth)

    def _fold_in(self, owner: ClassInfo, node, attr, depth):
        """fold `node` (defined in class `owner`), resolving `Other.<attr>` references"""
        if isinstance(node, ast.Attribute) and node.attr in ("_parameters", "_defaults", "_keyword_only"):
            tgt = self.model.resolve_class(owner.module, node.value, owner.node)
            if tgt is None:
                raise NotConstant(unparse(node))
            return self._fold_attr(tgt, node.attr, depth + 1)
        if isinstance(node, ast.BinOp) and isinstance(node.op, ast.Add):
            return self._fold_in(owner, node.left, attr, depth) + self._fold_in(owner, node.right, attr, depth)
        if isinstance(node, ast.Dict):
            out = {}
            for k, v in zip(node.keys, node.values):
                if k is None:
                    out.update(self._fold_in(owner, v, attr, depth))
                else:
                    try:
                        out[fold(k)] = fold(v)
                    except NotConstant:
                        out[fold(k)] = ("<expr>", unparse(v))
            return out
        if isinstance(node, ast.Subscript):
            base = self._fold_in(owner, node.value, attr, depth)
            if isinstance(node.slice, ast.Slice):
                lo = fold(node.slice.lower) if node.slice.lower else None
                hi = fold(node.slice.upper) if node.slice.upper else None
                return base[lo:hi]
            return base[fold(node.slice)]
        if isinstance(node, ast.Call) and isinstance(node.func, ast.Name) and node.func.id in ("list", "tuple") and len(node.args) == 1:
            return list(self._fold_in(owner, node.args[0], attr, depth))
        return fold(node)

    def parameters(self, ci: ClassInfo):
        k = id(ci)
        if k not in self._params:
            try:
                v = self._fold_attr(ci, "_parameters")
                self._params[k] = list(v) if isinstance(v, (list, tuple)) else None
            except (NotConstant, Exception):
                self._params[k] = None
        return self._params[k]

    def defaults(self, ci: ClassInfo):
        try:
            v = self._fold_attr(ci, "_defaults")
            return v if isinstance(v, dict) else None
        except (NotConstant, Exception):
            return None

    def keyword_only(self, ci: ClassInfo):
        try:
            v = self._fold_attr(ci, "_keyword_only")
            return list(v)
        except (NotConstant, Exception):
            return None

    def attr_source(self, ci: ClassInfo, attr: str):
        owner, val = ci.lookup(attr)
        return owner, val

    # -- constructor sites
    def constructor_sites(self):
        """Yield (module, call node, ClassInfo) for every call whose callee resolves to an expression class."""
        byname_cache = {}
        for rel in self.files:
            mod = self.model.module(rel)
            for node in ast.walk(mod.tree):
                if not isinstance(node, ast.Call):
                    continue
                d = dotted(node.func)
                if d is None or d.startswith("self.") or d in ("type", "super"):
                    continue
                head = d.split(".")[0]
                if not (head[:1].isupper() or "." in d):
                    continue
                key = (rel, d)
                if key not in byname_cache:
                    ci = None
                    try:
                        scope = None
                        ci = self.model.resolve_class(mod, node.func, scope)
                    except Exception:
                        ci = None
                    if ci is not None and self.base not in ci.mro:
                        ci = None
                    byname_cache[key] = ci
                ci = byname_cache[key]
                if ci is not None:
                    yield mod, node, ci

    def variadic(self, ci: ClassInfo) -> bool:
        """Classes that take a variable number of operands (own __new__/operands handling)."""
        for c in ci.mro:
            if c is self.base:
                break
            if c.module.relpath == "dask/_expr.py" and c.name in ("SingletonExpr", "Expr"):
                continue  # generic operand handling: positional operands in _parameters order
            if "__new__" in c.own_methods or "__init__" in c.own_methods:
                return True
        return False


def arg_param_name(arg):
    """If a positional argument is `x`, `self.x`, or `self.operand("x")` return "x"."""
    if isinstance(arg, ast.Name):
        return arg.id
    if isinstance(arg, ast.Attribute) and isinstance(arg.value, ast.Name) and arg.value.id == "self":
        return arg.attr
    if isinstance(arg, ast.Call) and isinstance(arg.func, ast.Attribute) and arg.func.attr == "operand" and len(arg.args) == 1 and isinstance(arg.args[0], ast.Constant):
        return arg.args[0].value
    return None
