"""Statement-level control-flow graph for one function, with branch-outcome nodes,
dominators and post-dominators.

Nodes
-----
* ``entry`` / ``exit`` (normal return) / ``raise`` (exceptional exit)
* ``stmt``   a simple statement (Assign, Expr, Return, Raise, Delete, ...), or the
             *header* of a compound statement (``if``/``while`` test, ``for`` iterator,
             ``with`` items, ``try`` marker)
* ``branch`` one node per branch outcome: (``if``/``while`` test, True|False),
             (``for``, "iter"|"exhausted"), (``except`` handler), (``match`` case).
             They make "site S is only reached when test T was true" an ordinary
             dominance query.

``try/finally``: the ``finally`` suite is instantiated once per way of reaching it
(normal fall-through, exception, and each ``return``/``break``/``continue`` that
crosses it).  Inside a ``try`` body every statement gets an exceptional edge to
the handlers (any statement may raise); outside of any ``try`` implicit exceptions
are not modelled (they leave the function and cannot affect dominance of
later statements).
"""
from __future__ import annotations

import ast
from dataclasses import dataclass, field

from .srcmodel import AnalysisError, unparse


@dataclass
class Node:
    idx: int
    kind: str  # entry | exit | raise | stmt | branch
    ast: object = None  # statement or test expression
    label: tuple | None = None  # for branch nodes: (origin, expr, outcome)
    copy: int = 0  # >0 for duplicated finally suites

    def __repr__(self):
        if self.kind == "branch":
            o, e, out = self.label
            return f"<{self.idx} {o} {unparse(e)[:40]} -> {out}>"
        if self.kind == "stmt":
            return f"<{self.idx} L{getattr(self.ast, 'lineno', '?')} {unparse(self.ast)[:50]!r}>"
        return f"<{self.idx} {self.kind}>"


class _Ctx:
    def __init__(self):
        self.loops = []  # (continue_target_idx, break_collector:list)
        self.handlers = []  # list of handler-entry collectors: each a list of node idx that can raise into
        self.finallys = []  # stack of (finalbody, depth markers)


class CFG:
    def __init__(self, func):
        self.func = func
        self.nodes: list[Node] = []
        self.succ: dict[int, list[int]] = {}
        self.pred: dict[int, list[int]] = {}
        self.entry = self._new("entry")
        self.exit = self._new("exit")
        self.raise_exit = self._new("raise")
        self._stmt_nodes: dict[int, list[int]] = {}  # id(ast stmt) -> node idxs
        # frames: stack of dicts describing enclosing constructs, innermost last
        self._frames: list[dict] = []
        body = func.body if hasattr(func, "body") and isinstance(func.body, list) else [ast.Expr(func.body)]
        ends = self._block(body, [self.entry])
        for e in ends:
            self._edge(e, self.exit)
        self._dom = None
        self._pdom = None

    # ------------------------------------------------------------------ construction
    def _new(self, kind, node=None, label=None) -> int:
        n = Node(len(self.nodes), kind, node, label)
        self.nodes.append(n)
        self.succ[n.idx] = []
        self.pred[n.idx] = []
        if kind in ("stmt",) and node is not None:
            self._stmt_nodes.setdefault(id(node), []).append(n.idx)
        return n.idx

    def _edge(self, a, b):
        if b not in self.succ[a]:
            self.succ[a].append(b)
            self.pred[b].append(a)

    def _stmt(self, node, preds) -> int:
        i = self._new("stmt", node)
        for p in preds:
            self._edge(p, i)
        self._maybe_raises(i)
        return i

    def _branch(self, origin, expr, outcome, pred) -> int:
        i = self._new("branch", expr, (origin, expr, outcome))
        self._edge(pred, i)
        return i

    def _maybe_raises(self, i):
        """Statement i may raise: add the exceptional edge to the innermost try frame."""
        for fr in reversed(self._frames):
            if fr["kind"] == "try-body":
                fr["raisers"].append(i)
                return
            if fr["kind"] == "finally-guard":
                fr["raisers"].append(i)
                return
        # outside any try: implicit exceptions leave the function; not modelled

    def _block(self, stmts, preds) -> list[int]:
        cur = list(preds)
        for st in stmts:
            if not cur:
                # unreachable code: still build it so sites exist, but disconnected
                cur = []
            cur = self._statement(st, cur)
        return cur

    def _statement(self, st, preds) -> list[int]:
        if isinstance(st, ast.If):
            t = self._stmt(st, preds)
            bt = self._branch("if", st.test, True, t)
            bf = self._branch("if", st.test, False, t)
            e1 = self._block(st.body, [bt])
            e2 = self._block(st.orelse, [bf])
            return e1 + e2
        if isinstance(st, ast.While):
            t = self._stmt(st, preds)
            bt = self._branch("while", st.test, True, t)
            always = isinstance(st.test, ast.Constant) and bool(st.test.value)
            fr = {"kind": "loop", "head": t, "breaks": []}
            self._frames.append(fr)
            body_ends = self._block(st.body, [bt])
            self._frames.pop()
            for e in body_ends:
                self._edge(e, t)
            outs = []
            if not always:
                bf = self._branch("while", st.test, False, t)
                outs = self._block(st.orelse, [bf])
            return outs + fr["breaks"]
        if isinstance(st, (ast.For, ast.AsyncFor)):
            h = self._stmt(st, preds)
            bi = self._branch("for", st.iter, "iter", h)
            bx = self._branch("for", st.iter, "exhausted", h)
            fr = {"kind": "loop", "head": h, "breaks": []}
            self._frames.append(fr)
            body_ends = self._block(st.body, [bi])
            self._frames.pop()
            for e in body_ends:
                self._edge(e, h)
            outs = self._block(st.orelse, [bx])
            return outs + fr["breaks"]
        if isinstance(st, (ast.With, ast.AsyncWith)):
            h = self._stmt(st, preds)
            return self._block(st.body, [h])
        if isinstance(st, (ast.Try, getattr(ast, "TryStar", ast.Try))):
            return self._try(st, preds)
        if isinstance(st, ast.Match):
            h = self._stmt(st, preds)
            outs = []
            exhaustive = False
            for case in st.cases:
                b = self._branch("match", case.pattern, "case", h)
                outs += self._block(case.body, [b])
                if isinstance(case.pattern, ast.MatchAs) and case.pattern.pattern is None and case.guard is None:
                    exhaustive = True
            if not exhaustive:
                outs.append(self._branch("match", st.subject, "nomatch", h))
            return outs
        if isinstance(st, ast.Return):
            i = self._stmt(st, preds)
            self._jump(i, "return")
            return []
        if isinstance(st, ast.Raise):
            i = self._new("stmt", st)
            for p in preds:
                self._edge(p, i)
            self._raise_from(i)
            return []
        if isinstance(st, ast.Break):
            i = self._stmt(st, preds)
            self._jump(i, "break")
            return []
        if isinstance(st, ast.Continue):
            i = self._stmt(st, preds)
            self._jump(i, "continue")
            return []
        # simple statement (incl. nested def/class as a single node)
        i = self._stmt(st, preds)
        return [i]

    # -- try / finally
    def _try(self, st, preds) -> list[int]:
        h = self._stmt(st, preds)  # marker node for the try statement itself
        has_final = bool(st.finalbody)
        final_fr = None
        if has_final:
            final_fr = {"kind": "finally-guard", "stmt": st, "raisers": [], "jumps": []}
            self._frames.append(final_fr)
        body_fr = {"kind": "try-body", "raisers": [h]}
        self._frames.append(body_fr)
        body_ends = self._block(st.body, [h])
        self._frames.pop()
        # else clause runs after body without exception; exceptions there are not caught here
        else_ends = self._block(st.orelse, body_ends) if st.orelse else body_ends
        outs = list(else_ends)
        catch_all = False
        for hd in st.handlers:
            b = self._new("branch", hd, ("except", hd.type, "caught"))
            for r in body_fr["raisers"]:
                self._edge(r, b)
            outs += self._block(hd.body, [b])
            if hd.type is None or (isinstance(hd.type, ast.Name) and hd.type.id == "BaseException"):
                catch_all = True
        if not st.handlers or not catch_all:
            # exception propagates past the handlers
            prop = self._new("branch", st, ("except", None, "propagate"))
            for r in body_fr["raisers"]:
                self._edge(r, prop)
            self._raise_from(prop, skip_self_try=True, final_fr=final_fr)
        if has_final:
            self._frames.pop()
            # normal completion
            ends = self._block(st.finalbody, outs) if outs else []
            # exceptional completion: raisers inside handlers/else/propagation
            if final_fr["raisers"]:
                ex_ends = self._block_copy(st.finalbody, final_fr["raisers"])
                for e in ex_ends:
                    self._raise_from(e)
            for kind, src in final_fr["jumps"]:
                j_ends = self._block_copy(st.finalbody, [src])
                for e in j_ends:
                    self._jump(e, kind, via_finally=True)
            return ends
        return outs

    def _block_copy(self, stmts, preds):
        # a fresh instantiation of the suite (new nodes for the same ast statements)
        return self._block(stmts, preds)

    def _raise_from(self, i, skip_self_try=False, final_fr=None):
        """Node i raises: connect to the innermost enclosing try-body handlers or finally,
        else to the exceptional exit."""
        for fr in reversed(self._frames):
            if fr["kind"] == "try-body":
                fr["raisers"].append(i)
                return
            if fr["kind"] == "finally-guard":
                fr["raisers"].append(i)
                return
        self._edge(i, self.raise_exit)

    def _jump(self, i, kind, via_finally=False):
        """return/break/continue from node i, crossing finally frames."""
        for fr in reversed(self._frames):
            if fr["kind"] == "finally-guard":
                fr["jumps"].append((kind, i))
                return
            if fr["kind"] == "loop" and kind in ("break", "continue"):
                if kind == "break":
                    fr["breaks"].append(i)
                else:
                    self._edge(i, fr["head"])
                return
        if kind == "return":
            self._edge(i, self.exit)
        else:  # pragma: no cover - break outside loop cannot parse
            raise AnalysisError(f"{kind} outside loop")

    # ------------------------------------------------------------------ queries
    def nodes_of(self, node) -> list[int]:
        """CFG nodes of the statement that contains ast node ``node``."""
        n = node
        while n is not None:
            if id(n) in self._stmt_nodes:
                return self._stmt_nodes[id(n)]
            if n is self.func:
                break
            n = getattr(n, "_parent", None)
        return []

    def node_of(self, node) -> int:
        ns = self.nodes_of(node)
        if not ns:
            raise AnalysisError(f"no CFG node for {unparse(node)[:60]!r} in {getattr(self.func, 'name', '?')}")
        return ns[0]

    def reachable(self, start=None) -> set[int]:
        start = self.entry if start is None else start
        seen = {start}
        st = [start]
        while st:
            x = st.pop()
            for s in self.succ[x]:
                if s not in seen:
                    seen.add(s)
                    st.append(s)
        return seen

    def _compute_dom(self, entry, succ, pred):
        order = []
        seen = set()

        def dfs(root):
            stack = [(root, iter(succ[root]))]
            seen.add(root)
            while stack:
                x, it = stack[-1]
                for s in it:
                    if s not in seen:
                        seen.add(s)
                        stack.append((s, iter(succ[s])))
                        break
                else:
                    order.append(x)
                    stack.pop()

        dfs(entry)
        rpo = list(reversed(order))
        num = {n: i for i, n in enumerate(rpo)}
        idom = {entry: entry}

        def intersect(a, b):
            while a != b:
                while num[a] > num[b]:
                    a = idom[a]
                while num[b] > num[a]:
                    b = idom[b]
            return a

        changed = True
        while changed:
            changed = False
            for n in rpo[1:]:
                ps = [p for p in pred[n] if p in idom]
                if not ps:
                    continue
                new = ps[0]
                for p in ps[1:]:
                    new = intersect(new, p)
                if idom.get(n) != new:
                    idom[n] = new
                    changed = True
        return idom

    @property
    def idom(self):
        if self._dom is None:
            self._dom = self._compute_dom(self.entry, self.succ, self.pred)
        return self._dom

    @property
    def ipdom(self):
        if self._pdom is None:
            self._pdom = self._compute_dom(self.exit, self.pred, self.succ)
        return self._pdom

    def dominators(self, n: int) -> list[int]:
        """Strict and non-strict dominators of n, from n up to entry (n first)."""
        idom = self.idom
        if n not in idom:
            return []
        out = [n]
        while idom[n] != n:
            n = idom[n]
            out.append(n)
        return out

    def dominates(self, a: int, b: int) -> bool:
        return a in self.dominators(b)

    def postdominates(self, a: int, b: int) -> bool:
        """a is on every path from b to the *normal* exit."""
        ip = self.ipdom
        if b not in ip:
            return False
        n = b
        while True:
            if n == a:
                return True
            if ip[n] == n:
                return False
            n = ip[n]

    def conditions(self, node) -> list[tuple]:
        """Branch outcomes that dominate (every instance of) the statement containing
        ``node``: list of (origin, expr, outcome), innermost first.  For statements
        instantiated several times (finally copies) the intersection is returned."""
        idxs = self.nodes_of(node) if not isinstance(node, int) else [node]
        if not idxs:
            raise AnalysisError(f"no CFG node for {unparse(node)[:60]!r}")
        result = None
        for i in idxs:
            if i not in self.idom:
                continue  # unreachable instance
            conds = []
            for d in self.dominators(i):
                nd = self.nodes[d]
                if nd.kind == "branch":
                    conds.append(nd.label)
            if result is None:
                result = conds
            else:
                keys = {(c[0], ast.dump(c[1]) if isinstance(c[1], ast.AST) else None, c[2]) for c in conds}
                result = [
                    c
                    for c in result
                    if (c[0], ast.dump(c[1]) if isinstance(c[1], ast.AST) else None, c[2]) in keys
                ]
        return result or []

    def facts(self, node) -> list[tuple]:
        """Atomic boolean facts (expr, polarity) known to hold at ``node`` from the
        dominating ``if``/``while`` outcomes, with and/or/not decomposed."""
        out = []
        for origin, expr, outcome in self.conditions(node):
            if origin in ("if", "while") and isinstance(expr, ast.AST):
                _atoms(expr, bool(outcome), out)
        return out

    def between(self, a: int, b: int) -> set[int]:
        """Nodes on some path from a to b (a, b included) not passing through b first."""
        fwd = set()
        st = [a]
        while st:
            x = st.pop()
            if x in fwd:
                continue
            fwd.add(x)
            if x == b:
                continue
            st.extend(self.succ[x])
        bwd = set()
        st = [b]
        while st:
            x = st.pop()
            if x in bwd:
                continue
            bwd.add(x)
            if x == a:
                continue
            st.extend(self.pred[x])
        return fwd & bwd

    def all_paths_pass(self, a: int, b: int, via: set[int]) -> bool:
        """Every path from a to b passes through a node in ``via``."""
        seen = set()
        st = [a]
        while st:
            x = st.pop()
            if x in seen or x in via:
                continue
            seen.add(x)
            if x == b and x != a:
                return False
            st.extend(self.succ[x])
        return b not in seen or b == a

    def stmt_nodes(self):
        return [n for n in self.nodes if n.kind == "stmt"]


def _atoms(expr, pol: bool, out: list):
    if isinstance(expr, ast.UnaryOp) and isinstance(expr.op, ast.Not):
        _atoms(expr.operand, not pol, out)
        return
    if isinstance(expr, ast.BoolOp):
        if isinstance(expr.op, ast.And) and pol:
            for v in expr.values:
                _atoms(v, True, out)
            return
        if isinstance(expr.op, ast.Or) and not pol:
            for v in expr.values:
                _atoms(v, False, out)
            return
    if isinstance(expr, ast.Compare) and len(expr.ops) == 1:
        # normalise negative comparison operators to positive ones with flipped polarity
        op = expr.ops[0]
        flip = {ast.NotIn: ast.In, ast.IsNot: ast.Is, ast.NotEq: ast.Eq}
        for neg, posop in flip.items():
            if isinstance(op, neg):
                e2 = ast.Compare(left=expr.left, ops=[posop()], comparators=expr.comparators)
                out.append((e2, not pol))
                return
    out.append((expr, pol))


_cfg_cache: dict[int, CFG] = {}


def cfg_of(func) -> CFG:
    c = _cfg_cache.get(id(func))
    if c is None or c.func is not func:
        c = CFG(func)
        _cfg_cache[id(func)] = c
    return c
