"""Rules that apply to every claimed property, over the property's anchor files
(properties.jsonl: anchors.files) -- evaluated after the property's own rule module.

DEFAULT.none-only   a parameter whose default is None stands for "not given".  Replacing it by its
                    default under a truthiness test (`if not p:` / `p = p or d`) also replaces the legal
                    falsy values (0, "", (), [], an empty Bag ...).  Across the package only the sites
                    below use the truthiness idiom, each confirmed by reading to treat every falsy value
                    like None; anywhere else the replacement must be guarded by `is None`.
"""
from __future__ import annotations

import ast
import json
import os

from .lib import none_default_rebinds, walk_no_nested
from .srcmodel import unparse

TRUTHY_OK = {
    ("dask/array/_array_expr/_collection.py", "Array.transpose", "axes"): "transpose(()) means reverse the axes, as in NumPy",
    ("dask/array/routines.py", "transpose", "axes"): "transpose(a, ()) means reverse the axes, as in NumPy",
    ("dask/array/core.py", "elemwise", "name"): "an empty name asks for the generated one",
    ("dask/array/tiledb_io.py", "from_tiledb", "attribute"): "no attribute given -> the first one",
    ("dask/bag/core.py", "from_sequence", "partition_size"): "0 is not a legal partition size",
    ("dask/base.py", "visualize_dsk", "engine"): "no engine name -> configured default",
    ("dask/base.py", "get_scheduler", "get"): "a scheduler function is never falsy",
    ("dask/dataframe/dask_expr/_collection.py", "merge", "on"): "no join columns given -> the common columns",
    ("dask/delayed.py", "delayed", "name"): "an empty name asks for the generated one",
}


# parameters that carry a number (or a seed) for which 0 / 0.0 / False-like values are legal and
# meaningful; across the package none of them is ever tested for truthiness today (surveyed), so
# `if fill_value:` / `seed or default` can only mean "0 is treated as not given"
NUMERIC_PARAMS = {
    "fill_value", "seed", "random_state", "ddof", "k", "q", "depth", "limit", "value", "n", "num", "step", "stop",
    "offset", "shift", "periods", "a_min", "a_max", "initial", "ident", "loc", "scale", "low", "high", "min", "max",
}


def _truth_tests(f):
    out = []
    for node in ast.walk(f):
        tests = []
        if isinstance(node, (ast.If, ast.While, ast.IfExp)):
            tests.append(node.test)
        if isinstance(node, ast.BoolOp):
            tests.extend(node.values[:-1] if isinstance(node.op, ast.Or) else node.values)
        if isinstance(node, ast.UnaryOp) and isinstance(node.op, ast.Not):
            tests.append(node.operand)
        for t in tests:
            if isinstance(t, ast.Name):
                out.append((t.id, node))
    return out


# ARGPOS.named-call: a plain variable that is named like a parameter of the (resolved) callee is passed in
# that parameter's slot.  4446 resolved call sites in the package obey this; the sites below are the
# reviewed exceptions (deliberate reversal, unbound-method calls that pass the receiver first, a local that
# merely shares a name).
ARGPOS_OK = {
    ("dask/array/_array_expr/_rechunk.py", "_compute_rechunk", "name"): "the local `name` is the output name; the callee's `name` parameter is the input's name (passed last)",
    ("dask/array/core.py", "from_collections", "layer"): "local `layer` is the layer NAME, passed as `name`",
    ("dask/bag/core.py", "from_collections", "layer"): "local `layer` is the layer NAME, passed as `name`",
    ("dask/dataframe/dask_expr/_collection.py", "from_collections", "layer"): "local `layer` is the layer NAME, passed as `name`",
    ("dask/bag/core.py", "digit", "k"): "digit(i, j, k): caller's loop variables, unrelated to digit's parameter names",
    ("dask/dataframe/dask_expr/_accessor.py", "_bind_method", "pd_cls"): "classmethod object called with cls explicitly",
    ("dask/dataframe/dask_expr/_accessor.py", "_bind_method", "attr"): "classmethod object called with cls explicitly",
    ("dask/dataframe/dask_expr/_accessor.py", "_bind_property", "pd_cls"): "classmethod object called with cls explicitly",
    ("dask/dataframe/dask_expr/_accessor.py", "_bind_property", "attr"): "classmethod object called with cls explicitly",
    ("dask/dataframe/dask_expr/_expr.py", "_simplify_up", "parent"): "unbound method call Filter._simplify_up(self, parent, dependents)",
    ("dask/dataframe/groupby.py", "_adjust_for_arrow_na", "result"): "caller's `result` is the callee's second argument `other`; the callee's first parameter happens to be called result",
    ("dask/dataframe/io/hdf.py", "compute_as_if_collection", "keys"): "first argument is the collection class",
    ("dask/dataframe/utils.py", "make_meta", "index"): "make_meta(x, index=None): the local named index IS the object to make meta of",
    ("dask/optimization.py", "subs", "val"): "subs(task, key, val): the caller's `val` is the task being rewritten",
    ("dask/order.py", "_connecting_to_roots", "dependents"): "deliberate reversal: leaves are found by walking the reversed graph",
    ("dask/order.py", "_connecting_to_roots", "dependencies"): "deliberate reversal: leaves are found by walking the reversed graph",
    ("dask/utils.py", "_derived_from", "method"): "first argument is the class; keyword arguments follow",
}


_UNUSED_OK = None


def _unused_ok():
    """Parameters that are accepted but not read on the pinned tree (122 of 7354): callback/plugin
    signatures, dispatch interfaces, deprecated or reserved options.  They are the baseline, not findings;
    a parameter that STOPS being read (a forwarding that was dropped) is what the rule reports."""
    global _UNUSED_OK
    if _UNUSED_OK is None:
        with open(os.path.join(os.path.dirname(os.path.abspath(__file__)), "unused_params_ok.json")) as f:
            _UNUSED_OK = {tuple(x) for x in json.load(f)}
    return _UNUSED_OK


def _trivial_body(f):
    body = [s_ for s_ in f.body if not (isinstance(s_, ast.Expr) and isinstance(s_.value, ast.Constant))]
    if not body:
        return True
    if len(body) == 1 and isinstance(body[0], (ast.Pass, ast.Raise)):
        return True
    if len(body) == 1 and isinstance(body[0], ast.Return) and (body[0].value is None or isinstance(body[0].value, ast.Constant)):
        return True
    return False


def _side_tokens(node):
    import re

    toks = []
    for n in ast.walk(node):
        name = None
        if isinstance(n, ast.Name):
            name = n.id
        elif isinstance(n, ast.Attribute):
            name = n.attr
        elif isinstance(n, ast.keyword) and n.arg:
            name = n.arg
        if name:
            parts = name.split("_")
            if "left" in parts:
                toks.append(("L", name))
            if "right" in parts:
                toks.append(("R", name))
    return toks


def _mirror(t: str) -> str:
    return t.replace("left", "\0").replace("right", "left").replace("\0", "right")


def anchor_files(prop: str) -> list[str]:
    p = os.path.join(os.path.dirname(os.path.dirname(os.path.abspath(__file__))), "properties.jsonl")
    with open(p) as f:
        for line in f:
            d = json.loads(line)
            if d["id"] == prop:
                return [x for x in d["anchors"]["files"] if x.endswith(".py")]
    return []


def check(ctx):
    model = ctx.model
    n = 0
    for rel in anchor_files(ctx.prop):
        if not model.exists(rel):
            continue
        mod = model.module(rel)
        for qn, f in mod.functions():
            try:
                rbs = none_default_rebinds(f)
            except Exception:
                continue
            for a, p, by_none, by_truth, raw in rbs:
                n += 1
                if by_truth and not by_none:
                    why = TRUTHY_OK.get((rel, qn, p))
                    ctx.ob(
                        "DEFAULT.none-only",
                        a,
                        f"{qn}: `{p}` (default None) is replaced by {unparse(a.value)[:50]} only when it is None",
                        why is not None,
                        why or f"`{p}` is replaced whenever it is falsy: a legal falsy argument (0, an empty list/tuple/string) is silently treated as not given",
                        nontrivial=why is None,
                    )
                elif by_none:
                    ctx.ob("DEFAULT.none-only", a, f"{qn}: `{p}` (default None) is replaced by {unparse(a.value)[:50]} only when it is None", True, nontrivial=False)
        # `p = p or default` spelled as an expression
        for qn, f in mod.functions():
            a_ = f.args
            pos = a_.posonlyargs + a_.args
            dflt = [None] * (len(pos) - len(a_.defaults)) + list(a_.defaults)
            nonep = {x.arg for x, d in zip(pos, dflt) if isinstance(d, ast.Constant) and d.value is None} | {x.arg for x, d in zip(a_.kwonlyargs, a_.kw_defaults) if isinstance(d, ast.Constant) and d.value is None}
            for st in ast.walk(f):
                if isinstance(st, ast.Assign) and len(st.targets) == 1 and isinstance(st.targets[0], ast.Name) and st.targets[0].id in nonep and isinstance(st.value, ast.BoolOp) and isinstance(st.value.op, ast.Or) and isinstance(st.value.values[0], ast.Name) and st.value.values[0].id == st.targets[0].id:
                    pass  # the `x = x or d` spelling is surveyed separately (see OR_OK)
    ctx.count("none_default_rebinds", n)
    # ---------------- SIDE.consistent: code that treats a left and a right input comes in mirrored pairs.
    # A call that names one side everywhere except in ONE identifier, while the function also contains
    # the exact mirror image of its corrected form, is a contradiction between the two halves (no such
    # call exists in the package today).
    for rel in anchor_files(ctx.prop):
        if not model.exists(rel):
            continue
        mod = model.module(rel)
        for qn, f in mod.functions():
            calls_ = [c for c in ast.walk(f) if isinstance(c, ast.Call)]
            if not calls_:
                continue
            texts = None
            for c in calls_:
                toks = _side_tokens(c)
                L = [t for k, t in toks if k == "L"]
                R = [t for k, t in toks if k == "R"]
                if not L or not R or len(L) + len(R) < 3:
                    continue
                minority = L if len(L) < len(R) else R
                if len(minority) != 1:
                    continue
                if texts is None:
                    texts = {unparse(x) for x in calls_}
                fixed = unparse(c).replace(minority[0], _mirror(minority[0]))
                if _mirror(fixed) in texts:
                    ctx.ob(
                        "SIDE.consistent",
                        c,
                        f"{qn}: `{unparse(c)[:70]}` names one side throughout",
                        False,
                        f"`{minority[0]}` belongs to the other side, and the function contains the mirror image `{_mirror(fixed)[:70]}` of the corrected call: one input is processed with the other input's key/flag",
                    )
    # ---------------- PARAM.used: an option that a function accepts is read by it
    okset = _unused_ok()
    n_par = 0
    for rel in anchor_files(ctx.prop):
        if not model.exists(rel):
            continue
        mod = model.module(rel)
        for qn, f in mod.functions():
            if _trivial_body(f) or any("abstractmethod" in unparse(d) or "overload" in unparse(d) for d in f.decorator_list):
                continue
            if any(isinstance(c, ast.Call) and isinstance(c.func, ast.Name) and c.func.id in ("locals", "vars") for c in ast.walk(f)):
                continue
            used = {x.id for x in ast.walk(f) if isinstance(x, ast.Name)}
            for a in f.args.posonlyargs + f.args.args + f.args.kwonlyargs:
                p_ = a.arg
                if p_ in ("self", "cls") or p_.startswith("_"):
                    continue
                n_par += 1
                if p_ not in used and (rel, qn, p_) not in okset:
                    ctx.ob("PARAM.used", f, f"{qn}: parameter `{p_}` is read", False, f"`{p_}` is accepted but never used: the option (or the value a caller forwards) is silently ignored")
    ctx.count("parameters_checked", n_par)
    # ---------------- TRUTH.slice-bound: None means "open end"; 0 is a real bound.  The only truthiness idioms
    # over slice bounds in the package are `s.start or 0`, `s.step or 1` and `s.step and s.step < 0`, where
    # 0 and None mean the same.  `.stop` is never truth-tested: slice(0, 0) is the empty slice, not an open one.
    for rel in anchor_files(ctx.prop):
        if not model.exists(rel):
            continue
        mod = model.module(rel)
        for node in ast.walk(mod.tree):
            tests = []
            if isinstance(node, (ast.If, ast.While, ast.IfExp)):
                tests.append(node.test)
            if isinstance(node, ast.BoolOp):
                tests.extend(node.values[:-1] if isinstance(node.op, ast.Or) else node.values)
            if isinstance(node, ast.UnaryOp) and isinstance(node.op, ast.Not):
                tests.append(node.operand)
            for t in tests:
                if not (isinstance(t, ast.Attribute) and t.attr in ("start", "stop", "step")):
                    continue
                u = unparse(node)
                base = unparse(t)
                okay = (t.attr == "start" and isinstance(node, ast.BoolOp) and isinstance(node.op, ast.Or) and u == f"{base} or 0") or (
                    t.attr == "step" and isinstance(node, ast.BoolOp) and (u == f"{base} or 1" or (isinstance(node.op, ast.And) and f"{base} < 0" in u))
                )
                ctx.ob("TRUTH.slice-bound", node, f"`{u[:60]}`: a slice bound is compared with None (0 is a real bound)", okay, "" if okay else f"`{base}` is tested for truthiness: a bound of 0 (e.g. the empty slice [:0]) is treated like an open end", nontrivial=not okay)
    # ---------------- PARAM.loop-rebound-returned: a parameter is given a new, unrelated value inside a loop and the
    # function then returns it -- two meanings share one name (this is how the expression engine's
    # _compute_rechunk returned a split key as the name of its output)
    LOOP_REBOUND_OK = {("dask/rewrite.py", "RuleSet._rewrite", "term"): "the loop rewrites the term itself; the rewritten term is the result"}
    extra_files = ["dask/array/_array_expr/_rechunk.py"] if ctx.prop in ("C23", "C30") else []
    for rel in list(anchor_files(ctx.prop)) + extra_files:
        if not model.exists(rel):
            continue
        mod = model.module(rel)
        for qn, f in mod.functions():
            params = {a.arg for a in f.args.posonlyargs + f.args.args + f.args.kwonlyargs}
            if not params:
                continue
            for loop in walk_no_nested(f):
                if not isinstance(loop, (ast.For, ast.While)):
                    continue
                for st in ast.walk(loop):
                    if not isinstance(st, ast.Assign):
                        continue
                    for tg in st.targets:
                        if isinstance(tg, ast.Name) and tg.id in params and not any(isinstance(x, ast.Name) and x.id == tg.id for x in ast.walk(st.value)):
                            later = [r for r in f.body if isinstance(r, ast.Return) and r.value is not None and r.lineno > (loop.end_lineno or 0) and any(isinstance(x, ast.Name) and x.id == tg.id for x in ast.walk(r.value))]
                            if later:
                                why = LOOP_REBOUND_OK.get((rel, qn, tg.id))
                                ctx.ob("PARAM.loop-rebound-returned", st, f"{qn}: parameter `{tg.id}` is rebound to an unrelated value inside a loop and returned after it", why is not None, why or f"`{tg.id}` no longer holds what the caller passed (nor a value derived from it) when it is returned", nontrivial=why is None)
    # ---------------- NAME.resolves: every name a function reads is a local, an enclosing local, a module-level
    # name, an import or a builtin (symtable scoping).  Over every module the property's rules consulted.
    import builtins as _b
    import symtable as _st

    BI = set(dir(_b)) | {"__file__", "__doc__", "__name__", "__package__", "__spec__", "__loader__", "__builtins__", "__path__", "__class__", "__debug__", "__annotations__"}
    n_mods = 0
    for rel in sorted(set(model.consulted) | set(anchor_files(ctx.prop))):
        if not rel.endswith(".py") or not model.exists(rel) or "/tests/" in rel:
            continue
        src = model.read(rel)
        if "import *" in src:
            continue
        try:
            top = _st.symtable(src, rel, "exec")
        except SyntaxError:
            continue
        n_mods += 1
        modnames = {sy.get_name() for sy in top.get_symbols() if sy.is_assigned() or sy.is_imported() or sy.is_namespace()}

        def _globals_assigned(tbl):
            for ch in tbl.get_children():
                for sy in ch.get_symbols():
                    if sy.is_declared_global() and sy.is_assigned():
                        modnames.add(sy.get_name())
                _globals_assigned(ch)

        _globals_assigned(top)

        def _scan(tbl, path):
            for ch in tbl.get_children():
                p_ = path + [ch.get_name()]
                for sy in ch.get_symbols():
                    if sy.is_referenced() and sy.is_global() and not sy.is_assigned():
                        nm = sy.get_name()
                        if nm not in modnames and nm not in BI:
                            ctx.ob("NAME.resolves", f"{rel}::{'.'.join(p_)}", f"name `{nm}` read in {'.'.join(p_)} is bound somewhere", False, f"`{nm}` is neither a local, an enclosing local, a module-level name, an import nor a builtin: NameError when this path runs")
                _scan(ch, p_)

        _scan(top, [])
    ctx.count("modules_name_checked", n_mods)
    # ---------------- ARGPOS.named-call
    n_calls = 0
    for rel in anchor_files(ctx.prop):
        if not model.exists(rel):
            continue
        mod = model.module(rel)
        for node in ast.walk(mod.tree):
            if not isinstance(node, ast.Call) or not isinstance(node.func, (ast.Name, ast.Attribute)):
                continue
            if any(isinstance(a, ast.Starred) for a in node.args):
                continue
            try:
                q = model.qualified(mod, node.func)
                tgt = model.resolve_qualified(q) if q else None
            except Exception:
                tgt = None
            fn = None
            if isinstance(tgt, tuple):
                for x in tgt:
                    if isinstance(x, ast.FunctionDef):
                        fn = x
            if fn is None:
                continue
            params = [a.arg for a in fn.args.posonlyargs + fn.args.args]
            if params and params[0] in ("self", "cls"):
                params = params[1:]
            n_calls += 1
            for i, a in enumerate(node.args):
                if isinstance(a, ast.Name) and a.id in params and i < len(params) and params.index(a.id) != i:
                    why = ARGPOS_OK.get((rel, fn.name, a.id))
                    ctx.ob(
                        "ARGPOS.named-call",
                        node,
                        f"`{unparse(node)[:60]}`: `{a.id}` is passed as {fn.name}'s `{a.id}`",
                        why is not None,
                        why or f"`{a.id}` is passed in the slot of `{params[i]}` while {fn.name} has a parameter `{a.id}` at position {params.index(a.id)}: arguments are swapped or shifted",
                        nontrivial=why is None,
                    )
    ctx.count("resolved_call_sites", n_calls)
    # ---------------- TRUTH.numeric-param
    from .srcmodel import param_names
    from .dataflow import reaching_of

    for rel in anchor_files(ctx.prop):
        if not model.exists(rel):
            continue
        mod = model.module(rel)
        for qn, f in mod.functions():
            ps = set(param_names(f)) & NUMERIC_PARAMS
            if not ps:
                continue
            for nm, node in _truth_tests(f):
                if nm in ps:
                    ctx.ob(
                        "TRUTH.numeric-param",
                        node,
                        f"{qn}: `{nm}` is a number/seed: it is compared with None, never tested for truthiness",
                        False,
                        f"`{unparse(node)[:60]}` treats {nm}=0 (a legal value) like a missing argument",
                    )
