"""Obligations, reports, evidence and known findings."""
from __future__ import annotations

import ast
import json
import os
import time
from dataclasses import dataclass, field

from .srcmodel import AnalysisError, Model, module_of, qualname_of, unparse

VERIF = os.path.dirname(os.path.dirname(os.path.abspath(__file__)))


@dataclass
class Obligation:
    property: str
    rule: str  # e.g. "C02.DOM.ready-append"
    site: str  # "dask/local.py::finish_task"
    construct: str  # normalised construct, no line numbers
    status: str  # discharged | violated | unrecognised
    detail: str = ""
    line: int = 0
    nontrivial: bool = True
    finding: str | None = None  # id of the known finding that covers it

    def key(self):
        return (self.property, self.rule, self.site, self.construct)

    def asdict(self):
        return {
            "property": self.property,
            "rule": self.rule,
            "site": self.site,
            "construct": self.construct,
            "status": self.status,
            "detail": self.detail,
            "line": self.line,
        }


class Ctx:
    """What a rule module gets: the model, the tier, and the obligation sink."""

    def __init__(self, prop: str, model: Model, tier: str):
        self.floor_failures = []
        self.prop = prop
        self.model = model
        self.tier = tier
        self.obligations: list[Obligation] = []
        self.counters: dict[str, int] = {}
        self.notes: list[str] = []

    # -- sinks
    def ob(self, rule: str, node_or_site, construct: str, ok, detail: str = "", nontrivial=True):
        """Record one obligation.  ok: True discharged / False violated / None unrecognised."""
        if isinstance(node_or_site, str):
            site, line = node_or_site, 0
        else:
            m = module_of(node_or_site)
            site = f"{m.relpath}::{qualname_of(node_or_site)}"
            line = getattr(node_or_site, "lineno", 0)
        status = "discharged" if ok is True else ("violated" if ok is False else "unrecognised")
        o = Obligation(self.prop, f"{self.prop}.{rule}", site, construct, status, detail, line, nontrivial)
        self.obligations.append(o)
        return o

    def count(self, name: str, n: int = 1):
        self.counters[name] = self.counters.get(name, 0) + n

    def floor(self, name: str, minimum: int, what: str = ""):
        """Vacuity guard: a rule whose instance count falls below what was confirmed by
        hand must not pass silently."""
        got = self.counters.get(name, 0)
        if got < minimum:
            # deferred: the remaining rules still run (a change that removes an instance usually also
            # violates a rule further down, and that is the more useful report); the run ends as an
            # analysis error unless a violation was found
            self.floor_failures.append(
                f"vacuity guard: {name} matched {got} site(s), expected at least {minimum}" + (f" ({what})" if what else "")
            )

    def note(self, text: str):
        self.notes.append(text)


def load_known():
    p = os.path.join(VERIF, "known_findings.json")
    if not os.path.exists(p):
        return []
    with open(p) as f:
        return json.load(f)


def apply_known(obs: list[Obligation], known: list[dict]):
    """Mark violated obligations that are listed (status 'known') findings."""
    idx = {}
    for k in known:
        if k.get("status") == "known":
            idx[(k["property"], k["rule"], k["site"], k["construct"])] = k
    used = set()
    for o in obs:
        if o.status == "violated":
            k = idx.get(o.key())
            if k is not None:
                o.finding = k["id"]
                used.add(k["id"])
    return used


def write_outputs(ctx: Ctx, wall: float, seed: int, explanation: str, assumptions: list[str],
                  extra: dict | None = None, analysis_error: str | None = None):
    prop, tier = ctx.prop, ctx.tier
    obs = ctx.obligations
    violated = [o for o in obs if o.status == "violated" and not o.finding]
    known = [o for o in obs if o.status == "violated" and o.finding]
    unrec = [o for o in obs if o.status == "unrecognised"]
    discharged = [o for o in obs if o.status == "discharged"]
    os.makedirs(os.path.join(VERIF, "reports"), exist_ok=True)
    os.makedirs(os.path.join(VERIF, "evidence"), exist_ok=True)
    report_path = os.path.join(VERIF, "reports", f"{prop}-{tier}.json")
    rep = {
        "property": prop,
        "tier": tier,
        "root": ctx.model.root,
        "root_digest": ctx.model.digest(),
        "analysed": dict(ctx.counters, modules=len(ctx.model.consulted)),
        "violations": [o.asdict() for o in violated],
        "known": [dict(o.asdict(), finding=o.finding) for o in known],
        "unrecognised": [o.asdict() for o in unrec],
        "obligations": [o.asdict() for o in obs],
        "notes": ctx.notes,
        "analysis_error": analysis_error,
    }
    with open(report_path, "w") as f:
        json.dump(rep, f, indent=1)
    distinct = {o.key() for o in obs if o.nontrivial}
    samples = []
    seen_rules = set()
    for o in obs:  # one sample per rule first, then fill up
        if o.rule not in seen_rules:
            seen_rules.add(o.rule)
            samples.append(o.asdict())
    samples = samples[:14]
    cov = {
        "explanation": explanation,
        "obligations": len(obs),
        "discharged": len(discharged),
        "evaluations": len(obs),
        "distinct_nontrivial": len(distinct),
        "rule": "one obligation per (rule, site, normalised construct) found in the current source; "
        "non-trivial = the discharge needed a dominance query, a dataflow chain, a table "
        "comparison or an interval computation (counted by the engine)",
        "samples": samples or [{"note": "no obligations"}],
        "checker_cmd": f"bin/sa check {prop} --tier {tier}",
        "trusted_base": [
            "CPython ast parser",
            "sa/srcmodel.py name/class resolution",
            "sa/cfg.py CFG+dominators",
            f"sa/rules/{prop}.py idiom catalogue and exception table",
        ],
        "analysed": rep["analysed"],
        "rules": sorted(seen_rules),
        "known_findings_reported": sorted({o.finding for o in known}),
        "unrecognised": len(unrec),
        "root_digest": rep["root_digest"],
        "exhaustive": True,
    }
    if extra:
        cov.update(extra)
    ev = {
        "property_id": prop,
        "tier": tier,
        "seed": seed,
        "level": "other",
        "coverage": cov,
        "assumptions": assumptions,
        "wall_s": round(wall, 3),
        "violations": len(violated),
    }
    with open(os.path.join(VERIF, "evidence", f"{prop}.json"), "w") as f:
        json.dump(ev, f, indent=1)
    return report_path, violated, known, unrec
