import pandas, sys
sys.path.insert(0, "/tmp/seedwork/stubs")
import dask
dask.config.set({"dataframe.convert-string": False})
import pytest
sys.exit(pytest.main(sys.argv[1:]))
