#!/usr/bin/env python3
"""Print the markdown table of seeded changes (from seeded/*/meta.json) for DESIGN.md."""
import glob, json, os, re
rows = []
for d in sorted(glob.glob("/verif/seeded/*")):
    mp = os.path.join(d, "meta.json")
    if not os.path.exists(mp):
        continue
    m = json.load(open(mp))
    rules = sorted({re.sub(r"^violated (\S+) at .*", r"\1", r) for r in (m.get("reported_rules") or [])})
    site = ""
    diff = open(os.path.join(d, "patch.diff")).read()
    files = sorted(set(re.findall(r"^\+\+\+ b/(\S+)", diff, re.M)))
    summ = (m.get("summary") or "").replace("\n", " ").replace("|", "/")
    rows.append((os.path.basename(d), ", ".join(f.replace("dask/", "") for f in files), "yes" if m.get("detected_by_check") else "**no**", ", ".join(rules)[:110] if rules else (m.get("history") or "")[:110], summ[:150]))
print("| seed | file(s) | caught | reported rule(s) | what the change does |")
print("|---|---|---|---|---|")
for r in rows:
    print("| " + " | ".join(r) + " |")
print(f"\n{sum(1 for r in rows if r[2]=='yes')} of {len(rows)} seeded changes are reported by the property's quick check.")
