#!/usr/bin/env python3
"""Write /verif/seeded/INDEX.md: one row per seeded change (from seeded/*/meta.json) and print a summary
for DESIGN.md."""
import glob, json, os, re
rows = []
for d in sorted(glob.glob("/verif/seeded/*")):
    mp = os.path.join(d, "meta.json")
    if not os.path.exists(mp):
        continue
    m = json.load(open(mp))
    name = os.path.basename(d)
    rnd = {"m1": 1, "m2": 1, "m3": 2, "m4": 2, "m5": 3, "m6": 3, "m7": 4, "m8": 4}.get(name.split("-")[1], "?")
    rules = sorted({re.sub(r"^violated (\S+) at .*", r"\1", r) for r in (m.get("reported_rules") or [])})
    diff = open(os.path.join(d, "patch.diff")).read()
    files = sorted(set(re.findall(r"^\+\+\+ b/(\S+)", diff, re.M)))
    summ = (m.get("summary") or "").replace("\n", " ").replace("|", "/")
    c = m.get("confirmed", {})
    scope = c.get("suite_scope")
    if c.get("suite_matches_baseline") is True:
        suite = "whole pinned suite: same as baseline" if scope in (None, "whole pinned suite") else "pinned tests under " + ", ".join(scope) + ": same as baseline"
    elif c.get("suite_matches_baseline") is False:
        suite = "SUITE DIFFERS"
    else:
        suite = "not run"
    demo = f"{c.get('demo_on_original_rc')}/{c.get('demo_on_changed_rc')}"
    rows.append((name, str(rnd), ", ".join(f.replace("dask/", "") for f in files), "yes" if m.get("detected_by_check") else "**no**", ", ".join(r.split(".", 1)[1] for r in rules)[:120], demo, suite, summ[:160]))
with open("/verif/seeded/INDEX.md", "w") as f:
    f.write("# Seeded changes\n\nEach directory holds patch.diff (apply with `git -C /repo apply`), demo.py (exit 0 on /repo, non-zero with the patch) and meta.json.\n`demo` = exit code on the unchanged tree / with the patch.  `caught` = the property's quick check prints VIOLATION with the patch applied.\n\n")
    f.write("| seed | round | file(s) | caught | reported rule(s) | demo | suite with the patch | what the change does |\n|---|---|---|---|---|---|---|---|\n")
    for r in rows:
        f.write("| " + " | ".join(r) + " |\n")
by_round = {}
for r in rows:
    by_round.setdefault(r[1], [0, 0, 0, 0])
    by_round[r[1]][0] += 1
    by_round[r[1]][1] += r[3] == "yes"
    by_round[r[1]][2] += r[6].endswith("same as baseline")
    by_round[r[1]][3] += r[6] == "SUITE DIFFERS"
for k in sorted(by_round):
    n, det, ok, bad = by_round[k]
    print(f"round {k}: {n} seeds, {det} caught, suite confirmed for {ok}, suite differs for {bad}")
print(f"total {len(rows)} seeds, {sum(1 for r in rows if r[3]=='yes')} caught")
