#!/venv/bin/python
"""For every `fix:` commit in /repo: revert just that commit in a scratch worktree
(under /var/tmp, removed afterwards) and run the property's quick check against it.
A fixed entry in known_findings.json suppresses nothing, so the check must report the
violation again when the defect returns.  Development helper, not a registered check.

usage: fix_regress.py [--json out.json]
"""
import json
import os
import subprocess
import sys

FIXES = {  # subject prefix -> properties whose check must fire when the fix is reverted
    "fix: tokenize frozensets": ["C12"],
    "fix: config.set records": ["C17"],
    "fix: dask.core.get accepts": ["C01"],
    "fix: from_array(name=True)": ["C13"],
    "fix: argmin/argmax over all axes": ["C22"],
    "fix: two filters are not merged": ["C43"],
    "fix: a fully-indexed merge": ["C39"],
    "fix: sort_values sends missing": ["C40"],
    "fix: the Or-rewrite of a filter": ["C43"],
    "fix: lazify keeps a fused partition": ["C48"],
    "fix: rewrite matching does not bind": ["C51"],
    "fix: a filter is not pushed below": ["C36"],
    "fix: expression-engine shuffle sizes": ["C30"],
    "fix: choice(replace=False)": ["C28"],
    "fix: a StopIteration raised": ["C04"],
    "fix: dtype and offset tokens": ["C12"],
    "fix: fusing blockwise layers": ["C10"],
    "fix: fuse_roots keeps": ["C10"],
    "fix: subs rewrites keys": ["C09"],
    "fix: None in an index": ["C25"],
    "fix: DependenciesMapping builds": ["C07"],
    "fix: shuffle index dtype": ["C20"],
    "fix: a Callback can be entered again": ["C05"],
    "fix: multi-stage rechunk": ["C30"],
    "fix: a negative-step slice": ["C20"],
    "fix: select results": ["C13"],
    "fix: reshape names": ["C13"],
    "fix: DataFrame tokens cover": ["C12"],
    "fix: eye builds its blocks": ["C34"],
    "fix: read_text keeps the last line": ["C50"],
    "fix: delayed optimize flattens": ["C09"],
    "fix: blockwise(align_arrays=False)": ["C25"],
    "fix: argtopk with k >= n": ["C22"],
    "fix: topk and argtopk declare": ["C22"],
    "fix: Layer.clone renames GraphNode": ["C16"],
    "fix: dataframe collections accept rename": ["C16"],
    "fix: array-expression collections accept rename": ["C16"],
    "fix: squashing two assigns": ["C43"],
    "fix: order() assigns a priority": ["C06"],
    "fix: reshape_blockwise": ["C13"],
    "fix: imread": ["C13"],
    "fix: dict and set tokens": ["C12"],
    "fix: object-array string": ["C12"],
    "fix: memmap tokens": ["C12"],
    "fix: array tokens hash": ["C12"],
    "fix: legacy conversion": ["C08"],
    "fix: nested container": ["C11"],
    "fix: chunksize=-1": ["C01"],
    "fix: coarsen": ["C13"],
    "fix: elemwise": ["C13"],
    "fix: never broadcast": ["C39"],
    "fix: bag sample": ["C49"],
    "fix: parse_timedelta": ["C18"],
    "fix: key_split": ["C18"],
    "fix: natural_sort_key": ["C18"],
    "fix: Cache._start": ["C52"],
    "fix: config.set rolls": ["C17"],
    "fix: add_callbacks": ["C05"],
    "fix: order()": ["C06"],
    "fix: read_text without": ["C50"],
    "fix: store names": ["C29"],
    "fix: computing mixed": ["C14"],
    "fix: cycle reporting": ["C07"],
    "fix: delayed attribute": ["C15"],
    "fix: Generator.choice": ["C28"],
    "fix: a broadcast join": ["C39"],
    "fix: structured and sub-array": ["C12"],
    "fix: groupby-apply compares": ["C38"],
    "fix: assigning to a column": ["C36"],
    "fix: groupby selections": ["C38"],
    "fix: blelloch scans": ["C22"],
}


# fixes whose lines were changed again by a later fix: (file, text now, text before that fix)
MANUAL_REVERT = {
    "fix: dict and set tokens break ties": ("dask/tokenize.py", "                sorted(d.items(), key=lambda kv: (str(kv[0]), type(kv[0]).__name__))\n", "                sorted(d.items(), key=lambda kv: str(kv[0]))\n"),
    "fix: read_text without": ("dask/bag/text.py", "                + (parts[-1:] if parts[-1] else [])\n", "                + parts[-1:]\n"),
    "fix: shuffle index dtype": ("dask/array/_shuffle.py", "    dtype = np.min_scalar_type(\n        max(*chunks[axis], chunk_size_limit, *map(len, new_chunks))\n    )\n", "    dtype = np.min_scalar_type(max(*chunks[axis], chunk_size_limit))\n"),
    "fix: structured and sub-array dtypes": ("dask/tokenize.py", '        if dtype.kind == "V":\n', '        if False:\n'),
    "fix: a broadcast join no longer claims": ("dask/dataframe/dask_expr/_merge.py", '            "broadcast" in self._parameters\n            and self.is_broadcast_join\n', '            False\n            and self.is_broadcast_join\n'),
    "fix: array tokens hash values in logical order": ("dask/tokenize.py", '                data = hash_buffer_hex(x.ravel(order="C").view("i1"))', '                data = hash_buffer_hex(x.ravel(order="K").view("i1"))'),
}


def sh(*cmd, **kw):
    return subprocess.run(cmd, capture_output=True, text=True, **kw)


def main():
    log = sh("git", "-C", "/repo", "log", "--format=%H %s").stdout.splitlines()
    fixes = [(l.split()[0], l.split(" ", 1)[1]) for l in log if l.split(" ", 1)[1].startswith("fix:")]
    if "--only" in sys.argv:
        pat = sys.argv[sys.argv.index("--only") + 1]
        fixes = [f for f in fixes if pat in f[1]]
    wt = "/var/tmp/fixregress_wt"
    sh("git", "-C", "/repo", "worktree", "remove", "--force", wt)
    r = sh("git", "-C", "/repo", "worktree", "add", "--detach", wt, "HEAD")
    if r.returncode:
        print(r.stderr)
        return 2
    out = []
    bad = 0
    try:
        for sha, subj in fixes:
            props = next((v for k, v in FIXES.items() if subj.startswith(k)), None)
            if props is None:
                print("UNMAPPED", sha[:8], subj)
                bad += 1
                continue
            sh("git", "-C", wt, "checkout", "-q", "--", ".")
            rv = sh("git", "-C", wt, "revert", "-n", sha)
            if rv.returncode:
                # a later fix touched the same lines: re-create the old behaviour by hand
                sh("git", "-C", wt, "revert", "--abort")
                sh("git", "-C", wt, "reset", "-q", "--hard", "HEAD")
                man = next((v for k, v in MANUAL_REVERT.items() if subj.startswith(k)), None)
                if man is None:
                    print("REVERT-CONFLICT", sha[:8], subj)
                    bad += 1
                    continue
                rel, old_t, new_t = man
                path = os.path.join(wt, rel)
                txt = open(path, encoding="utf-8").read()
                if txt.count(old_t) != 1:
                    print("REVERT-CONFLICT (manual revert stale)", sha[:8], subj)
                    bad += 1
                    continue
                open(path, "w", encoding="utf-8").write(txt.replace(old_t, new_t))
            for p in props:
                c = sh("/verif/bin/sa", "check", p, "--root", wt, env=dict(os.environ, SA_NOWRITE="1"))
                fired = [l.strip() for l in c.stdout.splitlines() if l.strip().startswith("violated")]
                det = "VIOLATION property=" in c.stdout
                print(("DETECTED " if det else "MISSED   ") + sha[:8], p, subj)
                for f in fired[:3]:
                    print("     ", f[:220])
                if not det:
                    bad += 1
                out.append({"commit": sha, "subject": subj, "property": p, "detected": det, "rules": fired[:4]})
            sh("git", "-C", wt, "reset", "-q", "--hard", "HEAD")
    finally:
        sh("git", "-C", "/repo", "worktree", "remove", "--force", wt)
        # restore evidence/reports for /repo
        for p in sorted({p for v in FIXES.values() for p in v}):
            sh("/verif/bin/sa", "check", p)
    if "--json" in sys.argv:
        with open(sys.argv[sys.argv.index("--json") + 1], "w") as f:
            json.dump(out, f, indent=1)
    return 1 if bad else 0


if __name__ == "__main__":
    sys.exit(main())
