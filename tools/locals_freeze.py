#!/venv/bin/python
"""Freeze the reference of local-variable names (sa/rules/locals_ref.json.gz) from /repo's current tree.
Run after the rules have been (re)written against the current tree.  See sa/alpha.py."""
import ast, gzip, json, os, sys
sys.path.insert(0, "/verif")
from sa import alpha

root = sys.argv[1] if len(sys.argv) > 1 else "/repo"
ref = {}
nf = 0
for dp, dn, fn in os.walk(os.path.join(root, "dask")):
    dn[:] = [d for d in dn if d not in ("tests", "__pycache__")]
    for f in sorted(fn):
        if not f.endswith(".py"):
            continue
        p = os.path.join(dp, f)
        rel = os.path.relpath(p, root)
        try:
            tree = ast.parse(open(p, encoding="utf-8").read())
        except SyntaxError:
            continue
        alpha.strip_local_annotations(tree)
        snap = alpha.snapshot(tree)
        if snap:
            ref[rel] = snap
            nf += len(snap)
with gzip.open(alpha.REF_PATH, "wt", encoding="utf-8") as f:
    json.dump(ref, f, separators=(",", ":"), sort_keys=True)
print(f"modules={len(ref)} functions={nf} bytes={os.path.getsize(alpha.REF_PATH)}")
