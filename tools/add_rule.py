#!/usr/bin/env python3
"""Development helper: append a block of rule code to the end of check(ctx) of a rule module and
optionally prepend VARIANTS entries.  usage: add_rule.py Cxx block.py [variants.py]"""
import sys, re
prop, blockf = sys.argv[1], sys.argv[2]
p = f"/verif/sa/rules/{prop}.py"
s = open(p).read()
blk = open(blockf).read().rstrip("\n") + "\n"
ci = s.index("def check(ctx):")
lines = s[ci:].split("\n")
off = len(lines[0]) + 1
end = None
for ln in lines[1:]:
    if ln and not ln.startswith((" ", "\t")):
        end = ci + off
        break
    off += len(ln) + 1
assert end is not None
s = s[:end].rstrip("\n") + "\n" + blk + "\n\n" + s[end:]
if len(sys.argv) > 3:
    v = open(sys.argv[3]).read().rstrip("\n") + "\n"
    assert "VARIANTS = [\n" in s
    s = s.replace("VARIANTS = [\n", "VARIANTS = [\n" + v, 1)
open(p, "w").write(s)
print("added to", p)
