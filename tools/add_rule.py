#!/usr/bin/env python3
"""Development helper: append a block of rule code to the end of check(ctx) of a rule module and
optionally prepend VARIANTS entries.  usage: add_rule.py Cxx block.py [variants.py]"""
import sys, re
prop, blockf = sys.argv[1], sys.argv[2]
p = f"/verif/sa/rules/{prop}.py"
s = open(p).read()
blk = open(blockf).read().rstrip("\n") + "\n"
ci = s.index("def check(ctx):")
cands = [s.find("\n\ndef ", ci + 10), s.find("\n\nVARIANTS", ci + 10), s.find("\n\nclass ", ci + 10)]
cands = [c for c in cands if c != -1]
end = min(cands)
s = s[:end].rstrip("\n") + "\n" + blk + s[end:]
if len(sys.argv) > 3:
    v = open(sys.argv[3]).read().rstrip("\n") + "\n"
    assert "VARIANTS = [\n" in s
    s = s.replace("VARIANTS = [\n", "VARIANTS = [\n" + v, 1)
open(p, "w").write(s)
print("added to", p)
