#!/venv/bin/python
"""Confirm one seeded change and file it under /verif/seeded/<name>/ (development helper).
usage: seed_confirm.py <prop> <outdir> <m1|m2> [--fast]
Steps: demo on /repo (must PASS, rc 0); apply diff in the scratch worktree; demo on changed tree
(must fail, rc != 0); pinned suite on the changed tree compared with BASELINE stable_pass;
property quick check against the changed tree; revert; write patch.diff, demo.py, meta.json."""
import json, os, shutil, subprocess, sys
prop, outdir, m = sys.argv[1:4]
fast = "--fast" in sys.argv
wt = os.environ.get("SEED_WT") or f"/tmp/seedwork/wt_{prop}"
diff, demo, info = f"{outdir}/{m}.diff", f"{outdir}/demo_{m}.py", f"{outdir}/{m}.json"
def run(cmd, **kw):
    return subprocess.run(cmd, capture_output=True, text=True, **kw)
def clean(s): return "\n".join(l for l in s.splitlines() if "WARNING" not in l)
run(["git", "-C", wt, "checkout", "-q", "--", "."])
run(["git", "-C", wt, "checkout", "-q", "--detach", "main"])  # the scratch tree follows /repo HEAD (fix: commits)
env0 = dict(os.environ, PYTHONPATH="/repo")
r0 = run(["timeout", "180", "/venv/bin/python", demo], env=env0, cwd="/var/tmp")
a = run(["git", "-C", wt, "apply", diff])
if a.returncode: print("APPLY FAILED", a.stderr); sys.exit(3)
env1 = dict(os.environ, PYTHONPATH=wt)
r1 = run(["timeout", "180", "/venv/bin/python", demo], env=env1, cwd="/var/tmp")
chk = run(["/verif/bin/sa", "check", prop, "--root", wt])
detected = "VIOLATION property=" in chk.stdout
rules = [l.strip() for l in clean(chk.stdout).splitlines() if l.strip().startswith("violated")]
if fast:
    tests = "skipped (--fast)"; tests_ok = None; scope = []
else:
    scope = []
    if "--scope-auto" in sys.argv:
        files = [l[6:].strip() for l in open(diff) if l.startswith("+++ b/")]
        tops = {f.split("/")[1] if f.count("/") >= 2 else "" for f in files}
        table = {"array": ["dask/array", "dask/tests"], "bag": ["dask/bag", "dask/bytes", "dask/tests"], "bytes": ["dask/bytes", "dask/bag", "dask/tests"],
                 "dataframe": ["dask/dataframe", "dask/tests"], "diagnostics": ["dask/diagnostics", "dask/tests"]}
        if tops and all(t_ in table for t_ in tops):
            for t_ in sorted(tops):
                for p_ in table[t_]:
                    if p_ not in scope:
                        scope.append(p_)
    t = run(["/verif/tools/baseline_compare.py", wt, *scope])
    tests = clean(t.stdout).strip().splitlines()[-3:]
    tests_ok = t.returncode == 0
run(["git", "-C", wt, "checkout", "-q", "--", "."])
run(["/verif/bin/sa", "check", prop])
ok = r0.returncode == 0 and r1.returncode != 0 and (tests_ok in (True, None))
meta = json.load(open(info)) if os.path.exists(info) else {}
name = f"{prop}-{m}"
meta.update({"property": prop, "confirmed": {"demo_on_original_rc": r0.returncode, "demo_on_changed_rc": r1.returncode,
             "demo_on_changed_tail": clean(r1.stdout + r1.stderr).strip().splitlines()[-4:],
             "suite_on_changed": tests, "suite_matches_baseline": tests_ok, "suite_scope": (scope if not fast and scope else ("whole pinned suite" if not fast else "not run")),
             "ran": [f"PYTHONPATH=/repo python demo.py", f"git apply patch.diff (scratch worktree); PYTHONPATH=<worktree> python demo.py", "tools/baseline_compare.py <worktree>", f"bin/sa check {prop} --root <worktree>"]},
             "detected_by_check": detected, "reported_rules": rules[:6]})
print(json.dumps({"name": name, "keep": ok, "detected": detected, "demo0": r0.returncode, "demo1": r1.returncode, "tests_ok": tests_ok, "rules": rules[:3]}, indent=1))
if ok:
    d = f"/verif/seeded/{name}"; os.makedirs(d, exist_ok=True)
    shutil.copy(diff, f"{d}/patch.diff"); shutil.copy(demo, f"{d}/demo.py")
    json.dump(meta, open(f"{d}/meta.json", "w"), indent=1)
