#!/venv/bin/python
"""False-alarm self-test (development tool, not a registered check).

For every function that is the site of an obligation of property P, rename one local variable
consistently (a behaviour-preserving edit), apply it as an in-memory overlay and re-run P's quick
check.  The verdict must not change.  Prints the variants that raise an alarm (exit 1) or break the
analysis (exit 2).

usage: neutral_test.py [Cxx ...] [--per-func N] [--jobs J] [--kind rename|annassign|all]
"""
from __future__ import annotations

import ast
import json
import os
import sys
from concurrent.futures import ProcessPoolExecutor

sys.path.insert(0, "/verif")
ROOT = "/repo"


def _func_by_qualname(tree, qual):
    parts = qual.split(".")
    node = tree
    for p in parts:
        nxt = None
        for ch in ast.walk(node) if node is tree else ast.iter_child_nodes(node):
            pass
        # direct children only (bodies), descending through if/try blocks
        stack = list(getattr(node, "body", []))
        while stack:
            s = stack.pop(0)
            if isinstance(s, (ast.FunctionDef, ast.AsyncFunctionDef, ast.ClassDef)) and s.name == p:
                nxt = s
                break
            for f in ("body", "orelse", "finalbody", "handlers"):
                for c in getattr(s, f, []) or []:
                    if isinstance(c, ast.ExceptHandler):
                        stack.extend(c.body)
                    elif isinstance(c, ast.stmt):
                        stack.append(c)
        if nxt is None:
            return None
        node = nxt
    return node if isinstance(node, (ast.FunctionDef, ast.AsyncFunctionDef)) else None


def _locals(fn):
    params = set()
    for f in ast.walk(fn):
        if isinstance(f, (ast.FunctionDef, ast.AsyncFunctionDef, ast.Lambda)):
            a = f.args
            for x in a.posonlyargs + a.args + a.kwonlyargs:
                params.add(x.arg)
            if a.vararg:
                params.add(a.vararg.arg)
            if a.kwarg:
                params.add(a.kwarg.arg)
    declared = set()
    stores = {}
    allnames = set()
    for n in ast.walk(fn):
        if isinstance(n, ast.Global):
            declared.update(n.names)
        elif isinstance(n, ast.Name):
            allnames.add(n.id)
            if isinstance(n.ctx, ast.Store):
                stores[n.id] = stores.get(n.id, 0) + 1
        elif isinstance(n, (ast.FunctionDef, ast.AsyncFunctionDef)) and n is not fn:
            allnames.add(n.name)
    uses = {}
    for n in ast.walk(fn):
        if isinstance(n, ast.Name) and n.id in stores:
            uses[n.id] = uses.get(n.id, 0) + 1
    cands = [k for k in stores if k not in params and k not in declared and not k.startswith("_") and k != "self"]
    cands.sort(key=lambda k: (-uses.get(k, 0), k))
    return cands, allnames


class _Ren(ast.NodeTransformer):
    def __init__(self, old, new):
        self.old, self.new = old, new

    def visit_Name(self, node):
        if node.id == self.old:
            node.id = self.new
        return node

    def visit_Nonlocal(self, node):
        node.names = [self.new if n == self.old else n for n in node.names]
        return node


def rename_variants(src, qual, per_func):
    tree = ast.parse(src)
    fn = _func_by_qualname(tree, qual)
    if fn is None:
        return []
    cands, allnames = _locals(fn)
    out = []
    for old in cands[:per_func]:
        t2 = ast.parse(src)
        f2 = _func_by_qualname(t2, qual)
        new = old + "_rn"
        if new in allnames:
            continue
        _Ren(old, new).visit(f2)
        out.append((f"rename {old}->{new} in {qual}", ast.unparse(t2)))
    return out


class _Ann(ast.NodeTransformer):
    def __init__(self, k):
        self.k, self.i = k, 0

    def visit_Assign(self, node):
        if len(node.targets) == 1 and isinstance(node.targets[0], ast.Name):
            self.i += 1
            if self.i == self.k:
                return ast.copy_location(ast.AnnAssign(target=node.targets[0], annotation=ast.Name("object", ast.Load()), value=node.value, simple=1), node)
        return node


def annassign_variants(src, qual, per_func):
    out = []
    for k in range(1, per_func + 1):
        t2 = ast.parse(src)
        f2 = _func_by_qualname(t2, qual)
        if f2 is None:
            return out
        tr = _Ann(k)
        tr.visit(f2)
        if tr.i < k:
            break
        ast.fix_missing_locations(t2)
        out.append((f"annotate assignment #{k} in {qual}", ast.unparse(t2)))
    return out


def insert_variants(src, qual, per_func):
    """Insert a statement without effect: first in the body, and before the last top-level statement."""
    out = []
    for where in ("first", "before-last", "log"):
        t2 = ast.parse(src)
        f2 = _func_by_qualname(t2, qual)
        if f2 is None:
            return out
        body = f2.body
        i0 = 1 if body and isinstance(body[0], ast.Expr) and isinstance(body[0].value, ast.Constant) and isinstance(body[0].value.value, str) else 0
        if where == "first":
            stmt = ast.parse("assert True").body[0]
            body.insert(i0, stmt)
        elif where == "before-last":
            if len(body) - i0 < 2:
                continue
            stmt = ast.parse("assert True").body[0]
            body.insert(len(body) - 1, stmt)
        else:
            stmt = ast.parse("__debug__ and None").body[0]
            body.insert(i0, stmt)
        ast.fix_missing_locations(t2)
        out.append((f"insert no-op ({where}) in {qual}", ast.unparse(t2)))
    return out[:per_func]


def one_property(args):
    prop, per_func, kind = args
    from sa.__main__ import run_check

    rc0, ctx0 = run_check(prop, "quick", ROOT, quiet=True, write=False)
    base = sorted(o.key() for o in ctx0.obligations if o.status != "discharged")
    sites = []
    for o in ctx0.obligations:
        if "::" in o.site and o.site not in sites and not o.site.endswith("<module>"):
            sites.append(o.site)
    results = {"property": prop, "base_rc": rc0, "variants": 0, "alarms": [], "errors": []}
    for site in sites:
        rel, qual = site.split("::", 1)
        try:
            src = open(os.path.join(ROOT, rel), encoding="utf-8").read()
        except OSError:
            continue
        vs = []
        if kind in ("rename", "all"):
            vs += rename_variants(src, qual, per_func)
        if kind in ("annassign", "all"):
            vs += annassign_variants(src, qual, min(per_func, 2))
        if kind in ("insert", "all"):
            vs += insert_variants(src, qual, per_func)
        for label, newsrc in vs:
            results["variants"] += 1
            try:
                rc, c2 = run_check(prop, "quick", ROOT, overlay={rel: newsrc}, quiet=True, write=False)
            except Exception as e:  # noqa: BLE001
                results["errors"].append(f"{rel}: {label}: crash {type(e).__name__}: {e}")
                continue
            now = sorted(o.key() for o in c2.obligations if o.status != "discharged")
            if rc != rc0 or now != base:
                new = [o for o in c2.obligations if o.status != "discharged" and o.key() not in base]
                what = "; ".join(f"{o.status} {o.rule}" for o in new[:3]) or f"rc {rc0}->{rc}"
                (results["alarms"] if rc == 1 else results["errors"]).append(f"{rel}: {label}: {what}")
    return results


def main(argv):
    per_func, jobs, kind = 3, 8, "rename"
    props = []
    i = 0
    while i < len(argv):
        a = argv[i]
        if a == "--per-func":
            per_func = int(argv[i + 1]); i += 2
        elif a == "--jobs":
            jobs = int(argv[i + 1]); i += 2
        elif a == "--kind":
            kind = argv[i + 1]; i += 2
        else:
            props.append(a); i += 1
    if not props:
        m = json.load(open("/verif/MANIFEST.json"))
        props = [c["property"] for c in m["claims"]] if "claims" in m else sorted(p[:-3] for p in os.listdir("/verif/sa/rules") if p.startswith("C") and p.endswith(".py"))
    tot = al = er = 0
    with ProcessPoolExecutor(jobs) as ex:
        for r in ex.map(one_property, [(p, per_func, kind) for p in props]):
            tot += r["variants"]; al += len(r["alarms"]); er += len(r["errors"])
            print(f"{r['property']}: variants={r['variants']} alarms={len(r['alarms'])} analysis-errors={len(r['errors'])}")
            for a in r["alarms"]:
                print("   ALARM", a[:260])
            for a in r["errors"]:
                print("   ERROR", a[:260])
            sys.stdout.flush()
    print(f"TOTAL variants={tot} alarms={al} analysis-errors={er}")


if __name__ == "__main__":
    main(sys.argv[1:])
