#!/venv/bin/python
"""List twin candidates between the classic and the expression array engine and print their
canonical hunks (development helper used to build sa/rules/twins_accepted.json by hand)."""
import ast, json, sys
sys.path.insert(0, "/verif")
from sa.srcmodel import Model
from sa.twin import canon_lines, hunks, pair_key
MODPAIRS = [
 ("dask/array/overlap.py", "dask/array/_array_expr/_overlap.py"),
 ("dask/array/gufunc.py", "dask/array/_array_expr/_gufunc.py"),
 ("dask/array/random.py", "dask/array/_array_expr/random.py"),
 ("dask/array/ufunc.py", "dask/array/_array_expr/_ufunc.py"),
 ("dask/array/creation.py", "dask/array/_array_expr/_creation.py"),
 ("dask/array/slicing.py", "dask/array/_array_expr/_slicing.py"),
 ("dask/array/core.py", "dask/array/_array_expr/_collection.py"),
 ("dask/array/core.py", "dask/array/_array_expr/_map_blocks.py"),
 ("dask/array/core.py", "dask/array/_array_expr/_expr.py"),
 ("dask/array/core.py", "dask/array/_array_expr/_blockwise.py"),
 ("dask/array/core.py", "dask/array/_array_expr/_io.py"),
 ("dask/array/blockwise.py", "dask/array/_array_expr/_blockwise.py"),
 ("dask/array/_reductions_generic.py", "dask/array/_array_expr/_reductions.py"),
 ("dask/array/reductions.py", "dask/array/_array_expr/_reductions.py"),
 ("dask/array/rechunk.py", "dask/array/_array_expr/_rechunk.py"),
 ("dask/array/routines.py", "dask/array/_array_expr/_collection.py"),
 ("dask/array/wrap.py", "dask/array/_array_expr/_creation.py"),
 ("dask/array/backends.py", "dask/array/_array_expr/_backends.py"),
]
m = Model("/repo")
thr = float(sys.argv[1]) if len(sys.argv) > 1 else 0.6
out = {}
for ra, rb in MODPAIRS:
    if not m.exists(ra) or not m.exists(rb):
        print("missing", ra, rb); continue
    A = dict(m.module(ra).functions()); B = dict(m.module(rb).functions())
    for qa, fa in A.items():
        cands = [qb for qb in B if qb.split(".")[-1] == qa.split(".")[-1]]
        for qb in cands:
            la, lb = canon_lines(fa), canon_lines(B[qb])
            if len(la) < 3: continue
            hs, r = hunks(la, lb)
            if r < thr: continue
            out[pair_key(ra, qa, rb, qb)] = (r, len(la), hs)
for k, (r, n, hs) in sorted(out.items(), key=lambda kv: -kv[1][0]):
    print(f"=== {r:.2f} {k} ({n} lines, {len(hs)} hunks)")
    if "-v" in sys.argv:
        for a, b in hs:
            print("   A|", a.replace("\n", "\n   A| ")); print("   B|", b.replace("\n", "\n   B| ")); print("   --")
if "--json" in sys.argv:
    json.dump({k: [{"a": a, "b": b, "why": ""} for a, b in hs] for k, (r, n, hs) in out.items()}, open(sys.argv[sys.argv.index("--json") + 1], "w"), indent=1)
