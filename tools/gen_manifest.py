#!/venv/bin/python
"""Regenerate MANIFEST.json from the rule modules present under sa/rules (development helper)."""
import importlib, json, os, sys
sys.path.insert(0, "/verif")
props = [json.loads(l) for l in open("/verif/properties.jsonl")]
NA = {
 "C21": "item assignment: index normalisation and block intersection are numeric over run-time values",
 "C27": "counting/set/search/histogram: numerical agreement with NumPy",
 "C31": "tensor products and decompositions: numerical linear algebra",
 "C32": "approximate percentiles: numeric merge; monotonicity is a value property",
 "C42": "dataframe meta vs computed: needs pandas execution",
 "C45": "division planning: bisect/drift arithmetic over the data",
 "C47": "file round trips: byte-level parsing, pandas and pyarrow behaviour",
}
def _rules_note(pid):
    """The rule ids evaluated in the last run (from the evidence file): the EXPLANATION names the rule
    families the module started with, site rules were added per seeded change."""
    try:
        ev = json.load(open(f"/verif/evidence/{pid}.json"))
        rules = ev["coverage"]["rules"]
        if isinstance(rules, str):
            import ast as _ast
            rules = _ast.literal_eval(rules)
        short = sorted({r.split(".", 1)[1] for r in rules})
        return "  Rules evaluated (each decides one named structural clause, not the behaviour as a whole): " + ", ".join(short) + "."
    except Exception:
        return ""


checks, na = [], []
for p in props:
    pid = p["id"]
    if os.path.exists(f"/verif/sa/rules/{pid}.py"):
        m = importlib.import_module(f"sa.rules.{pid}")
        checks.append({
            "property_id": pid,
            "quick_cmd": f"bin/sa check {pid} --tier quick",
            "thorough_cmd": f"bin/sa check {pid} --tier thorough",
            "evidence_file": f"/verif/evidence/{pid}.json",
            "replay_cmd_template": "bin/sa explain {path}",
            "engine": "sa",
            "level_claimed": {"category": "other",
                "text": "static analysis of the current source: " + m.EXPLANATION + _rules_note(pid),
                "design_ref": f"DESIGN.md {pid}"},
            "level_note": "trusted base: CPython ast, sa/srcmodel.py resolution, sa/cfg.py dominators, the idiom catalogue in sa/rules/%s.py; assumptions: %s" % (pid, "; ".join(getattr(m, "ASSUMPTIONS", [])) or "none"),
            "technique": getattr(m, "TECHNIQUE", "static analysis: ast pattern rules + CFG dominance/post-dominance + reaching definitions over /repo source (no execution)"),
        })
    else:
        na.append({"property_id": pid, "reason": NA.get(pid, "static check not yet built; planned clause in DESIGN.md")})
man = {
 "version": 1,
 "setup_cmd": "bin/sa selfcheck",
 "hooks": {"guard": "DASK_DASK_VERIF", "enable": "no hooks: the checks read /repo source text only; nothing in /repo is instrumented",
           "baseline_off_cmd": "cd /repo && /venv/bin/python -m pytest -ra -q -p no:cacheprovider --timeout=900 --continue-on-collection-errors",
           "source_commits": [], "add_only": True},
 "engines": [{"name": "sa", "path": "/verif/sa", "serves_properties": [c["property_id"] for c in checks],
              "kind_free_text": "stdlib-only static analyser: ast source model with import/MRO resolution, statement CFG with branch-outcome nodes, dominators/post-dominators, lazy reaching definitions, structural pattern matcher, per-property rule modules, overlay-based witness self-tests"}],
 "checks": checks,
 "notes": "Exit codes: 0 discharged (KNOWN-FINDING lines for listed findings), 1 VIOLATION, 2 ANALYSIS-ERROR (anchor vanished / idiom unknown / vacuity guard). Unrepaired defects are in known_findings.json; repaired ones are listed there as fixed and suppress nothing.",
 "not_applicable": na,
}
json.dump(man, open("/verif/MANIFEST.json", "w"), indent=1)
print("claimed", len(checks), "not_applicable", len(na))
