#!/bin/sh
# usage: seedtest.sh <prop> <diff> <demo.py> [worktree]
# applies the diff in a scratch worktree, runs the demo on original and changed tree, runs the
# property's quick check against the changed tree (--root), then reverts.  Development helper.
P=$1; D=$2; DEMO=$3; WT=${4:-/tmp/seedwork/wt_$P}
git -C $WT checkout -q -- . 
echo "--- demo on original"; (cd /var/tmp && PYTHONPATH=/repo timeout 120 /venv/bin/python $DEMO 2>&1 | grep -v WARNING | tail -3; )
git -C $WT apply $D || { echo "APPLY FAILED"; exit 3; }
echo "--- demo on changed"; (cd /var/tmp && PYTHONPATH=$WT timeout 120 /venv/bin/python $DEMO 2>&1 | grep -v WARNING | tail -4; echo "demo rc=$?")
echo "--- check on changed"; /verif/bin/sa check $P --root $WT 2>&1 | grep -v WARNING | grep -v "^\[sa\]" | cut -c1-400; 
shift 4 2>/dev/null
git -C $WT checkout -q -- .
# restore evidence/report for /repo
/verif/bin/sa check $P >/dev/null 2>&1
