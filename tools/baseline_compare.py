#!/venv/bin/python
"""Run the pinned suite (xdist) on a tree and compare with BASELINE.json stable_pass.
usage: baseline_compare.py [root=/repo] [pytest paths...]   (development helper, not a check)"""
import json, subprocess, sys, tempfile, os, xml.etree.ElementTree as ET
root = sys.argv[1] if len(sys.argv) > 1 else "/repo"
paths = sys.argv[2:]
out = tempfile.mktemp(suffix=".xml", dir="/var/tmp")
cmd = ["/venv/bin/python", "-m", "pytest", "-ra", "-q", "-p", "no:cacheprovider", "--timeout=900",
       "--continue-on-collection-errors", "-n", "12", f"--junitxml={out}", *paths]
env = dict(os.environ, PYTHONPATH=root)
# test_interrupt sends SIGINT to "the main thread"; under xdist and load the test may run in another
# thread and then hangs until the timeout: run it alone, without xdist
INTR = "dask/tests/test_threaded.py::test_interrupt"
cmd += ["--deselect", INTR]
p = subprocess.run(cmd, cwd=root, env=env, capture_output=True, text=True)
print(p.stdout.strip().splitlines()[-1] if p.stdout.strip() else p.stderr[-500:])
b = json.load(open("/root/.vp/BASELINE.json"))
res = {}
def absorb(path):
    for tc in ET.parse(path).iter("testcase"):
        st = "pass"
        for ch in tc:
            if ch.tag in ("failure", "error"): st = "fail"
            elif ch.tag == "skipped": st = "skip"
        res[tc.get("classname") + "::" + tc.get("name")] = st
    os.unlink(path)
absorb(out)
if not paths or any(x.startswith(("dask/tests", "dask")) and "test_threaded" in x or x in ("dask", "dask/tests") for x in paths):
    out2 = tempfile.mktemp(suffix=".xml", dir="/var/tmp")
    subprocess.run(["/venv/bin/python", "-m", "pytest", "-q", "-p", "no:cacheprovider", "--timeout=120", f"--junitxml={out2}", INTR],
                   cwd=root, env=env, capture_output=True, text=True)
    if os.path.exists(out2):
        absorb(out2)
sp = set(b["stable_pass"])
if paths:
    sp = {n for n in sp if n in res}
bad = sorted(n for n in sp if res.get(n) != "pass")
print(f"stable_pass considered={len(sp)} not-passing={len(bad)}")
for n in bad[:40]: print("  ", n, res.get(n))
sys.exit(1 if bad else 0)
